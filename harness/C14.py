"""C14  A text has one value however it is consumed.

Kernels (DESIGN.md section 4, C14):
  K1  line division of the two string-backed contents classes (`str.splitlines` sites): the lines
      of a text are its maximal segments ending in '\\n'.  s symbolic, UNRESTRICTED Unicode.
  K2  caching: a string source (literal, file, `filter`-ed, writer-produced, concatenated, chained)
      built from the REAL classes delivers the same characters and the same division into lines
      through as_str / as_lines / write_to / as_file, before and after freeze(), for EVERY memory
      buffer size m >= 1 (symbolic integer: the in-memory / on-disk decision of SpooledTextFile and
      frozen.py is an integer comparison the solver splits on).
  K3  `equals` (real _EqualityStringMatcher / _ApplierWExtDepsCases): verdict iff the two texts are
      equal, for all four (expected, actual) dependency combinations.
  K4  wrappers through the REAL string-matcher parser: M, `( M && M )`, `-transformed-by identity M`
      give the same verdict.

  K6  transformers whose output lines are NOT in 1-1 correspondence with the lines of their model (`replace`
      whose replacement string inserts any number of new-lines anywhere, or that deletes / multiplies the
      new-lines; with -preserve-new-lines; limited to one line by -at; under a cache; after another such
      transformer; followed by consumers that depend on the division into lines: `filter line-num == 2`,
      `strip -trailing-new-lines`, `filter`, `num-lines`): every access route delivers the text the
      documentation of the transformers denotes, and as_lines delivers exactly the lines of that text.
      Text and REPLACEMENT STRING symbolic.

  K7  line-oriented transformers on DEGENERATE texts (the empty text, white space only, one unterminated line, several
      final new-lines; text symbolic over {space, tab, LF, a}): every variant of `strip`, `char-case`, `filter` by line
      number / contents (`grep`) / -line-nums (also from the end), `replace` that deletes or produces white space, alone
      and every ordered pair of them, below a str / a file / a cache: every access route delivers the documented text,
      and as_lines delivers exactly its lines (no empty element), before and after freezing; `num-lines == K` says the
      same plain and in `&&`.

The OS side (text files, io.StringIO, os.fstat, filecmp) is replaced by the documented-contract
stand-ins of harness/_C14_fakefs.py (self-tested against real files).
"""
from typing import List

from vsym import ob
from vsym.ob import Ob

from harness import _C14_chfix
from harness import _C14_fakefs as ffs

_C14_chfix.apply()  # tool work-around; a no-op outside the CrossHair worker process

PROPERTY = 'C14'

# ---------------------------------------------------------------------------------- regions
# Known-finding regions (switched on by known_findings.json entries; see HARNESS_GUIDE).  The exact
# predicates are `_pre_k1`, `in_known_region` and the second half of c14-cr in `_pre_k3`.
# All three were found by this harness on the pinned tree and reproduced on the real program.
# c14-splitlines and c14-rollover-nonascii have since been repaired in /repo (commits f1544eb, b8a23d1);
# their regions are inert unless a known_findings.json entry names them again.
#
#  c14-splitlines        a text that is (or may be, once cached in memory) held as a str is divided by
#                        str.splitlines, i.e. also after VT FF FS GS RS NEL LS PS (and CR), while a file is
#                        divided after LF only.  Region: the text contains one of these characters and the
#                        source has a str literal part or a cache.
#  c14-cr                reading a file translates CR / CR LF to LF, a str keeps the CR; two texts that both
#                        exist as files are compared by `equals` byte by byte.  Region: a str literal part
#                        contains CR; or (K3) a file's bytes contain CR and the other side may be on disk.
#  c14-unflushed-before-ignore-exit-code-program
#                        a text concatenated from parts followed by the output of a program run with
#                        -ignore-exit-code: when the concatenation is written to a file object that is already a
#                        file on disk, the earlier parts are still in the buffer of the file object when the child
#                        writes through the descriptor, so the program's output lands FIRST (the repair 0d4c741
#                        flushes in file_ctx_managers.opened_file, which exit_ignored._WriterBase.write does not use).
#                        Region: a non-empty part precedes a part of kind 'prog-i'.
#  c14-rollover-nonascii SpooledTextFile._rollover positions the new disk file at the CHARACTER offset of the
#                        memory buffer (newfile.seek(file.tell())), which is the byte offset only for ASCII:
#                        what is written after the roll-over overwrites the tail of the file.  Region: the
#                        text contains a non-ASCII character, the source has a cache and the text is longer
#                        than the memory buffer.

R_SPLITLINES = 'c14-splitlines'
R_CR = 'c14-cr'
R_ROLLOVER = 'c14-rollover-nonascii'
R_FLUSH_IGNORE = 'c14-unflushed-before-ignore-exit-code-program'

SPLIT_NONCR = '\x0b\x0c\x1c\x1d\x1e\x85\u2028\u2029'


def has_split_noncr(s: str) -> bool:
    for c in s:
        if c == '\x0b' or c == '\x0c' or c == '\x1c' or c == '\x1d' or c == '\x1e' \
                or c == '\x85' or c == '\u2028' or c == '\u2029':
            return True
    return False


def has_cr(s: str) -> bool:
    return '\r' in s


def has_nonascii(s: str) -> bool:
    for c in s:
        if c >= '\x80':
            return True
    return False


def in_alphabet(s: str, alphabet: str) -> bool:
    for c in s:
        if c not in alphabet:
            return False
    return True


# ---------------------------------------------------------------------------------- oracle

def ref_lines(text: str) -> List[str]:
    """What iterating a file yields and what `num-lines` documents: the maximal segments of the
    text that end in '\\n' (and a last segment without one, if any)."""
    return ffs.lines_at_lf(text)


# ---------------------------------------------------------------------------------- K1

REAL_K1 = (
    'exactly_lib.impls.types.string_source.contents.contents_of_str.ContentsOfStr.as_lines',
    'exactly_lib.impls.types.string_source.contents.frozen._StringSourceContentsOfConstStrAndExistingPath.as_lines',
)


def _pre_k1(s: str) -> bool:
    c = ob.case()
    if len(s) > c['maxlen']:
        return False
    if ob.excluded(R_SPLITLINES) and (has_split_noncr(s) or has_cr(s)):
        return False
    return True


def k1_lines(s: str) -> bool:
    """
    pre: _pre_k1(s)
    post: _
    """
    from exactly_lib.impls.types.string_source.contents import contents_of_str, frozen
    c = ob.case()
    fs = ffs.FakeFs()
    tfs = ffs.FakeDirFileSpace(fs)
    if c['impl'] == 'str':
        contents = contents_of_str.ContentsOfStr(s, None, tfs)
    else:
        contents = frozen._StringSourceContentsOfConstStrAndExistingPath(s, fs.path('unused'), tfs)
    with contents.as_lines as lines:
        first = list(lines)
    with contents.as_lines as lines:
        second = list(lines)
    expected = ref_lines(s)
    if c.get('oracle_bug'):
        # seeded oracle error: "lines never keep their line ending"
        expected = [x.rstrip('\n') for x in expected]
    return ob.post(first == expected and second == expected and ''.join(first) == s)


# ---------------------------------------------------------------------------------- real objects

def _app_env(tfs, m: int):
    from exactly_lib.test_case.app_env import ApplicationEnvironment
    return ApplicationEnvironment(None, None, tfs, m)


def _transformer(text: str, tfs, m: int, string_symbols=None):
    """A string transformer parsed by the REAL parser from concrete text, resolved with the
    (symbolic) memory buffer size.  string_symbols: {name: str} of the string symbols the text refers to."""
    from vsym import xly
    from exactly_lib.impls.types.string_transformer import parse_string_transformer
    from exactly_lib.symbol.sdv_structure import SymbolContainer
    from exactly_lib.symbol.value_type import ValueType
    from exactly_lib.type_val_deps.types.string_ import string_sdvs
    from exactly_lib.util.symbol_table import SymbolTable
    sdv = xly.parse_cached('string-transformer', parse_string_transformer.parsers(False).full, text)
    symbols = SymbolTable({name: SymbolContainer(string_sdvs.str_constant(value), ValueType.STRING, None)
                           for name, value in (string_symbols or {}).items()})
    return sdv.resolve(symbols).value_of_any_dependency(None).primitive(_app_env(tfs, m))


def _copy_writer(contents, output):
    """A producer that writes its model unchanged (stands for any writer-based transformation,
    e.g. a program that copies stdin to stdout)."""
    contents.write_to(output)


def _fd_writer(contents, output):
    """A producer that behaves like a child process that got `output` as its stdout (what the `run`
    transformer and program-output sources do): the file descriptor is requested (which makes a
    SpooledTextFile roll over to disk) and the bytes arrive in the file behind the descriptor."""
    fd = output.fileno()
    ffs.write_to_fd(fd, contents.as_str)


LAYER_TEXT = {
    'identity': 'identity',
    'filter': 'filter constant true',
    'filter2': 'filter ! constant false',
    'seq': 'identity | filter constant true | identity',
    # line-oriented consumers whose RESULT depends on the division into lines of their model (K6)
    'line2': 'filter line-num == 2',
    'strip-nl': 'strip -trailing-new-lines',
    # line-oriented transformers of K7 (every variant of `strip`, `char-case`, `filter` / `grep`)
    'strip': 'strip',
    'strip-ts': 'strip -trailing-space',
    'upper': 'char-case -to-upper',
    'lower': 'char-case -to-lower',
    'grep-a': 'grep a',
    'grep-blank': "grep -full '[ \\t]*'",
    'not-grep-a': 'filter ! contents matches a',
    'line1': 'filter line-num == 1',
    'all': 'filter line-num >= 1',
    'none': 'filter constant false',
}

# layers that are `filter`s: their result is a StringSourceWithCachedFrozen
FILTER_LAYERS = ('filter', 'filter2', 'seq', 'line2', 'grep-a', 'grep-blank', 'not-grep-a', 'line1', 'all', 'none')


def nums_layer(ranges: str) -> str:
    """`filter -line-nums RANGE...`; ranges: RANGEs separated by a space, each N, N:, :N or N:N, N an integer != 0"""
    return 'nums:' + ranges


def is_nums_layer(layer) -> bool:
    return isinstance(layer, str) and layer.startswith('nums:')


def ref_line_nums(text: str, ranges: str) -> str:
    """The documentation of `filter -line-nums`: "A line matches iff it's line number matches any RANGE"; RANGE is "INT:
    the single line number INT", ":INT line numbers from 1 to INT (including)", "INT: line numbers starting from INT",
    "INT:INT from INT (to the left) to INT (to the right) (including)"; "Line numbers start at 1"; "Negative numbers
    denote line numbers relative to the end. -1 is the last line number, -2 is the second to last line number, etc."""
    lines = ref_lines(text)
    n = len(lines)

    def line_number(limit: str) -> int:
        v = int(limit)
        return v if v > 0 else n + 1 + v

    out = ''
    for num in range(1, n + 1):
        matches = False
        for r in ranges.split(' '):
            if ':' not in r:
                matches = matches or num == line_number(r)
            else:
                lo, hi = r.split(':')
                matches = matches or ((lo == '' or line_number(lo) <= num) and (hi == '' or num <= line_number(hi)))
        if matches:
            out = out + lines[num - 1]
    return out

WHITE_SPACE_K7 = ' \t\n'  # the white space characters of the alphabet of K7


def _only_spaces_and_tabs(s: str) -> bool:
    for ch in s:
        if ch != ' ' and ch != '\t':
            return False
    return True


def _line_contents(line: str) -> str:
    """a line without the new-line that ends it (what a line matcher sees)"""
    return line[:-1] if line[-1:] == '\n' else line


def _lines_where(text: str, predicate) -> str:
    out = ''
    for line in ref_lines(text):
        if predicate(_line_contents(line)):
            out = out + line
    return out


# -- layers that CHANGE the number of new-lines of a line (K6): ('replace', PATTERN, PRESERVE-NEW-LINES, REPLACEMENT)
# PATTERN is a literal string over {a, b, new-line} that contains a new-line as its last character or not at all;
# REPLACEMENT is a string over {x, new-line}.

def replace_layer(pat: str, preserve: bool, repl: str, at=None):
    """at: None, or the number of the only line the replacement is limited to (-at line-num == AT)"""
    return ('replace', pat, preserve, repl, at)


def _quoted(s: str) -> str:
    """The string written as a single-quoted token in which a new-line is the escape \\n (processed by the regex
    / by the replacement string, as documented for `replace`)."""
    return "'" + s.replace('\n', '\\n') + "'"


def replace_source_text(layer, via_symbol: bool = True) -> str:
    """The source text of the transformer.  The replacement string is given as a reference to the string symbol R
    (whose value then holds real new-line characters); or (self-test) literally, with new-lines as \\n escapes."""
    _, pat, preserve, repl, at = layer
    return 'replace %s%s%s %s' % (('-at line-num == %d ' % at) if at is not None else '',
                                  '-preserve-new-lines ' if preserve else '', _quoted(pat),
                                  '@[R]@' if via_symbol else _quoted(repl))


def _subst_literal(part: str, pat: str, repl: str) -> str:
    """`part` with every (leftmost, non-overlapping) occurrence of the literal `pat` replaced by `repl`."""
    out = ''
    i = 0
    n = len(pat)
    while i < len(part):
        if part[i:i + n] == pat:
            out = out + repl
            i += n
        else:
            out = out + part[i]
            i += 1
    return out


def ref_replace(text: str, pat: str, preserve: bool, repl: str, at=None) -> str:
    """The documentation of `replace`: "Replaces every string matching REGEX (on a single line) with STRING.  Every
    line ends with \\n, except the last line, which may or may not [...].  If -preserve-new-lines is given, this \\n
    is excluded from the replacement."  "-at LINE-MATCHER: Limits replacement to lines matching LINE-MATCHER" (line
    numbers are those of the model, starting at 1).
    The result is a TEXT; nothing is said (or needed) about how it is divided."""
    out = ''
    num = 0
    for line in ref_lines(text):
        num += 1
        if at is not None and num != at:
            out = out + line
        elif preserve and line[-1] == '\n':
            out = out + _subst_literal(line[:-1], pat, repl) + '\n'
        else:
            out = out + _subst_literal(line, pat, repl)
    return out


def denoted_by_layer(layer, text: str) -> str:
    """The text a layer makes of its model's text (independent statement of what the layer is documented to do)."""
    if isinstance(layer, tuple):
        return ref_replace(text, layer[1], layer[2], layer[3], layer[4])
    if layer == 'fdwriter':
        # the text of program output is what reading the file it was written to gives
        return ffs.universal_newlines(text)
    if layer == 'line2':
        lines = ref_lines(text)
        return lines[1] if len(lines) >= 2 else ''
    if layer == 'strip-nl':
        n = len(text)
        while n > 0 and text[n - 1] == '\n':
            n -= 1
        return text[:n]
    # -- K7.  `strip`: "Removes all white space at the beginning and end of the text (by default)";
    # -trailing-space: "Removes all white space at the end of the text"
    if layer in ('strip', 'strip-ts'):
        n = len(text)
        while n > 0 and text[n - 1] in WHITE_SPACE_K7:
            n -= 1
        i = 0
        if layer == 'strip':
            while i < n and text[i] in WHITE_SPACE_K7:
                i += 1
        return text[i:n]
    # `char-case`: "Converts all cased characters to uppercase / lowercase"
    if layer == 'upper':
        return text.upper()
    if layer == 'lower':
        return text.lower()
    # `filter`: "Keeps lines matched by MATCHER, and discards lines not matched" (`grep` = filter contents matches);
    # the contents of a line do not include the new-line that ends it; line numbers start at 1; -1 is the last line
    if layer == 'grep-a':
        return _lines_where(text, lambda contents: 'a' in contents)
    if layer == 'not-grep-a':
        return _lines_where(text, lambda contents: 'a' not in contents)
    if layer == 'grep-blank':
        return _lines_where(text, _only_spaces_and_tabs)
    if layer == 'line1':
        return ''.join(ref_lines(text)[:1])
    if is_nums_layer(layer):
        return ref_line_nums(text, layer[5:])
    if layer == 'all':
        return text
    if layer == 'none':
        return ''
    return text


def _layer(kind: str, model, tfs, m: int):
    if kind == 'writer':
        from exactly_lib.impls.types.string_transformer.impl.sources import transformed_string_sources as tss
        from exactly_lib.util.description_tree import renderers
        return tss.transformed_string_source_from_writer(
            _copy_writer, model, lambda: renderers.header_only('copy'), m, None)
    if kind == 'fdwriter':
        from exactly_lib.impls.types.string_transformer.impl.sources import transformed_string_sources as tss
        from exactly_lib.util.description_tree import renderers
        return tss.transformed_string_source_from_writer(
            _fd_writer, model, lambda: renderers.header_only('fd-copy'), m, None)
    if isinstance(kind, tuple):
        if kind[0] == 'replace-literal':  # self-test only: the replacement string written with \\n escapes
            return _transformer(replace_source_text(kind, False), tfs, m).transform(model)
        return _transformer(replace_source_text(kind), tfs, m, {'R': kind[3]}).transform(model)
    if is_nums_layer(kind):
        return _transformer('filter -line-nums ' + kind[5:], tfs, m).transform(model)
    return _transformer(LAYER_TEXT[kind], tfs, m).transform(model)


def _root(kind: str, fs, tfs, text: str, name: str):
    """(source, the text it denotes)"""
    from exactly_lib.impls.types.string_source import constant_str, file_source
    if kind == 'str':
        return constant_str.string_source(text, tfs), text
    if kind == 'file':
        # a file whose BYTES are the UTF-8 encoding of `text`; its text is what reading it gives
        path = fs.create('src/' + name, text)
        return (file_source.StringSourceOfFile(path, None, tfs),
                ffs.universal_newlines(text))
    if kind in ('prog', 'prog-i'):
        # the output of a program: the REAL program-output string source, the REAL command executor and process
        # executor; the program is `printf %s TEXT` (run for real in the self-test; under analysis `subprocess.call`
        # is the stand-in whose child writes TEXT through the file descriptor it was given as stdout).
        # 'prog-i' = with -ignore-exit-code (other writer classes).  The text is what reading the output file gives.
        return _program_output_source(text, tfs, _PROG_M[0], kind == 'prog-i'), ffs.universal_newlines(text)
    raise ValueError(kind)


_PROG_M = [8192]


def _program_output_source(text: str, tfs, m: int, ignore_exit_code: bool):
    from exactly_lib.impls.program_execution import executable_factories
    from exactly_lib.impls.program_execution.impl import cmd_exe_from_proc_exe
    from exactly_lib.impls.types.string_source.command_output import string_source as command_output
    from exactly_lib.impls.types.utils.command_w_stdin import CommandWStdin
    from exactly_lib.type_val_prims.program import commands
    from exactly_lib.type_val_prims.program.command import Command
    from exactly_lib.util.process_execution.execution_elements import ProcessExecutionSettings
    from exactly_lib.util.process_execution.process_executor import ProcessExecutor
    from exactly_lib.util.process_execution.process_output_files import ProcOutputFile
    executor = cmd_exe_from_proc_exe.CommandExecutorFromProcessExecutor(
        ProcessExecutor(), executable_factories.get_factory_for_operating_system('posix'))
    command = Command(commands.CommandDriverForSystemProgram('printf'), ['%s', text])
    return command_output.string_source('-stdout-from', ignore_exit_code, ProcOutputFile.STDOUT,
                                        CommandWStdin(command, ()), ProcessExecutionSettings.null(),
                                        executor, m, tfs)


def build_source(spec, fs, tfs, parts, m: int, prefix: str = ''):
    """spec = (root, layer, ...)  with root in {'str', 'file', ('concat', root1, root2[, root3])}.
    Returns (source, denoted text)."""
    from exactly_lib.type_val_prims.string_source.impls import concat
    root = spec[0]
    _PROG_M[0] = m
    if isinstance(root, tuple):
        srcs = []
        text = ''
        for i, rk in enumerate(root[1:]):
            src_i, text_i = _root(rk, fs, tfs, parts[i], '%sp%d' % (prefix, i))
            srcs.append(src_i)
            text = text + text_i
        src = concat.string_source(srcs, m, 'concat')
    else:
        src, text = _root(root, fs, tfs, parts[0], prefix + 'p0')
    for layer in spec[1:]:
        src = _layer(layer, src, tfs, m)
        text = denoted_by_layer(layer, text)
    return src, text


def spec_has_cache(spec) -> bool:
    """Does the source contain a StringSourceWithCachedFrozen (=> a SpooledTextFile when frozen)?"""
    if isinstance(spec[0], tuple) or spec[0] in ('prog', 'prog-i'):
        return True
    return any(layer in FILTER_LAYERS or layer in ('writer', 'fdwriter') or is_nums_layer(layer) for layer in spec[1:])


def spec_needs_fd(spec) -> bool:
    """must write_to be given a file that has a descriptor (a child process writes to it)?"""
    if 'fdwriter' in spec[1:]:
        return True
    kinds = spec[0][1:] if isinstance(spec[0], tuple) else (spec[0],)
    return 'prog' in kinds or 'prog-i' in kinds


def n_parts(spec) -> int:
    return len(spec[0]) - 1 if isinstance(spec[0], tuple) else 1


# ---------------------------------------------------------------------------------- K2

REAL_K2 = (
    'exactly_lib.impls.types.string_source.cached_frozen.StringSourceWithCachedFrozen',
    'exactly_lib.impls.types.string_source.cached_frozen._FreezingStringSourceContents',
    'exactly_lib.impls.types.string_source.cached_frozen._ContentsWriter',
    'exactly_lib.impls.types.string_source.contents.frozen.frozen__from_write',
    'exactly_lib.impls.types.string_source.contents.frozen._contents_of_file__if_fits_within_mem_buff',
    'exactly_lib.impls.types.string_source.contents.frozen._size_of_file_on_disk',
    'exactly_lib.impls.types.string_source.contents.frozen._StringSourceContentsOfConstStrAndExistingPath',
    'exactly_lib.util.file_utils.spooled_file.SpooledTextFile',
    'exactly_lib.impls.types.string_source.contents.contents_of_str.ContentsOfStr',
    'exactly_lib.impls.types.string_source.contents.contents_of_existing_path.StringSourceContentsOfExistingPath',
    'exactly_lib.impls.types.string_source.contents.contents_via_write_to.ContentsViaWriteTo',
    'exactly_lib.impls.types.string_source.contents.contents_with_cached_path.StringSourceContentsWithCachedPath',
    'exactly_lib.impls.types.string_source.contents.contents_with_cached_path.ContentsWithCachedPathFromWriteToBase',
    'exactly_lib.impls.types.string_source.contents.contents_with_cached_path.ContentsWithCachedPathFromAsLinesBase',
    'exactly_lib.type_val_prims.string_source.impls.concat.string_source',
    'exactly_lib.type_val_prims.string_source.impls.concat._ConcatStringSourceContents',
    'exactly_lib.type_val_prims.string_source.impls.transformed_string_sources.TransformedStringSourceFromLines',
    'exactly_lib.type_val_prims.string_source.impls.transformed_string_sources._TransformedStringSourceContentsFromLines',
    'exactly_lib.impls.types.string_transformer.impl.sources.transformed_string_sources.transformed_string_source_from_writer',
    'exactly_lib.impls.types.string_transformer.impl.sources.transformed_string_sources._WriterOfTransformed',
    'exactly_lib.impls.types.string_transformer.impl.sources.transformed_string_sources.StringTransformerFromLinesTransformer',
    'exactly_lib.impls.types.string_transformer.impl.filter.string_sources.TransformedContentsViaAsLinesBase',
    'exactly_lib.impls.types.string_transformer.impl.filter.line_matcher._FilterByLineMatcher',
    'exactly_lib.impls.types.string_transformer.impl.filter.line_matcher._ContentsViaAsLines',
    'exactly_lib.impls.types.string_transformer.impl.identity.IdentityStringTransformer',
    'exactly_lib.impls.types.string_transformer.impl.sequence.SequenceStringTransformer',
    'exactly_lib.impls.types.string_source.constant_str.string_source',
    'exactly_lib.impls.types.string_source.file_source.StringSourceOfFile',
    'exactly_lib.impls.types.string_source.source_from_contents.StringSourceWConstantContents',
    'exactly_lib.util.file_utils.misc_utils.open_and_make_read_only_on_close__text',
)

STUB_FILE = ('text file (pathlib.Path.open in text mode, default arguments, POSIX, UTF-8) -> harness/_C14_fakefs.FakeTextFile: '
             'bytes; write at byte position; read decodes + universal-newline translation; seek(n,0) = byte n')
STUB_STRINGIO = 'spooled_file._io.StringIO(newline="\\n") -> harness/_C14_fakefs.PyStringIO (character buffer, tell = character index)'
STUB_FSTAT = 'frozen.os.fstat(fileno).st_size -> number of bytes of the fake file'
STUB_TFS = 'DirFileSpace.new_path -> counter-named path in the fake file system'
STUB_FILECMP = 'equality.filecmp.cmp(a, b, shallow=False) -> byte equality of the two fake files'
STUB_FD = ('child process writing to the descriptor obtained by fileno() (layer "fdwriter") -> the bytes are appended to the '
           'fake file behind the descriptor at its current offset')
STUBS_FS = (STUB_FILE, STUB_STRINGIO, STUB_FSTAT, STUB_TFS)

# accesses
A_STR, A_LINES, A_WRITE, A_FILE, A_FREEZE = 'A', 'L', 'W', 'F', 'Z'
ACCESSES = 'ALWFZ'


def _access(src, acc: str, fd_sink=None):
    """Performs one access on the source; returns what it delivered: (whole text or None, lines or None).
    fd_sink: a DirFileSpace if write_to must be given a file that has a descriptor."""
    if acc == A_FREEZE:
        src.freeze()
        return None, None
    contents = src.contents()
    if acc == A_STR:
        return contents.as_str, None
    if acc == A_LINES:
        with contents.as_lines as it:
            return None, list(it)
    if acc == A_WRITE:
        if fd_sink is not None:
            path = fd_sink.new_path('sink')
            with path.open('x') as sink:
                contents.write_to(sink)
            return ffs.file_bytes_as_text(path), None
        sink = ffs.PyStringIO()
        contents.write_to(sink)
        return sink.getvalue(), None
    if acc == A_FILE:
        path = contents.as_file
        with path.open() as f:
            whole = f.read()
        with path.open() as f:
            return whole, list(f)
    raise ValueError(acc)


def _observe(src, acc: str, text: str, lines: List[str], fd_sink=None) -> bool:
    """Performs one access on the source and compares what it delivers with the denoted text."""
    whole, got_lines = _access(src, acc, fd_sink)
    if whole is not None and not (whole == text):
        return False
    if got_lines is not None and not (got_lines == lines):
        return False
    return True


def _split_after(text: str, seps: str) -> List[str]:
    out = []
    cur = ''
    for ch in text:
        cur += ch
        if ch in seps:
            out.append(cur)
            cur = ''
    if cur:
        out.append(cur)
    return out


def _k2_texts_ok(c, parts) -> bool:
    n = n_parts(c['spec'])
    total = 0
    for i, p in enumerate(parts):
        if i >= n:
            if len(p) != 0:
                return False
        else:
            total += len(p)
    if total > c['maxlen']:
        return False
    for i in range(n):
        if not in_alphabet(parts[i], c['alphabet']):
            return False
    return True


def root_kinds(spec):
    return tuple(spec[0][1:]) if isinstance(spec[0], tuple) else (spec[0],)


def holds_str(spec) -> bool:
    """Can the text of this source be held as a str (a str root, or a cache that may keep it in memory)?"""
    return 'str' in root_kinds(spec) or spec_has_cache(spec)


def in_known_region(spec, parts, m: int) -> bool:
    """Is the text of a source inside a known-finding region that is switched on?

    c14-cr                 a part that is a str literal contains CR (the str keeps it, a file made from it does not)
    c14-splitlines         the text contains a str.splitlines-only line break and may be held as a str
    c14-rollover-nonascii  the text contains a non-ASCII character, the source has a cache (SpooledTextFile) and
                           the text is longer than the memory buffer (otherwise nothing ever rolls over with
                           buffered characters)
    """
    kinds = root_kinds(spec)
    if ob.excluded(R_CR):
        for i in range(len(kinds)):
            if kinds[i] in ('str', 'prog', 'prog-i') and has_cr(parts[i]):
                # (program output: its file keeps the CR bytes, reading it as text does not)
                return True
    if ob.excluded(R_SPLITLINES) and holds_str(spec):
        for i in range(len(kinds)):
            if has_split_noncr(parts[i]):
                return True
    if ob.excluded(R_FLUSH_IGNORE):
        before = 0
        for i in range(len(kinds)):
            if kinds[i] == 'prog-i' and before > 0:
                return True
            before += len(parts[i])
    if ob.excluded(R_ROLLOVER) and spec_has_cache(spec):
        total = 0
        for i in range(len(kinds)):
            total += len(parts[i])
        if m < total:
            for i in range(len(kinds)):
                if has_nonascii(parts[i]):
                    return True
    return False


def _pre_k2(s: str, t: str, u: str, m: int, a0: int, a1: int, a2: int) -> bool:
    c = ob.case()
    if m < 1:
        return False
    if not _k2_texts_ok(c, (s, t, u)):
        return False
    nsym = c.get('nsym', 0)
    sel = (a0, a1, a2)
    for i in range(3):
        if i < nsym:
            if not (0 <= sel[i] < len(ACCESSES)):
                return False
        elif sel[i] != 0:
            return False
    return not in_known_region(c['spec'], (s, t, u), m)


def k2_access(s: str, t: str, u: str, m: int, a0: int, a1: int, a2: int) -> bool:
    """
    pre: _pre_k2(s, t, u, m, a0, a1, a2)
    post: _
    """
    c = ob.case()
    fs = ffs.FakeFs()
    tfs = ffs.FakeDirFileSpace(fs)
    ffs.install(fs)
    src, text = build_source(c['spec'], fs, tfs, (s, t, u), m)
    lines = ref_lines(text)
    if c.get('oracle_bug') == 'prog-first':
        # seeded oracle error: "the output of the program comes first" (the order the unflushed buffer produced)
        kinds = root_kinds(c['spec'])
        all_parts = (s, t, u)
        text = ''.join(all_parts[i] for i in range(len(kinds)) if kinds[i].startswith('prog')) + \
            ''.join(all_parts[i] for i in range(len(kinds)) if not kinds[i].startswith('prog'))
        lines = ref_lines(text)
    if c.get('oracle_bug') == 'lines':
        # seeded oracle error: a reference line division that also divides after 'a'
        lines = [x for x in _split_after(text, 'a\n')]
    seq = list(c['seq'])
    sel = (a0, a1, a2)
    for i in range(c.get('nsym', 0)):
        seq.append(ACCESSES[int(sel[i])])
    ok = True
    fd_sink = tfs if spec_needs_fd(c['spec']) else None
    for acc in seq:
        if not _observe(src, acc, text, lines, fd_sink):
            ok = False
            break
    if c.get('oracle_bug') == 'in-memory':
        # seeded oracle error: "a frozen text is always held in memory"
        ok = ok and not src.contents().may_depend_on_external_resources
    return ob.post(ok)



# ---------------------------------------------------------------------------------- K3

REAL_K3 = (
    'exactly_lib.impls.types.string_matcher.impl.equality._EqualityStringMatcher',
    'exactly_lib.impls.types.string_matcher.impl.equality._ApplierWExtDepsCases',
    'exactly_lib.impls.types.string_matcher.impl.equality._ExtDepsOfBothHandler',
    'exactly_lib.impls.types.string_matcher.impl.equality._min_num_chars_to_read',
    'exactly_lib.type_val_prims.string_source.string_source.read_lines_as_str__w_minimum_num_chars',
    'exactly_lib.util.str_.read_lines.read_lines_as_str__w_minimum_num_chars',
) + REAL_K2


def _equals_matcher(expected_source):
    from exactly_lib.impls.types.string_matcher.impl import equality
    from exactly_lib.type_val_deps.dep_variants.ddv import ddv_validators
    from exactly_lib.type_val_deps.dep_variants.ddv.ddv_validation import ConstantDdvValidator
    return equality._EqualityStringMatcher(
        expected_source,
        ddv_validators.FixedPreOrPostSdsValidator(None, ConstantDdvValidator.new_success()))


def _pre_k3(e: str, a: str, m: int) -> bool:
    c = ob.case()
    if m < 1:
        return False
    if len(e) > c['maxlen'] or len(a) > c['maxlen']:
        return False
    if 'maxtotal' in c and len(e) + len(a) > c['maxtotal']:
        return False
    if not in_alphabet(e, c['alphabet']) or not in_alphabet(a, c['alphabet']):
        return False
    if in_known_region(c['espec'], (e,), m) or in_known_region(c['aspec'], (a,), m):
        return False
    if ob.excluded(R_CR):
        # c14-cr, second half: two texts that both exist as files are compared by their BYTES
        if 'file' in root_kinds(c['espec']) and has_cr(e) and may_be_on_disk(c['aspec']):
            return False
        if 'file' in root_kinds(c['aspec']) and has_cr(a) and may_be_on_disk(c['espec']):
            return False
    return True


def may_be_on_disk(spec) -> bool:
    return 'file' in root_kinds(spec) or spec_has_cache(spec)


def k3_equals(e: str, a: str, m: int) -> bool:
    """
    pre: _pre_k3(e, a, m)
    post: _
    """
    c = ob.case()
    fs = ffs.FakeFs()
    tfs = ffs.FakeDirFileSpace(fs)
    ffs.install(fs)
    expected, text_e = build_source(c['espec'], fs, tfs, (e,), m, 'e-')
    actual, text_a = build_source(c['aspec'], fs, tfs, (a,), m, 'a-')
    for acc in c.get('apre', ''):
        # what happened to the model before the matcher sees it (e.g. frozen by `&&`)
        if not _observe(actual, acc, text_a, ref_lines(text_a)):
            return ob.post(False)
    matcher = _equals_matcher(expected)
    want = text_e == text_a
    if c.get('oracle_bug'):
        # seeded oracle error: "texts that differ only in a final new-line are equal"
        want = text_e.rstrip('\n') == text_a.rstrip('\n')
    first = matcher.matches_w_trace(actual).value
    second = matcher.matches_w_trace(actual).value
    return ob.post(first == want and second == want)


# ---------------------------------------------------------------------------------- K4

REAL_K4 = (
    'exactly_lib.impls.types.string_matcher.parse_string_matcher.parsers',
    'exactly_lib.impls.types.string_matcher.parse_string_matcher._model_freezer',
    'exactly_lib.impls.types.string_matcher.parse_string_matcher._parse_on_transformed',
    'exactly_lib.impls.types.string_matcher.impl.on_transformed.StringMatcherWithTransformation',
    'exactly_lib.impls.types.string_matcher.impl.emptiness.EmptinessStringMatcher',
    'exactly_lib.impls.types.string_matcher.impl.num_lines._PropertyGetter',
    'exactly_lib.impls.types.matcher.impls.combinator_matchers.Conjunction',
    'exactly_lib.impls.types.matcher.impls.combinator_matchers.Disjunction',
    'exactly_lib.impls.types.matcher.impls.combinator_sdvs.Conjunction',
    'exactly_lib.impls.types.string_source.ddvs.ConstantStringStringSourceDdv',
    'exactly_lib.impls.types.string_source.parse.string_source_parser',
) + REAL_K3

STUB_INT = 'python_evaluate -> placeholder table (the integer literal K0 denotes the symbolic integer k)'

K4_MATCHERS = {
    'is-empty': 'is-empty',
    'num-lines': 'num-lines == K0',
    'equals': 'equals @[E]@',
}

K4_WRAPPERS = {
    'plain': '%s',
    'and': '( %s && %s )',
    'or': '( %s || %s )',
    'identity': '-transformed-by identity %s',
    'identity-and': '-transformed-by identity ( %s && %s )',
    'and-identity': '( -transformed-by identity %s && %s )',
    'identity-seq': '-transformed-by ( identity | identity ) %s',
}


def _string_matcher(text: str, tfs, m: int, e: str):
    from vsym import xly
    from exactly_lib.impls.types.string_matcher import parse_string_matcher
    from exactly_lib.symbol.sdv_structure import SymbolContainer
    from exactly_lib.symbol.value_type import ValueType
    from exactly_lib.type_val_deps.types.string_ import string_sdvs
    from exactly_lib.util.symbol_table import SymbolTable
    sdv = xly.parse_cached('string-matcher', parse_string_matcher.parsers(False).full, text)
    symbols = SymbolTable({'E': SymbolContainer(string_sdvs.str_constant(e), ValueType.STRING, None)})
    return sdv.resolve(symbols).value_of_any_dependency(None).primitive(_app_env(tfs, m))


def _pre_k4(s: str, e: str, k: int, m: int) -> bool:
    c = ob.case()
    if m < 1:
        return False
    if len(s) > c['maxlen']:
        return False
    if c['matcher'] == 'equals':
        if len(e) > c['maxlen']:
            return False
    elif len(e) != 0:
        return False
    if c['matcher'] != 'num-lines' and k != 0:
        return False
    if not in_alphabet(s, c['alphabet']) or not in_alphabet(e, c['alphabet']):
        return False
    if in_known_region(c['spec'], (s,) * n_parts(c['spec']), m) or in_known_region(('str',), (e,), m):
        return False
    return True


def k4_wrappers(s: str, e: str, k: int, m: int) -> bool:
    """
    pre: _pre_k4(s, e, k, m)
    post: _
    """
    from vsym import xly
    c = ob.case()
    fs = ffs.FakeFs()
    tfs = ffs.FakeDirFileSpace(fs)
    ffs.install(fs)
    xly.install_int_placeholders([k])
    base = K4_MATCHERS[c['matcher']]
    ok = True
    n = 0
    for w in c['wrappers']:
        text_w = K4_WRAPPERS[w]
        text_w = text_w % ((base,) * text_w.count('%s'))
        n += 1
        model, text = build_source(c['spec'], fs, tfs, (s,) * n_parts(c['spec']), m, 'm%d-' % n)
        if c['matcher'] == 'is-empty':
            want = text == ''
        elif c['matcher'] == 'num-lines':
            want = len(ref_lines(text)) == k
        else:
            want = text == e
        if c.get('oracle_bug') and w != 'plain':
            # seeded oracle error: "a wrapped matcher sees one line less"
            want = (len(ref_lines(text)) - 1 == k) if c['matcher'] == 'num-lines' else not want
        matcher = _string_matcher(text_w, tfs, m, e)
        got = matcher.matches_w_trace(model).value
        if got != want:
            ok = False
            break
    return ob.post(ok)


# ---------------------------------------------------------------------------------- K6
# Transformers whose output lines are NOT in 1-1 correspondence with the lines of their model: `replace` whose
# replacement string inserts new-lines (0, 1, 2, ... of them, with or without other characters before / between /
# after) into the first / a middle / the last line, `replace` that deletes or doubles the new-lines themselves,
# with / without -preserve-new-lines; alone, under a cache, and followed by consumers whose result depends on the
# division into lines (`filter line-num == 2`, `strip -trailing-new-lines`, `filter constant true`, `num-lines`).
# Oracle = the property's: every access route delivers the denoted text, and as_lines delivers exactly the lines
# of that text (its maximal segments ending in new-line), before and after freezing, for every buffer size.

REAL_K6 = (
    'exactly_lib.impls.types.string_transformer.impl.replace.impl._ReplaceStringTransformer',
    'exactly_lib.impls.types.string_transformer.impl.replace.impl._lines_iterator_from_replacements',
    'exactly_lib.impls.types.string_transformer.impl.replace.impl._ReplacerApplierWoLineMatcherSelector',
    'exactly_lib.impls.types.string_transformer.impl.replace.impl._StrReplacerIncludingNewLines',
    'exactly_lib.impls.types.string_transformer.impl.replace.impl._StrReplacerExcludingNewLines',
    'exactly_lib.impls.types.string_transformer.impl.replace.setup.ParserOfReplace',
    'exactly_lib.impls.types.string_transformer.impl.strip_space._strip_trailing_new_lines',
    'exactly_lib.impls.types.string_matcher.impl.num_lines._PropertyGetter',
) + REAL_K2

STUB_RE = ('none for the regular expression: re.Pattern.sub runs on the symbolic line through CrossHair\'s model of `re` '
           '(concrete pattern; the replacement string is symbolic and made concrete, one path per value, before it is used)')


def _concrete_str(r: str, alphabet: str) -> str:
    """r as a concrete str (the comparisons fork the path per character; cf. ob.concrete_int)."""
    out = ''
    for ch in r:
        for a in alphabet:
            if ch == a:
                out = out + a
                break
        else:
            raise ValueError('not in alphabet')
    return out


def _pre_k6(s: str, r: str, m: int, k: int) -> bool:
    c = ob.case()
    if m < 1:
        return False
    if 'mmax' in c and m > c['mmax']:
        return False
    if len(s) > c['maxlen'] or not in_alphabet(s, ALPHA_K6):
        return False
    if len(r) > c['rmaxlen'] or not in_alphabet(r, ALPHA_REPL):
        return False
    if not (c.get('wrappers') and not c.get('native')) and k != 0:
        return False
    return True


def k6_spec(c, root, before, after, repl: str):
    return (root,) + tuple(before) + (replace_layer(c['pat'], c['preserve'], repl, c.get('at')),) + tuple(after)


def _k6_accesses(spec, seq, s: str, m: int, oracle_bug) -> bool:
    """Every access of the sequence delivers the denoted text / exactly the lines of the denoted text."""
    fs = ffs.FakeFs()
    tfs = ffs.FakeDirFileSpace(fs)
    ffs.install(fs)
    src, text = build_source(spec, fs, tfs, (s,), m)
    lines = ref_lines(text)
    if oracle_bug:
        # seeded oracle error: "a transformed text has one line per line of its model"
        lines = lines[:len(ref_lines(s))]
    for acc in seq:
        if not _observe(src, acc, text, lines, None):
            return False
    return True


def _k6_num_lines(spec, wrappers, s: str, m: int, k) -> bool:
    """`num-lines == K0` (plain and wrapped; each on a fresh source) holds iff the denoted text has K0 lines."""
    from vsym import xly
    fs = ffs.FakeFs()
    tfs = ffs.FakeDirFileSpace(fs)
    ffs.install(fs)
    xly.install_int_placeholders([k])
    n = 0
    for w in wrappers:
        text_w = K4_WRAPPERS[w]
        text_w = text_w % ((K4_MATCHERS['num-lines'],) * text_w.count('%s'))
        n += 1
        model, text = build_source(spec, fs, tfs, (s,), m, 'm%d-' % n)
        want = len(ref_lines(text)) == k
        got = _string_matcher(text_w, tfs, m, '').matches_w_trace(model).value
        if got != want:
            return False
    return True


def _k6_all(c, s: str, r: str, m: int, k) -> bool:
    """k is None: every K0 from 0 to (number of lines of the text) + 1 is tried."""
    for root in c['roots']:
        for before in c['befores']:
            for after in c['afters']:
                spec = k6_spec(c, root, before, after, r)
                for seq in c['seqs']:
                    if not _k6_accesses(spec, seq, s, m, c.get('oracle_bug')):
                        return False
                if c.get('wrappers'):
                    if k is None:
                        # (s and r are concrete here)
                        text = s
                        for layer in spec[1:]:
                            text = denoted_by_layer(layer, text)
                        ks = range(0, len(ref_lines(text)) + 2)
                    else:
                        ks = (k,)
                    for k_i in ks:
                        if not _k6_num_lines(spec, c['wrappers'], s, m, k_i):
                            return False
    return True


def k6_reshape(s: str, r: str, m: int, k: int) -> bool:
    """
    pre: _pre_k6(s, r, m, k)
    post: _
    """
    c = ob.case()
    # the replacement string reaches the template of re.Pattern.sub: concrete there
    r = _concrete_str(r, ALPHA_REPL)
    if c.get('native'):
        # text, replacement string and buffer size made concrete (one path per value: the solver's path tree
        # enumerates them), then the real classes run natively on every source / access sequence of the case
        s = _concrete_str(s, ALPHA_K6)
        m = ob.concrete_int(m, 1, c['mmax'])
        with _C14_chfix.no_tracing():
            ok = _k6_all(c, s, r, m, None)
        return ob.post(ok)
    return ob.post(_k6_all(c, s, r, m, k))


# ---------------------------------------------------------------------------------- K7
# Line-oriented transformers on DEGENERATE texts, observed through every access route.  A transformer that works on
# the sequence of lines of its model has corner cases exactly where that sequence degenerates: the empty text (no
# line at all), a text of white space only (every line is "empty" to `strip`), a single unterminated line, a text
# that ends in several new-lines, a text from which the transformer removes everything.  What as_lines delivers
# there must still be THE lines of the text the other routes deliver: no element is empty, every element but the
# last ends in new-line, joined they are as_str = the contents of as_file = what write_to writes -- before and after
# freezing, under a cache or not, for every buffer size; and `num-lines == K` says the same plain and in `&&`.
# Transformers: every variant of `strip`, `char-case`, `filter` by line number / by contents (`grep`) / -line-nums
# (incl. from the end), `replace` that deletes or produces white space -- alone and every ordered PAIR of them.

ALPHA_K7 = ' \t\na'

K7_STRIPS = ('strip', 'strip-ts', 'strip-nl')
K7_CASE = ('upper', 'lower')
K7_FILTERS = ('grep-a', 'grep-blank', 'not-grep-a', 'line1', 'line2', 'all', 'none')
K7_NUMS = tuple(nums_layer(r) for r in ('1', '-1', '-2', '2:', ':-2', '-2:', '2:-2', '1 -1'))
K7_REPLACES = (replace_layer(' ', False, ''), replace_layer('a', False, ''), replace_layer('\n', False, ''),
               replace_layer('a', False, ' '), replace_layer(' ', True, '\n'))
K7_LAYERS = K7_STRIPS + K7_CASE + K7_FILTERS + K7_NUMS + K7_REPLACES

REAL_K7 = (
    'exactly_lib.impls.types.string_transformer.impl.strip_space.Parser',
    'exactly_lib.impls.types.string_transformer.impl.strip_space._StripWhiteSpaceTransformer',
    'exactly_lib.impls.types.string_transformer.impl.strip_space._strip_space',
    'exactly_lib.impls.types.string_transformer.impl.strip_space._strip_trailing_space',
    'exactly_lib.impls.types.string_transformer.impl.strip_space._strip_trailing_new_lines',
    'exactly_lib.impls.types.string_transformer.impl.case_converters._CaseConverter',
    'exactly_lib.impls.types.string_transformer.impl.filter.parse.Parser',
    'exactly_lib.impls.types.string_transformer.impl.filter.parse.GrepShortcutParser',
    'exactly_lib.impls.types.string_transformer.impl.filter.line_nums.transformers.SingleLineRangeTransformer',
    'exactly_lib.impls.types.string_transformer.impl.filter.line_nums.sources.segments_source',
    'exactly_lib.impls.types.line_matcher.model_construction.original_and_model_iter_from_file_line_iter__interval',
) + REAL_K6


def _pre_k7(s: str, m: int, k: int) -> bool:
    c = ob.case()
    if m < 1:
        return False
    if 'mmax' in c and m > c['mmax']:
        return False
    if len(s) > c['maxlen'] or not in_alphabet(s, c['alphabet']):
        return False
    if not (c.get('wrappers') and not c.get('native')) and k != 0:
        return False
    return True


def _k7_accesses(spec, seq, s: str, m: int, oracle_bug) -> bool:
    """Every access of the sequence delivers the denoted text / exactly the lines of the denoted text; and what
    as_lines / iterating as_file delivers is a well-formed division into lines (the property's own statement: no
    empty element, only the last element may lack the new-line)."""
    fs = ffs.FakeFs()
    tfs = ffs.FakeDirFileSpace(fs)
    ffs.install(fs)
    src, text = build_source(spec, fs, tfs, (s,), m)
    lines = ref_lines(text)
    if oracle_bug:
        # seeded oracle error: "every text has at least one line (the empty text has one empty line)"
        lines = lines if lines else ['']
    for acc in seq:
        whole, got_lines = _access(src, acc, None)
        if whole is not None and not (whole == text):
            return False
        if got_lines is not None:
            if not (got_lines == lines):
                return False
            if not oracle_bug and not _well_formed_lines(got_lines):
                return False
    return True


def _well_formed_lines(lines) -> bool:
    n = len(lines)
    for i in range(n):
        line = lines[i]
        if len(line) == 0:
            return False
        if i < n - 1 and line[-1] != '\n':
            return False
        if '\n' in line[:-1]:
            return False
    return True


def k7_chains(c):
    """the chains of transformers of a case: every layer of `firsts` alone (if `seconds` has the empty chain ()) and
    followed by every layer of `seconds`"""
    out = []
    for first in c['firsts']:
        for second in c['seconds']:
            out.append((first,) if second == () else (first, second))
    return out


def _k7_all(c, s: str, m: int, k) -> bool:
    """k is None: every K0 from 0 to (number of lines of the text) + 1 is tried."""
    for root in c['roots']:
        for chain in k7_chains(c):
            spec = tuple(root) + tuple(chain)
            for seq in c['seqs']:
                if not _k7_accesses(spec, seq, s, m, c.get('oracle_bug')):
                    return False
            if c.get('wrappers'):
                if k is None:
                    text = s
                    for layer in spec[1:]:
                        text = denoted_by_layer(layer, text)
                    ks = range(0, len(ref_lines(text)) + 2)
                else:
                    ks = (k,)
                for k_i in ks:
                    if not _k6_num_lines(spec, c['wrappers'], s, m, k_i):
                        return False
    return True


def k7_degenerate(s: str, m: int, k: int) -> bool:
    """
    pre: _pre_k7(s, m, k)
    post: _
    """
    c = ob.case()
    if c.get('native'):
        # text and buffer size made concrete (one path per value: the solver's path tree enumerates them), then the
        # real classes run natively on every source / chain / access sequence of the case
        s = _concrete_str(s, c['alphabet'])
        m = ob.concrete_int(m, 1, c['mmax'])
        with _C14_chfix.no_tracing():
            ok = _k7_all(c, s, m, None)
        return ob.post(ok)
    return ob.post(_k7_all(c, s, m, k))


# ---------------------------------------------------------------------------------- long concrete texts
# Length thresholds that are CONSTANTS of the code (the 2**16 BUFFER_SIZE of contents_of_existing_path, the
# default memory buffer io.DEFAULT_BUFFER_SIZE = 8192, the 100 + 1 extra characters `equals` reads of a
# file-backed operand) are out of reach of short symbolic texts.  Here only SELECTORS into catalogues are
# symbolic; once they are concrete the REAL classes run natively (tracing suspended) on REAL temporary files
# with the REAL io / os / filecmp -- no stand-in is involved.

REAL_LONG = REAL_K3


def long_text(length: int, shape: int) -> str:
    """A text of exactly `length` characters whose content depends on the position.
    shape 0: many short lines, ends with new-line; 1: many short lines, no final new-line;
          2: one long line ending with new-line; 3: one long line without new-line."""
    if length <= 0:
        return ''
    if shape in (0, 1):
        n = length // 10 + 2
        body = ''.join('%09d\n' % i for i in range(n))[:length]
        if shape == 0:
            return body[:-1] + '\n'
        return body[:-1] + ('x' if body[-1] == '\n' else body[-1])
    body = ''.join('%09d.' % i for i in range(length // 10 + 2))[:length]
    if shape == 2:
        return body[:-1] + '\n'
    return body


K2L_CONFIGS = [  # (source, memory buffer size)
    (('file',), 8192),
    (('file', 'identity'), 8192),
    (('str', 'filter'), 8192),
    (('file', 'writer'), 8192),
    (('str', 'fdwriter'), 8192),
    (('file', 'filter'), 2 ** 20),
    ((('concat', 'str', 'file'),), 8192),
]
K2L_LENGTHS = [8191, 8192, 8193, 2 ** 16 - 1, 2 ** 16, 2 ** 16 + 1, 70000]
K2L_SEQS = ['ALWFLAWZLAWF', 'ZALWFLAW']  # = SEQ_UNFROZEN_THEN_FROZEN, SEQ_FROZEN_FIRST


def _pre_k2_long(cfg: int, li: int, shape: int) -> bool:
    return 0 <= cfg < len(K2L_CONFIGS) and 0 <= li < len(K2L_LENGTHS) and 0 <= shape < 4


def k2_long(cfg: int, li: int, shape: int) -> bool:
    """
    pre: _pre_k2_long(cfg, li, shape)
    post: _
    """
    spec, m = ob.pick(K2L_CONFIGS, cfg)
    length = ob.pick(K2L_LENGTHS, li)
    shape = ob.concrete_int(shape, 0, 3)
    bug = bool(ob.case().get('oracle_bug'))
    with _C14_chfix.no_tracing():
        ok = _k2_long_concrete(spec, m, length, shape, bug)
    return ob.post(ok)


def _k2_long_concrete(spec, m: int, length: int, shape: int, bug: bool) -> bool:
    from vsym import scratch
    text = long_text(length, shape)
    n = n_parts(spec)
    cut = (length * 2) // 3
    parts = (text, '', '') if n == 1 else (text[:cut], text[cut:], '')
    want_text = text[:2 ** 16] if bug else text  # seeded oracle error: "a text is at most 2**16 characters"
    want = (want_text, ref_lines(want_text))
    for seq in K2L_SEQS:
        d = scratch.new_dir('c14long')
        try:
            got = _scenario(spec, seq, parts, m, d)
        finally:
            scratch.remove(d)
        if len(got) != len(seq):
            return False
        for acc, delivered in zip(seq, got):
            if acc == A_FREEZE:
                continue
            whole, lines = delivered
            if whole is not None and whole != want[0]:
                return False
            if lines is not None and lines != want[1]:
                return False
    return True


K3L_KINDS_E = [('str',), ('file',), ('str', 'writer'), ('file', 'filter')]
K3L_KINDS_A = [(('str',), ''), (('file',), ''), (('str', 'writer'), ''), (('str', 'writer'), 'Z'),
               (('file', 'filter'), 'ZL')]
K3L_LENGTHS = [99, 100, 101, 102, 150]
K3L_MS = [1, 8192]


def k3l_variants(base: str) -> List[str]:
    """the other operand: the text itself / extended by a line / by an empty line / proper prefixes"""
    out = [base, base + 'x\n', base + '\n', base[:-1]]
    i = base.rfind('\n', 0, len(base) - 1)
    if i > 0:
        out.append(base[:i + 1])  # cut at a line boundary
    return out


def _pre_k3_long(ek: int, ak: int, li: int, mi: int) -> bool:
    return 0 <= ek < len(K3L_KINDS_E) and 0 <= ak < len(K3L_KINDS_A) and 0 <= li < len(K3L_LENGTHS) \
        and 0 <= mi < len(K3L_MS)


def k3_long(ek: int, ak: int, li: int, mi: int) -> bool:
    """
    pre: _pre_k3_long(ek, ak, li, mi)
    post: _
    """
    espec = ob.pick(K3L_KINDS_E, ek)
    aspec, apre = ob.pick(K3L_KINDS_A, ak)
    length = ob.pick(K3L_LENGTHS, li)
    m = ob.pick(K3L_MS, mi)
    bug = bool(ob.case().get('oracle_bug'))
    with _C14_chfix.no_tracing():
        ok = _k3_long_concrete(espec, aspec, apre, length, m, bug)
    return ob.post(ok)


def _k3_long_concrete(espec, aspec, apre: str, length: int, m: int, bug: bool) -> bool:
    from vsym import scratch
    for shape in (0, 1):  # ends with / without new-line
        base = long_text(length, shape)
        for other in k3l_variants(base):
            for e, a in ((base, other), (other, base)):
                want = e == a
                if bug and (a.startswith(e) and e.endswith('\n')):
                    want = True  # seeded oracle error: "a text extended by whole lines is equal"
                d = scratch.new_dir('c14long')
                try:
                    got = _equals_scenario(espec, aspec, apre, e, a, m, d)
                finally:
                    scratch.remove(d)
                if got != [want, want]:
                    return False
    return True


# ---------------------------------------------------------------------------------- obligations

def _spec_name(spec) -> str:
    root = spec[0]
    r = '+'.join(root[1:]) if isinstance(root, tuple) else root
    return '|'.join((r,) + tuple(_layer_name(layer) for layer in spec[1:]))


def _layer_name(layer) -> str:
    if isinstance(layer, tuple):
        return 'replace%s%s(%s->%s)' % ('@%d' % layer[4] if layer[4] is not None else '', '-p' if layer[2] else '',
                                        _vis(layer[1]), _vis(layer[3]))
    return layer


def _vis(s: str) -> str:
    return s.replace('\n', 'N').replace(' ', 'S')


def _alpha_name(alphabet: str) -> str:
    names = {'a': 'a', 'b': 'b', 'x': 'x', '\n': 'LF', '\r': 'CR', '\x0c': 'FF', 'é': 'e-acute', ' ': 'space',
             '\t': 'tab'}
    return '{' + ','.join(names[c] for c in alphabet) + '}'


ALPHA_PLAIN = 'a\n'


def _k2_ob(spec, seq, maxlen, alphabet, timeout, nsym=0, tag='', **extra) -> Ob:
    case = dict(spec=spec, seq=seq, maxlen=maxlen, alphabet=alphabet, nsym=nsym)
    case.update(extra)
    name = 'K2:%s:%s%s%s' % (_spec_name(spec), seq, ('+%d*' % nsym) if nsym else '', tag)
    return Ob(
        name=name, fn='k2_access', case=case, kernel='K2',
        bound='source %s; access sequence %s%s (A=as_str L=as_lines W=write_to F=as_file Z=freeze); '
              'every text of <= %d characters (in total) over %s; every memory buffer size m >= 1 (Z)' % (
                  _spec_name(spec), seq, (' followed by every sequence of %d accesses' % nsym) if nsym else '',
                  maxlen, _alpha_name(alphabet)),
        timeout=timeout, real=REAL_K2, stubs=STUBS_FS + ((STUB_FD,) if spec_needs_fd(spec) else ()),
        outside=('real files and real program output: the text-file stand-in\'s fidelity is an assumption, '
                 'self-tested against real temporary files on concrete strings',
                 'encodings other than UTF-8; Windows newline handling'),
        entry='string source built from the real classes (constant_str / file_source / parsed transformers / concat)',
    )


ALPHA_MAIN = 'a\n\ré'  # plain, LF, CR, a two-byte character
ALPHA_FF = 'a\n\x0c'  # plain, LF, FF (a str.splitlines-only line break)

SEQ_ROOT = 'ALWFZLAWF'  # sources for which freeze() is (nearly) a no-op
SEQ_UNFROZEN_THEN_FROZEN = 'ALWFLAWZLAWF'  # all accesses, as_file cached, then frozen, all accesses
SEQ_FROZEN_FIRST = 'ZALWFLAW'  # frozen before anything was generated

K2_ROOT_SPECS = [('str',), ('file',), ('str', 'identity'), ('file', 'identity')]
K2_CACHED_SPECS = [
    ('str', 'filter'), ('file', 'filter'), ('str', 'writer'), ('file', 'writer'),
    ('str', 'filter', 'filter2'), ('str', 'writer', 'filter'), ('str', 'seq'),
    ('str', 'fdwriter'),
]
K2_CACHED_SPECS_ONE_SEQ_IN_QUICK = [('file', 'filter'), ('str', 'writer'), ('str', 'filter', 'filter2'), ('str', 'seq')]
K2_CONCAT2_SPECS = [(('concat', 'str', 'str'),), (('concat', 'str', 'file'),)]
K2_THOROUGH_SPECS = [
    ('file', 'fdwriter'), ('str', 'fdwriter', 'filter'), (('concat', 'str', 'str'), 'fdwriter'),
    ('file', 'filter', 'identity'), ('file', 'writer', 'filter', 'filter2'), ('file', 'seq'),
    (('concat', 'file', 'str'),), (('concat', 'file', 'file'),),
    (('concat', 'str', 'str'), 'filter'), (('concat', 'str', 'file'), 'writer'),
]
K2_CONCAT3_SPECS = [(('concat', 'str', 'str', 'str'),), (('concat', 'str', 'file', 'str'),)]

K3_OUTSIDE = ('real files; filecmp is replaced by byte equality of the stand-in files',)


SEQ_PROG_FILE_FIRST = 'FWALZWFAL'  # as a file / written to a file while nothing is cached, then the rest, frozen, all again
SEQ_PROG_FROZEN_FIRST = 'ZWFAL'  # frozen before anything was generated

STUB_SUBPROCESS = ('process_executor.subprocess.call -> harness/_C14_fakefs._SubprocessStub: the only program is `printf %s TEXT`; '
                   'the child writes TEXT through the file DESCRIPTOR of its stdout (past the buffer of the file object), exit code 0')
REAL_K5 = (
    'exactly_lib.impls.types.string_source.command_output.string_source.string_source',
    'exactly_lib.impls.types.string_source.command_output.exit_relevant.StdoutWriter',
    'exactly_lib.impls.types.string_source.command_output.exit_ignored.StdoutWriter',
    'exactly_lib.impls.types.string_source.command_output.exit_ignored._WriterBase',
    'exactly_lib.impls.program_execution.processors.read_stderr_on_error.ProcessorThatReadsStderrOnNonZeroExitCode',
    'exactly_lib.impls.program_execution.impl.cmd_exe_from_proc_exe.CommandExecutorFromProcessExecutor',
    'exactly_lib.impls.program_execution.executable_factories.ExecutableFactoryBase',
    'exactly_lib.util.process_execution.process_executor.ProcessExecutor',
    'exactly_lib.util.process_execution.file_ctx_managers.opened_file',
    'exactly_lib.impls.types.string_source.as_stdin.of_sequence',
) + REAL_K2


def _k5_ob(spec, seq, maxlen, alphabet, timeout, nsym=0, tag='', **extra) -> Ob:
    o = _k2_ob(spec, seq, maxlen, alphabet, timeout, nsym=nsym, tag=tag, **extra)
    o.name = 'K5' + o.name[2:]
    o.kernel = 'K5'
    o.real = REAL_K5
    o.stubs = tuple(o.stubs) + (STUB_SUBPROCESS,)
    o.bound = o.bound + '; prog = output of the program `printf %s TEXT` (prog-i: with -ignore-exit-code)'
    o.entry = 'command_output.string_source(...) in concat.string_source([...])'
    return o


def _k3_ob(espec, aspec, apre, maxlen, alphabet, timeout, **extra) -> Ob:
    case = dict(espec=espec, aspec=aspec, apre=apre, maxlen=maxlen, alphabet=alphabet)
    case.update(extra)
    return Ob(
        name='K3:%s=%s%s' % (_spec_name(espec), _spec_name(aspec), (':' + apre) if apre else ''),
        fn='k3_equals', case=case, kernel='K3',
        bound='equals: expected %s, actual %s%s; every pair of texts of <= %d characters each over %s; '
              'every memory buffer size m >= 1; matcher applied twice' % (
                  _spec_name(espec), _spec_name(aspec), (' after accesses ' + apre) if apre else '',
                  maxlen, _alpha_name(alphabet)),
        timeout=timeout, real=REAL_K3, stubs=STUBS_FS + (STUB_FILECMP,), outside=K3_OUTSIDE,
        entry='_EqualityStringMatcher(expected).matches_w_trace(actual)')


def _k4_ob(matcher, spec, wrappers, maxlen, alphabet, timeout, tag='', **extra) -> Ob:
    case = dict(matcher=matcher, spec=spec, wrappers=tuple(wrappers), maxlen=maxlen, alphabet=alphabet)
    case.update(extra)
    model_name = _spec_name(spec) + (' (every part = the text)' if n_parts(spec) > 1 else '')
    return Ob(
        name='K4:%s:%s%s' % (matcher, _spec_name(spec), tag), fn='k4_wrappers', case=case, kernel='K4',
        bound='matcher `%s` written as %s, parsed by the real parser, on model %s: every text of <= %d characters '
              'over %s%s; every memory buffer size m >= 1' % (
                  K4_MATCHERS[matcher], ' / '.join('`%s`' % K4_WRAPPERS[w].replace('%s', 'M') for w in wrappers),
                  model_name, maxlen, _alpha_name(alphabet),
                  {'num-lines': ', every K0 in Z', 'equals': ', every expected text E of the same bound',
                   'is-empty': ''}[matcher]),
        timeout=timeout, real=REAL_K4,
        stubs=STUBS_FS + (STUB_FILECMP,) + ((STUB_INT,) if matcher == 'num-lines' else ()),
        entry='parse_string_matcher.parsers().full -> matches_w_trace(model)')


def _k6_ob(pat, preserve, roots, befores, afters, seqs, maxlen, rmaxlen, timeout, wrappers=(), mmax=None, tag='',
           **extra) -> Ob:
    """mmax given: the native variant (text, replacement string and buffer size <= mmax made concrete, one path per
    value, then native execution).  Otherwise everything stays symbolic (every buffer size >= 1, every K0)."""
    native = mmax is not None
    case = dict(pat=pat, preserve=preserve, roots=tuple(roots), befores=tuple(tuple(b) for b in befores),
                afters=tuple(tuple(a) for a in afters), seqs=tuple(seqs), maxlen=maxlen, rmaxlen=rmaxlen,
                wrappers=tuple(wrappers), native=native)
    if native:
        case['mmax'] = mmax
    case.update(extra)
    at = case.get('at')
    rep = 'replace%s%s(%s->R)' % ('@%d' % at if at is not None else '', '-p' if preserve else '', _vis(pat))

    def alts(xs):
        xs = ['|'.join(_layer_name(y) for y in x) if isinstance(x, tuple) else x for x in xs]
        xs = [x if x else '-' for x in xs]
        return xs[0] if len(xs) == 1 else '{' + ','.join(xs) + '}'

    chain = '%s|%s%s%s' % (alts(roots), (alts(befores) + '|') if tuple(befores) != ((),) else '', rep,
                           ('|' + alts(afters)) if tuple(afters) != ((),) else '')
    what = 'every access sequence in %s (A=as_str L=as_lines W=write_to F=as_file Z=freeze)' % (list(seqs),)
    if wrappers:
        what += '; matcher `%s` written as %s on a fresh source each, %s' % (
            K4_MATCHERS['num-lines'], ' / '.join('`%s`' % K4_WRAPPERS[w].replace('%s', 'M') for w in wrappers),
            'every K0 from 0 to the number of lines + 1' if native else 'every K0 in Z')
    return Ob(
        name='K6:%s%s' % (chain, tag), fn='k6_reshape', case=case, kernel='K6', selector=native,
        bound='%severy source %s where replace = `replace %s%s%s @[R]@` (real parser), R = every replacement string of <= %d '
              'characters over %s (any number of new-lines, anywhere); %s; every text of <= %d characters over %s; %s' % (
                  '[selector: text, replacement string and buffer size are made concrete one path per value, then the real '
                  'classes run natively] ' if native else '',
                  chain, ('-at line-num == %d ' % at) if at is not None else '',
                  '-preserve-new-lines ' if preserve else '', _quoted(pat), rmaxlen, _alpha_name(ALPHA_REPL), what,
                  maxlen, _alpha_name(ALPHA_K6),
                  ('every memory buffer size m in 1..%d' % mmax) if native else 'every memory buffer size m >= 1 (Z)'),
        timeout=timeout, real=REAL_K6,
        stubs=STUBS_FS + ((STUB_NATIVE,) if native else (STUB_RE,)) + ((STUB_INT, STUB_FILECMP) if wrappers else ()),
        outside=('regular expressions other than the literal patterns listed; replacement strings with group references '
                 'or escapes (the replacement is the value of a string symbol holding real new-line characters; the '
                 'self-test compares with the \\n-escape spelling)',
                 'real files: see K2'),
        entry='parse_string_transformer.parsers().full -> transform(model) -> contents().as_str / as_lines / write_to / as_file')


def _k7_ob(name, firsts, seconds, roots, seqs, maxlen, timeout, wrappers=(), mmax=None, alphabet=None, **extra) -> Ob:
    """mmax given: the native variant (text and buffer size <= mmax made concrete, one path per value, then native
    execution).  Otherwise everything stays symbolic (every buffer size >= 1, every K0)."""
    native = mmax is not None
    alphabet = ALPHA_K7 if alphabet is None else alphabet
    case = dict(firsts=tuple(firsts), seconds=tuple(seconds), roots=tuple(tuple(r) for r in roots), seqs=tuple(seqs),
                maxlen=maxlen, alphabet=alphabet, wrappers=tuple(wrappers), native=native)
    if native:
        case['mmax'] = mmax
    case.update(extra)

    def alts(xs):
        xs = [_layer_name(x) if x != () else '-' for x in xs]
        return xs[0] if len(xs) == 1 else '{' + ', '.join(xs) + '}'

    what = 'every access sequence in %s (A=as_str L=as_lines W=write_to F=as_file Z=freeze)' % (list(seqs),)
    if wrappers:
        what += '; matcher `%s` written as %s on a fresh source each, %s' % (
            K4_MATCHERS['num-lines'], ' / '.join('`%s`' % K4_WRAPPERS[w].replace('%s', 'M') for w in wrappers),
            'every K0 from 0 to the number of lines + 1' if native else 'every K0 in Z')
    return Ob(
        name='K7:' + name, fn='k7_degenerate', case=case, kernel='K7', selector=native,
        bound='%severy source ROOT|T1%s with ROOT in %s, T1 in %s%s (each parsed by the real parser; nums:R = `filter -line-nums R`, '
              'the others: %s); %s; every text of <= %d characters over %s (so: the empty text, every text of white space only, '
              'a single unterminated line, texts ending in several new-lines); %s; oracle: the documented denotation of the '
              'chain, and as_lines = the maximal new-line-terminated segments of it (no empty element)' % (
                  '[selector: text and buffer size are made concrete one path per value, then the real classes run natively] '
                  if native else '',
                  '' if tuple(seconds) == ((),) else '[|T2]', ['|'.join(r) for r in roots], alts(firsts),
                  '' if tuple(seconds) == ((),) else ', T2 in ' + alts(seconds),
                  '; '.join('%s = `%s`' % (k, LAYER_TEXT[k]) for k in K7_STRIPS + K7_CASE + K7_FILTERS), what, maxlen,
                  _alpha_name(alphabet),
                  ('every memory buffer size m in 1..%d' % mmax) if native else 'every memory buffer size m >= 1 (Z)'),
        timeout=timeout, real=REAL_K7,
        stubs=STUBS_FS + ((STUB_NATIVE,) if native else (STUB_RE,)) + ((STUB_INT, STUB_FILECMP) if wrappers else ()),
        outside=('white space other than space, tab and new-line (CR, FF, VT, the Unicode spaces); cased characters other '
                 'than a / A; regular expressions other than those listed; chains of more than two of the transformers',
                 'real files: see K2'),
        entry='parse_string_transformer.parsers().full -> transform(model) -> contents().as_str / as_lines / write_to / as_file')


STUB_NATIVE = ('tracing suspended (crosshair.tracers.NoTracing) once text, replacement string and buffer size are concrete: '
               'the real classes (and the real `re`) run natively on the stand-in file system')
ALPHA_K6 = 'ab\n'
ALPHA_REPL = 'x\n'


def obligations(tier: str) -> List[Ob]:
    obs = []
    thorough = tier == 'thorough'
    # ---- K1
    n1 = 8 if thorough else 5
    for impl in ('str', 'frozen'):
        obs.append(Ob(
            name='K1:lines:' + impl, fn='k1_lines', case=dict(impl=impl, maxlen=n1), kernel='K1',
            bound='every text of <= %d characters, unrestricted Unicode' % n1,
            timeout=900 if thorough else 120, real=REAL_K1, stubs=(STUB_TFS,),
            entry='ContentsOfStr / _StringSourceContentsOfConstStrAndExistingPath .as_lines'))
    obs.append(Ob(name='K1:seeded-oracle-error', fn='k1_lines', case=dict(impl='str', maxlen=2, oracle_bug=True),
                  kernel='K1', bound='seeded oracle error: lines without their line ending', timeout=120,
                  expect=ob.REFUTE, real=REAL_K1))

    # ---- K2
    n2 = 4 if thorough else 3
    t2 = 2400 if thorough else 300
    for spec in K2_ROOT_SPECS:
        obs.append(_k2_ob(spec, SEQ_ROOT, n2, ALPHA_MAIN, t2))
    for spec in K2_CACHED_SPECS:
        obs.append(_k2_ob(spec, SEQ_FROZEN_FIRST, n2, ALPHA_MAIN, t2))
        if thorough or spec not in K2_CACHED_SPECS_ONE_SEQ_IN_QUICK:
            obs.append(_k2_ob(spec, SEQ_UNFROZEN_THEN_FROZEN, n2, ALPHA_MAIN, t2))
    for spec in K2_CONCAT2_SPECS:
        # all characters on short texts; the line-joining logic of concat (sensitive to LF / not LF only) on longer ones
        obs.append(_k2_ob(spec, SEQ_UNFROZEN_THEN_FROZEN, 3 if thorough else 2, ALPHA_MAIN, 2400 if thorough else 300))
        obs.append(_k2_ob(spec, SEQ_FROZEN_FIRST, 3 if thorough else 2, ALPHA_MAIN, 2400 if thorough else 300))
        if thorough or spec == K2_CONCAT2_SPECS[0]:
            obs.append(_k2_ob(spec, SEQ_UNFROZEN_THEN_FROZEN, 4 if thorough else 3, ALPHA_PLAIN,
                              2400 if thorough else 300, tag=':plain'))
    # three parts: the pending-partial-line logic of concat between a middle part and the last one
    obs.append(_k2_ob(K2_CONCAT3_SPECS[0], 'LAW', 3, ALPHA_PLAIN, 400, tag=':plain'))
    # FF: a character at which only str.splitlines divides
    obs.append(_k2_ob(('str',), SEQ_FROZEN_FIRST, 3, ALPHA_FF, 300, tag=':FF'))
    obs.append(_k2_ob(('file', 'filter'), SEQ_FROZEN_FIRST, 3, ALPHA_FF, 300, tag=':FF'))
    obs.append(_k2_ob((('concat', 'str', 'str'),), SEQ_FROZEN_FIRST, 3 if thorough else 2, ALPHA_FF, 600, tag=':FF'))
    if thorough:
        for spec in K2_THOROUGH_SPECS:
            obs.append(_k2_ob(spec, SEQ_UNFROZEN_THEN_FROZEN, 3, ALPHA_MAIN, 2400))
            obs.append(_k2_ob(spec, SEQ_FROZEN_FIRST, 3, ALPHA_MAIN, 2400))
        for spec in K2_CONCAT3_SPECS:
            obs.append(_k2_ob(spec, SEQ_UNFROZEN_THEN_FROZEN, 2, ALPHA_MAIN, 2400))
            obs.append(_k2_ob(spec, SEQ_FROZEN_FIRST, 3, ALPHA_PLAIN, 2400, tag=':plain'))
        # every order of three accesses: a concrete first access followed by two symbolic selectors
        for spec in [('str', 'filter'), (('concat', 'str', 'str'),)]:
            for first in ACCESSES:
                obs.append(_k2_ob(spec, first, 2, ALPHA_PLAIN if isinstance(spec[0], tuple) else ALPHA_MAIN, 3000,
                                  nsym=2))
    obs.append(_k2_ob(('str', 'filter'), SEQ_FROZEN_FIRST, 3, ALPHA_PLAIN, 120, tag=':seeded-in-memory',
                      oracle_bug='in-memory'))
    obs[-1].expect = ob.REFUTE
    obs[-1].bound = 'seeded oracle error: "a frozen text is always held in memory" (must be refuted through m)'
    obs.append(_k2_ob(('str', 'writer'), SEQ_FROZEN_FIRST, 3, ALPHA_PLAIN, 120, tag=':seeded-lines',
                      oracle_bug='lines'))
    obs[-1].expect = ob.REFUTE
    obs[-1].bound = 'seeded oracle error: a reference line division that also divides after "a"'

    # ---- K5: the output of a program as a part of a concatenation (the child writes through the file DESCRIPTOR)
    k5_specs = [(('concat', 'str', 'prog'),), (('concat', 'str', 'prog', 'str'),), (('concat', 'prog', 'str'),)]
    k5_seqs = [SEQ_PROG_FILE_FIRST, SEQ_PROG_FROZEN_FIRST]
    for spec in k5_specs:
        for seq in k5_seqs:
            if thorough:
                obs.append(_k5_ob(spec, seq, 3, ALPHA_PLAIN if n_parts(spec) == 3 else ALPHA_MAIN, 3000))
            else:
                obs.append(_k5_ob(spec, seq, 2, ALPHA_PLAIN, 400))
    obs.append(_k5_ob(('prog',), SEQ_PROG_FILE_FIRST, 3 if thorough else 2, ALPHA_MAIN, 400))
    # the same with -ignore-exit-code (other writer classes: exit_ignored.*)
    obs.append(_k5_ob((('concat', 'str', 'prog-i'),), SEQ_PROG_FILE_FIRST, 3 if thorough else 2, ALPHA_PLAIN, 400))
    obs.append(_k5_ob((('concat', 'prog-i', 'str'),), SEQ_PROG_FILE_FIRST, 3 if thorough else 2, ALPHA_PLAIN, 400))
    if thorough:
        for spec in [(('concat', 'file', 'prog'),), (('concat', 'str', 'str', 'prog'),), (('concat', 'str', 'prog'), 'filter'),
                     ('prog', 'filter'), (('concat', 'str', 'prog-i', 'str'),)]:
            for seq in k5_seqs:
                obs.append(_k5_ob(spec, seq, 3, ALPHA_PLAIN, 2400))
        for first in ACCESSES:
            obs.append(_k5_ob((('concat', 'str', 'prog'),), first, 2, ALPHA_PLAIN, 3000, nsym=2))
    obs.append(_k5_ob((('concat', 'str', 'prog'),), 'FA', 2, ALPHA_PLAIN, 120, tag=':seeded-prog-first',
                      oracle_bug='prog-first'))
    obs[-1].expect = ob.REFUTE
    obs[-1].bound = 'seeded oracle error: "the output of the program comes first"'

    # ---- K6: transformers that change the number of new-lines of a line
    n6 = 4 if thorough else 3
    r6 = 3
    t6 = 3000 if thorough else 300
    seqs6 = ['LAWFZLAWF', 'ZFLAW']  # as_lines first / as_file first, unfrozen and frozen
    consumers6 = [(), ('line2',), ('strip-nl',), ('filter',)]
    w6 = ('plain', 'and')
    m6 = 3 if thorough else 1
    # (native variants: one path per text x replacement string x buffer size; all sources / sequences of a case per path)
    # inserting 0, 1, 2, ... new-lines into the first / a middle / the last line (the text is symbolic); then consumed
    # as it is or by something whose result depends on the division into lines
    # (4 characters: a first, a middle and a last line exist)
    obs.append(_k6_ob('b', False, ['str'], [()], consumers6, seqs6, 5 if thorough else 4, r6, t6, wrappers=w6, mmax=m6))
    # deleting / replacing / multiplying the new-lines themselves
    obs.append(_k6_ob('\n', False, ['str', 'file'], [()], consumers6, seqs6, n6, r6, t6, wrappers=w6, mmax=m6))
    # a pattern that takes the new-line and the character before it
    obs.append(_k6_ob('b\n', False, ['str'], [()], consumers6, seqs6, n6, 3 if thorough else 2, t6, wrappers=w6, mmax=m6))
    # -preserve-new-lines: the new-line that ends a line is not part of what is replaced
    obs.append(_k6_ob('b', True, ['str'], [()], consumers6, seqs6, n6, 3 if thorough else 2, t6, wrappers=w6, mmax=m6))
    obs.append(_k6_ob('\n', True, ['str'], [()], [(), ('line2',)], seqs6, n6, 2 if thorough else 1, t6, mmax=m6))
    # limited to one line (the other route into the re-division: lines paired with line-matcher models)
    obs.append(_k6_ob('b', False, ['str'], [()], [(), ('line2',)], seqs6, n6, 3 if thorough else 2, t6, wrappers=w6,
                      mmax=m6, at=2))
    # below a cache / after another transformer of the family (its output lines are the input lines here); buffer sizes
    obs.append(_k6_ob('b', False, ['str'], [('writer',), (replace_layer('a', False, '\nb'),)], [(), ('filter',)], seqs6,
                      n6, 3 if thorough else 2, t6, mmax=3 if thorough else 2))
    # everything symbolic, every buffer size: the re-divided lines under a cache that is frozen
    if thorough:
        obs.append(_k6_ob('b', False, ['str'], [()], [('filter',)], ['ZLAF', 'LAZLAF'], 3, 2, 3000))
        obs.append(_k6_ob('\n', False, ['str'], [('writer',)], [()], ['ZLAF', 'LAZLAF'], 3, 2, 3000))
    else:
        obs.append(_k6_ob('b', False, ['str'], [()], [('filter',)], ['LZLAF'], 2, 2, t6))
    obs.append(_k6_ob('b', False, ['str'], [()], [()], ['LA'], 2, 2, 120, mmax=1, tag=':seeded-oracle-error',
                      oracle_bug=True))
    obs[-1].expect = ob.REFUTE
    obs[-1].bound = 'seeded oracle error: "a transformed text has one line per line of its model" (native variant)'
    obs.append(_k6_ob('b', False, ['str'], [()], [()], ['LA'], 2, 1, 120, tag=':seeded-oracle-error:symbolic',
                      oracle_bug=True))
    obs[-1].expect = ob.REFUTE
    obs[-1].bound = 'seeded oracle error: "a transformed text has one line per line of its model"'

    # ---- K7: line-oriented transformers on degenerate texts (empty, white space only, one unterminated line, several
    # final new-lines), observed through every access route
    seqs7 = ['LAWFZLAWF', 'ZFLAW']  # as_lines first / frozen first, as_file first
    roots7 = [('str',), ('file',), ('str', 'writer')]
    n7 = 4
    t7 = 3000 if thorough else 400
    # every transformer alone: below a str, a file, a cache; num-lines plain and in && (which freezes)
    obs.append(_k7_ob('alone:strip,char-case,filter', K7_STRIPS + K7_CASE + K7_FILTERS, [()], roots7, seqs7,
                      5 if thorough else n7, t7, wrappers=w6, mmax=3 if thorough else 2))
    obs.append(_k7_ob('alone:line-nums,replace', K7_NUMS + K7_REPLACES, [()], roots7, seqs7,
                      5 if thorough else n7, t7, wrappers=w6, mmax=3 if thorough else 2))
    # every ordered pair: the lines a transformer delivers are the input lines of the next one
    for group, firsts in (('strip', K7_STRIPS), ('char-case,filter', K7_CASE + K7_FILTERS), ('line-nums', K7_NUMS),
                          ('replace', K7_REPLACES)):
        obs.append(_k7_ob('pairs:%s|*' % group, firsts, K7_LAYERS, [('str',)] + ([('file',)] if thorough else []), seqs7,
                          4 if thorough else 3, t7, mmax=3 if thorough else 2))
    # everything symbolic, every buffer size: `strip` in its three variants alone and under a cache that is frozen
    for layer in K7_STRIPS:
        obs.append(_k7_ob('symbolic:%s' % layer, [layer], [(), 'all'], [('str',)], ['LAZLAF'], 3 if thorough else 2, t7,
                          alphabet=' \na'))
    obs.append(_k7_ob('seeded-oracle-error', ['strip-ts', 'all'], [()], [('str',)], ['LA'], 2, 120, mmax=1, oracle_bug=True))
    obs[-1].expect = ob.REFUTE
    obs[-1].bound = 'seeded oracle error: "every text has at least one line: the empty text has one empty line" (native variant)'
    obs.append(_k7_ob('seeded-oracle-error:symbolic', ['strip-ts'], [()], [('str',)], ['LA'], 1, 120, alphabet=' \na',
                      oracle_bug=True))
    obs[-1].expect = ob.REFUTE
    obs[-1].bound = 'seeded oracle error: "every text has at least one line: the empty text has one empty line"'

    # ---- K3
    t3 = 2400 if thorough else 300
    e_specs = [('str',), ('file',), ('str', 'writer')]
    a_specs = [(('str',), ''), (('file',), ''), (('str', 'writer'), 'Z')]
    if thorough:
        e_specs += [('file', 'filter')]
        a_specs += [(('str', 'writer'), ''), (('file', 'filter'), 'ZL'), (('str', 'identity'), ''),
                    (('str', 'writer'), 'F')]
    for espec in e_specs:
        for aspec, apre in a_specs:
            obs.append(_k3_ob(espec, aspec, apre, 2, ALPHA_MAIN, t3))
    if thorough:
        for espec in [('str',), ('file',), ('str', 'writer')]:
            for aspec, apre in [(('str',), ''), (('file',), ''), (('str', 'writer'), 'Z')]:
                obs.append(_k3_ob(espec, aspec, apre, 3, ALPHA_PLAIN, t3))
                obs[-1].name += ':plain3'
    obs.append(_k3_ob(('str', 'writer'), ('file',), '', 2, ALPHA_PLAIN, 120, oracle_bug=True))
    obs[-1].name += ':seeded-oracle-error'
    obs[-1].expect = ob.REFUTE
    obs[-1].bound = 'seeded oracle error: texts that differ only in a final new-line count as equal'

    # ---- long concrete texts (selectors only): length thresholds that are constants of the code
    stub_long = ('none: the selectors are made concrete, then the real classes run natively on REAL temporary files '
                 '(vsym.scratch) with the real io / os / filecmp',)
    obs.append(Ob(
        name='K2:long', fn='k2_long', case=dict(), kernel='K2', selector=True, timeout=600,
        bound='[selector] every source in %s (buffer size as listed) x every length in %s x {many short lines, one long '
              'line} x {with, without final new-line}; access sequences %s; all accesses compared with the text' % (
                  [(_spec_name(sp), mm) for sp, mm in K2L_CONFIGS], K2L_LENGTHS, K2L_SEQS),
        real=REAL_K2, stubs=stub_long, entry='string source built from the real classes, on real files'))
    obs.append(Ob(
        name='K2:long:seeded-oracle-error', fn='k2_long', case=dict(oracle_bug=True), kernel='K2', selector=True,
        timeout=300, expect=ob.REFUTE, real=REAL_K2, stubs=stub_long,
        bound='seeded oracle error: "a text is at most 2**16 characters"'))
    obs.append(Ob(
        name='K3:long', fn='k3_long', case=dict(), kernel='K3', selector=True, timeout=900,
        bound='[selector] equals: every expected kind in %s x every actual kind in %s x every length in %s x buffer size in %s; '
              'per cell: text with / without final new-line against itself, itself + "x\\n", itself + "\\n", itself '
              'minus its last character, itself cut at a line boundary, in both roles; matcher applied twice' % (
                  [_spec_name(sp) for sp in K3L_KINDS_E],
                  [_spec_name(sp) + (':' + pre if pre else '') for sp, pre in K3L_KINDS_A], K3L_LENGTHS, K3L_MS),
        real=REAL_K3, stubs=stub_long, entry='_EqualityStringMatcher(expected).matches_w_trace(actual), on real files'))
    obs.append(Ob(
        name='K3:long:seeded-oracle-error', fn='k3_long', case=dict(oracle_bug=True), kernel='K3', selector=True,
        timeout=300, expect=ob.REFUTE, real=REAL_K3, stubs=stub_long,
        bound='seeded oracle error: "a text extended by whole lines is equal"'))

    # ---- K4
    w_quick = ('plain', 'and', 'identity')
    w_all = ('plain', 'and', 'or', 'identity', 'identity-and', 'and-identity', 'identity-seq')
    k4_models = [('str',), ('str', 'filter')]
    if thorough:
        k4_models += [('file', 'writer'), (('concat', 'str', 'file'),)]
    for matcher in ('is-empty', 'num-lines', 'equals'):
        for spec in k4_models:
            n4 = 2 if matcher == 'equals' else 3
            obs.append(_k4_ob(matcher, spec, w_all if thorough else w_quick, n4, ALPHA_MAIN,
                              3000 if thorough else 400))
    obs.append(_k4_ob('num-lines', ('str',), w_quick, 3, ALPHA_FF, 400, tag=':FF'))
    obs.append(_k4_ob('num-lines', ('str', 'filter'), ('plain', 'and'), 2, ALPHA_PLAIN, 120,
                      tag=':seeded-oracle-error', oracle_bug=True))
    obs[-1].expect = ob.REFUTE
    obs[-1].bound = 'seeded oracle error: "a wrapped matcher sees one line less"'
    return obs


class _RealDirFileSpace:
    """Real paths with counter names (self-test only)."""

    def __init__(self, root):
        import pathlib
        self._root = pathlib.Path(root)
        self._n = 0
        self.fs = None

    def new_path(self, name_suffix=None):
        self._n += 1
        return self._root / ('%04d-%s' % (self._n, name_suffix if name_suffix else 'f'))

    def sub_dir_space(self, name_suffix=None):
        return self


class _RealFs:
    def __init__(self, root):
        import pathlib
        self._root = pathlib.Path(root)

    def create(self, name: str, text: str):
        p = self._root / name.replace('/', '_')
        p.write_bytes(text.encode('utf-8'))
        return p


def _scenario(spec, seq, parts, m, real_dir=None):
    """Runs an access sequence concretely; with real_dir on REAL files with the REAL io / os /
    filecmp, otherwise on the stand-ins.  Returns the list of everything delivered."""
    if real_dir is None:
        fs = ffs.FakeFs()
        tfs = ffs.FakeDirFileSpace(fs)
        ffs.install(fs)
    else:
        ffs.uninstall()
        fs = _RealFs(real_dir)
        tfs = _RealDirFileSpace(real_dir)
    out = []
    try:
        src, _ = build_source(spec, fs, tfs, parts, m)
        fd_sink = tfs if spec_needs_fd(spec) else None
        for acc in seq:
            out.append(_access(src, acc, fd_sink))
    except Exception as e:  # noqa
        out.append(type(e).__name__)
    return out


def _equals_scenario(espec, aspec, apre, e, a, m, real_dir=None):
    if real_dir is None:
        fs = ffs.FakeFs()
        tfs = ffs.FakeDirFileSpace(fs)
        ffs.install(fs)
    else:
        ffs.uninstall()
        fs = _RealFs(real_dir)
        tfs = _RealDirFileSpace(real_dir)
    try:
        expected, _ = build_source(espec, fs, tfs, (e,), m, 'e-')
        actual, _ = build_source(aspec, fs, tfs, (a,), m, 'a-')
        for acc in apre:
            _access(actual, acc)
        matcher = _equals_matcher(expected)
        return [matcher.matches_w_trace(actual).value, matcher.matches_w_trace(actual).value]
    except Exception as ex:  # noqa
        return [type(ex).__name__]


def selftest(tier) -> int:
    """(1) every stand-in against the real thing (real temporary files, io.StringIO, filecmp);
    (2) the REAL exactly_lib classes on REAL files against the same classes on the stand-ins: every
        access sequence / source / text / buffer size of a concrete sample must deliver the same values
        (including the texts inside the known-finding regions, where both must go wrong identically);
    (3) the reference line division against iterating a real file."""
    import itertools
    import os
    from vsym import scratch
    thorough = tier == 'thorough'
    d = scratch.new_dir('c14st')
    n = 0
    try:
        n += ffs.selftest(d)
        texts = ['', 'a', 'a\n', 'a\nb', 'é\na\n', 'é\né', 'a\r\nb', '\r', 'a\x0cb\n', '\n\n', 'ab\nc\n\nd']
        specs = [('str',), ('file',), ('file', 'identity'), ('str', 'filter'), ('file', 'writer'), ('str', 'seq'),
                 ('str', 'writer', 'filter'), ('str', 'fdwriter'), ('file', 'fdwriter'), ('prog',), ('prog-i', 'filter')]
        seqs = [SEQ_ROOT, SEQ_UNFROZEN_THEN_FROZEN, SEQ_FROZEN_FIRST, 'FZW', 'ZFL'] if thorough else [SEQ_UNFROZEN_THEN_FROZEN, SEQ_FROZEN_FIRST]
        ms = (1, 2, 3, 5, 100) if thorough else (1, 3, 100)
        k = 0
        for spec in specs:
            for seq in seqs:
                for t in texts:
                    for m in ms:
                        k += 1
                        rd = os.path.join(d, 'r%d' % k)
                        os.mkdir(rd)
                        real = _scenario(spec, seq, (t, '', ''), m, rd)
                        fake = _scenario(spec, seq, (t, '', ''), m)
                        if real != fake:
                            raise AssertionError('real files and stand-ins differ: %r %r %r m=%r\nreal: %r\nfake: %r' % (
                                spec, seq, t, m, real, fake))
                        n += 1
                        scratch.remove(rd)
        for spec in [(('concat', 'str', 'prog', 'str'),), (('concat', 'str', 'str', 'prog-i'),)]:
            for seq in (SEQ_PROG_FILE_FIRST, SEQ_PROG_FROZEN_FIRST):
                for parts in [('a\n', 'C\n', 'b'), ('a', 'é', ''), ('', 'C', 'b\n'), ('a\nb\n', 'c\n', 'D\n')]:
                    for m in (1, 2, 100):
                        k += 1
                        rd = os.path.join(d, 'r%d' % k)
                        os.mkdir(rd)
                        real = _scenario(spec, seq, parts, m, rd)
                        fake = _scenario(spec, seq, parts, m)
                        if real != fake:
                            raise AssertionError('real files and stand-ins differ: %r %r %r m=%r\nreal: %r\nfake: %r' % (
                                spec, seq, parts, m, real, fake))
                        n += 1
                        scratch.remove(rd)
        # K6: transformers that change the number of new-lines of a line -- (a) real files against the stand-ins;
        # (b) the replacement string as the value of a string symbol (real new-lines; what the obligations use)
        # against the same string written literally with \\n escapes (CrossHair's model of re.Match.expand does not
        # process escapes in the replacement string, which is why the obligations do not use that spelling)
        k6_texts = ['', 'b', 'ab\nb', 'b\na', '\nb\na', 'a\n\nb\n', 'bb\n\n', 'ab\nab\nab']
        k6_repls = ['', 'x', '\n', 'x\n', '\n\nx', '\nx\n\n']
        for pat in ('b', '\n', 'b\n'):
            for preserve in (False, True):
                for at in (None, 2):
                    for repl in k6_repls:
                        via_symbol = replace_layer(pat, preserve, repl, at)
                        literal = ('replace-literal',) + via_symbol[1:]
                        for after in ((), ('line2',), ('strip-nl',)):
                            for t in k6_texts:
                                got = _scenario(('str', via_symbol) + after, 'LAWFZLAF', (t, '', ''), 2)
                                got_literal = _scenario(('str', literal) + after, 'LAWFZLAF', (t, '', ''), 2)
                                if got != got_literal:
                                    raise AssertionError('replace: %r %r on %r:\nvia symbol %r\nliteral    %r' % (
                                        via_symbol, after, t, got, got_literal))
                                n += 1
                        if at is None or thorough:
                            for t in k6_texts[:5]:
                                for spec in (('file', via_symbol, 'filter'), ('str', 'writer', via_symbol, 'line2')):
                                    for m in (1, 100):
                                        k += 1
                                        rd = os.path.join(d, 'r%d' % k)
                                        os.mkdir(rd)
                                        real = _scenario(spec, SEQ_UNFROZEN_THEN_FROZEN, (t, '', ''), m, rd)
                                        fake = _scenario(spec, SEQ_UNFROZEN_THEN_FROZEN, (t, '', ''), m)
                                        if real != fake:
                                            raise AssertionError('real files and stand-ins differ: %r %r m=%r\nreal: %r\nfake: %r' % (
                                                spec, t, m, real, fake))
                                        n += 1
                                        scratch.remove(rd)
        # K7: line-oriented transformers on degenerate texts -- real files against the stand-ins
        k7_texts = ['', ' ', '\n', ' \t\n', ' \n \n', '\n\n\n ', 'a', ' a', 'a \n\n', ' \na\n\n', 'a\n \n\ta']
        for layer in K7_LAYERS:
            for spec in (('file', layer), ('str', 'writer', layer, 'all'), ('file', 'strip-ts', layer)):
                for t in (k7_texts if thorough else k7_texts[:8]):
                    for m in (1, 100):
                        k += 1
                        rd = os.path.join(d, 'r%d' % k)
                        os.mkdir(rd)
                        real = _scenario(spec, SEQ_UNFROZEN_THEN_FROZEN, (t, '', ''), m, rd)
                        fake = _scenario(spec, SEQ_UNFROZEN_THEN_FROZEN, (t, '', ''), m)
                        if real != fake:
                            raise AssertionError('real files and stand-ins differ: %r %r m=%r\nreal: %r\nfake: %r' % (
                                spec, t, m, real, fake))
                        n += 1
                        scratch.remove(rd)
        parts_list = [('a', 'b\n'), ('a\n', 'b'), ('', 'a'), ('a', ''), ('é\n', 'a\né'), ('a\x0cb', 'c'), ('a\r', '\nb')]
        for spec in [(('concat', 'str', 'str'),), (('concat', 'str', 'file'),), (('concat', 'file', 'str'), 'filter'),
                     (('concat', 'str', 'prog'),), (('concat', 'prog', 'str'),), (('concat', 'str', 'prog-i'),),
                     (('concat', 'file', 'prog'),)]:
            for seq in (SEQ_UNFROZEN_THEN_FROZEN, SEQ_FROZEN_FIRST, SEQ_PROG_FILE_FIRST, SEQ_PROG_FROZEN_FIRST):
                for parts in parts_list:
                    for m in ((1, 2, 4, 100) if thorough else (1, 2, 100)):
                        k += 1
                        rd = os.path.join(d, 'r%d' % k)
                        os.mkdir(rd)
                        real = _scenario(spec, seq, parts + ('',), m, rd)
                        fake = _scenario(spec, seq, parts + ('',), m)
                        if real != fake:
                            raise AssertionError('real files and stand-ins differ: %r %r %r m=%r\nreal: %r\nfake: %r' % (
                                spec, seq, parts, m, real, fake))
                        n += 1
                        scratch.remove(rd)
        eq_texts = ['', 'a', 'a\n', 'a\r\n', 'é', 'a\nb']
        kinds = [(('str',), ''), (('file',), ''), (('str', 'writer'), ''), (('str', 'writer'), 'Z'), (('file', 'filter'), 'ZL')]
        if not thorough:
            kinds = kinds[:2] + kinds[3:4]
        for (espec, _), (aspec, apre) in itertools.product(kinds, kinds):
            for e in eq_texts:
                for a in eq_texts:
                    for m in ((1, 3, 100) if thorough else (1, 100)):
                        k += 1
                        rd = os.path.join(d, 'r%d' % k)
                        os.mkdir(rd)
                        real = _equals_scenario(espec, aspec, apre, e, a, m, rd)
                        fake = _equals_scenario(espec, aspec, apre, e, a, m)
                        if real != fake:
                            raise AssertionError('equals: real files and stand-ins differ: %r %r %r %r %r m=%r: %r vs %r' % (
                                espec, aspec, apre, e, a, m, real, fake))
                        n += 1
                        scratch.remove(rd)
        # reference line division against a real file (texts without CR: files translate those)
        for t in texts + ['\x0b\x1c\x1d\x1e\x85\u2028\u2029x\ny']:
            if '\r' in t:
                continue
            p = os.path.join(d, 'lines.txt')
            with open(p, 'w', encoding='utf-8') as f:
                f.write(t)
            with open(p, encoding='utf-8') as f:
                if list(f) != ref_lines(t):
                    raise AssertionError('reference line division differs from file iteration on %r' % t)
            n += 1
    finally:
        ffs.uninstall()
        scratch.remove(d)
    return n


ASSUMPTIONS = [
    'text files are replaced by a pure-Python stand-in with the documented contract of a POSIX text-mode file '
    '(UTF-8 bytes, universal-newline translation on input, byte-offset seek); io.StringIO(newline="\\n"), '
    'os.fstat().st_size and filecmp.cmp(shallow=False) likewise; each stand-in is compared with the real thing, and '
    'the real exactly_lib classes on real temporary files are compared with the same classes on the stand-ins, on '
    'concrete data by the self-test (including texts inside the known-finding regions)',
    'a program whose output is captured (layer "fdwriter") is modelled as: fileno() is requested from the output file '
    'and the bytes of the text are appended behind that descriptor',
    'the transformers of a chain are `identity`, `filter constant true`, `filter ! constant false`, '
    '`identity | filter constant true | identity` (parsed by the real parser) and a writer that copies its model: '
    'they stand for "any transformation" only as far as the caching / spooling layer is concerned; what a '
    'transformer does to the text is C05 / C13',
    'K6: what `replace` does to the CHARACTERS is taken from its documentation for literal patterns (every occurrence of '
    'the pattern on a line is replaced; -preserve-new-lines excludes the new-line that ends a line; -at limits it to the '
    'selected lines); the replacement string is the value of a string symbol (real new-line characters), compared by the '
    'self-test with the same string spelled with \\n escapes',
    'K7: what `strip`, `char-case`, `filter` / `grep` / `filter -line-nums` do to the CHARACTERS is taken from their '
    'documentation (white space at the beginning / end of the text removed; cased characters converted; matched lines '
    'kept, the contents of a line exclude its new-line, line numbers start at 1 and negative ones count from the end); '
    'white space = space, tab, new-line',
]

OUTSIDE = [
    'real files, real program output, encodings other than UTF-8, Windows newline handling',
    'texts longer than the stated bounds (the loops are linear in the text; no induction over the length)',
    'characters other than the stated alphabets in K2-K4 (K1 is over all of Unicode); non-ASCII characters other '
    'than the two-byte e-acute',
    'access orders other than the listed concrete sequences and (thorough) all orders of three accesses',
    'memory buffer size 0',
    'K6: patterns other than the literals b, new-line, b + new-line; replacement strings other than those over '
    '{x, new-line} of the stated length, group references; line selections other than `line-num == 2`; the `run` '
    'transformer (a program may also change the number of lines: its output is a file, K2 "fdwriter" / K5)',
    'K7: white space other than space, tab, new-line; chains of more than two of the line-oriented transformers; '
    '`replace-test-case-dirs` and `run`',
]
