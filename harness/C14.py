"""C14  A text has one value however it is consumed.

Kernels (DESIGN.md section 4, C14):
  K1  line division of the two string-backed contents classes (`str.splitlines` sites): the lines
      of a text are its maximal segments ending in '\\n'.  s symbolic, UNRESTRICTED Unicode.
  K2  caching: a string source (literal, file, `filter`-ed, writer-produced, concatenated, chained)
      built from the REAL classes delivers the same characters and the same division into lines
      through as_str / as_lines / write_to / as_file, before and after freeze(), for EVERY memory
      buffer size m >= 1 (symbolic integer: the in-memory / on-disk decision of SpooledTextFile and
      frozen.py is an integer comparison the solver splits on).
  K3  `equals` (real _EqualityStringMatcher / _ApplierWExtDepsCases): verdict iff the two texts are
      equal, for all four (expected, actual) dependency combinations.
  K4  wrappers through the REAL string-matcher parser: M, `( M && M )`, `-transformed-by identity M`
      give the same verdict.

The OS side (text files, io.StringIO, os.fstat, filecmp) is replaced by the documented-contract
stand-ins of harness/_C14_fakefs.py (self-tested against real files).
"""
from typing import List

from vsym import ob
from vsym.ob import Ob

from harness import _C14_fakefs as ffs

PROPERTY = 'C14'

# ---------------------------------------------------------------------------------- regions
# Known-finding regions (switched on by known_findings.json entries; see HARNESS_GUIDE).
#
#  c14-splitlines        a str-backed text is divided by str.splitlines, i.e. also after
#                        VT FF FS GS RS NEL LS PS (and CR), while a file is divided after LF only
#  c14-cr                a CR in a text: reading a file translates CR / CR LF to LF, a str keeps it;
#                        file-file `equals` compares bytes
#  c14-rollover-nonascii SpooledTextFile._rollover positions the new disk file at the CHARACTER
#                        offset of the memory buffer (newfile.seek(file.tell())), which is a byte
#                        offset only for ASCII: lines written after the roll-over overwrite the tail

R_SPLITLINES = 'c14-splitlines'
R_CR = 'c14-cr'
R_ROLLOVER = 'c14-rollover-nonascii'

SPLIT_NONCR = '\x0b\x0c\x1c\x1d\x1e\x85\u2028\u2029'


def has_split_noncr(s: str) -> bool:
    for c in s:
        if c == '\x0b' or c == '\x0c' or c == '\x1c' or c == '\x1d' or c == '\x1e' \
                or c == '\x85' or c == '\u2028' or c == '\u2029':
            return True
    return False


def has_cr(s: str) -> bool:
    return '\r' in s


def has_nonascii(s: str) -> bool:
    for c in s:
        if c >= '\x80':
            return True
    return False


def in_alphabet(s: str, alphabet: str) -> bool:
    for c in s:
        if c not in alphabet:
            return False
    return True


# ---------------------------------------------------------------------------------- oracle

def ref_lines(text: str) -> List[str]:
    """What iterating a file yields and what `num-lines` documents: the maximal segments of the
    text that end in '\\n' (and a last segment without one, if any)."""
    return ffs.lines_at_lf(text)


# ---------------------------------------------------------------------------------- K1

REAL_K1 = (
    'exactly_lib.impls.types.string_source.contents.contents_of_str.ContentsOfStr.as_lines',
    'exactly_lib.impls.types.string_source.contents.frozen._StringSourceContentsOfConstStrAndExistingPath.as_lines',
)


def _pre_k1(s: str) -> bool:
    c = ob.case()
    if len(s) > c['maxlen']:
        return False
    if ob.excluded(R_SPLITLINES) and (has_split_noncr(s) or has_cr(s)):
        return False
    return True


def k1_lines(s: str) -> bool:
    """
    pre: _pre_k1(s)
    post: _
    """
    from exactly_lib.impls.types.string_source.contents import contents_of_str, frozen
    c = ob.case()
    fs = ffs.FakeFs()
    tfs = ffs.FakeDirFileSpace(fs)
    if c['impl'] == 'str':
        contents = contents_of_str.ContentsOfStr(s, None, tfs)
    else:
        contents = frozen._StringSourceContentsOfConstStrAndExistingPath(s, fs.path('unused'), tfs)
    with contents.as_lines as lines:
        first = list(lines)
    with contents.as_lines as lines:
        second = list(lines)
    expected = ref_lines(s)
    if c.get('oracle_bug'):
        # seeded oracle error: "lines never keep their line ending"
        expected = [x.rstrip('\n') for x in expected]
    return ob.post(first == expected and second == expected and ''.join(first) == s)


# ---------------------------------------------------------------------------------- real objects

def _app_env(tfs, m: int):
    from exactly_lib.test_case.app_env import ApplicationEnvironment
    return ApplicationEnvironment(None, None, tfs, m)


def _transformer(text: str, tfs, m: int):
    """A string transformer parsed by the REAL parser from concrete text, resolved with the
    (symbolic) memory buffer size."""
    from vsym import xly
    from exactly_lib.impls.types.string_transformer import parse_string_transformer
    from exactly_lib.util.symbol_table import SymbolTable
    sdv = xly.parse_cached('string-transformer', parse_string_transformer.parsers(False).full, text)
    return sdv.resolve(SymbolTable({})).value_of_any_dependency(None).primitive(_app_env(tfs, m))


def _copy_writer(contents, output):
    """A producer that writes its model unchanged (stands for any writer-based transformation,
    e.g. a program that copies stdin to stdout)."""
    contents.write_to(output)


LAYER_TEXT = {
    'identity': 'identity',
    'filter': 'filter constant true',
    'filter2': 'filter ! constant false',
    'seq': 'identity | filter constant true | identity',
}


def _layer(kind: str, model, tfs, m: int):
    if kind == 'writer':
        from exactly_lib.impls.types.string_transformer.impl.sources import transformed_string_sources as tss
        from exactly_lib.util.description_tree import renderers
        return tss.transformed_string_source_from_writer(
            _copy_writer, model, lambda: renderers.header_only('copy'), m, None)
    return _transformer(LAYER_TEXT[kind], tfs, m).transform(model)


def _root(kind: str, fs, tfs, text: str, name: str):
    """(source, the text it denotes)"""
    from exactly_lib.impls.types.string_source import constant_str, file_source
    if kind == 'str':
        return constant_str.string_source(text, tfs), text
    if kind == 'file':
        # a file whose BYTES are the UTF-8 encoding of `text`; its text is what reading it gives
        path = fs.create('src/' + name, text)
        return (file_source.StringSourceOfFile(path, None, tfs),
                ffs.universal_newlines(text))
    raise ValueError(kind)


def build_source(spec, fs, tfs, parts, m: int):
    """spec = (root, layer, ...)  with root in {'str', 'file', ('concat', root1, root2[, root3])}.
    Returns (source, denoted text)."""
    from exactly_lib.type_val_prims.string_source.impls import concat
    root = spec[0]
    if isinstance(root, tuple):
        srcs = []
        text = ''
        for i, rk in enumerate(root[1:]):
            src_i, text_i = _root(rk, fs, tfs, parts[i], 'p%d' % i)
            srcs.append(src_i)
            text = text + text_i
        src = concat.string_source(srcs, m, 'concat')
    else:
        src, text = _root(root, fs, tfs, parts[0], 'p0')
    for layer in spec[1:]:
        src = _layer(layer, src, tfs, m)
    return src, text


def spec_has_cache(spec) -> bool:
    """Does the source contain a StringSourceWithCachedFrozen (=> a SpooledTextFile when frozen)?"""
    if isinstance(spec[0], tuple):
        return True
    return any(layer in ('filter', 'filter2', 'seq', 'writer') for layer in spec[1:])


def n_parts(spec) -> int:
    return len(spec[0]) - 1 if isinstance(spec[0], tuple) else 1


# ---------------------------------------------------------------------------------- K2

REAL_K2 = (
    'exactly_lib.impls.types.string_source.cached_frozen.StringSourceWithCachedFrozen',
    'exactly_lib.impls.types.string_source.cached_frozen._FreezingStringSourceContents',
    'exactly_lib.impls.types.string_source.cached_frozen._ContentsWriter',
    'exactly_lib.impls.types.string_source.contents.frozen.frozen__from_write',
    'exactly_lib.impls.types.string_source.contents.frozen._contents_of_file__if_fits_within_mem_buff',
    'exactly_lib.impls.types.string_source.contents.frozen._size_of_file_on_disk',
    'exactly_lib.impls.types.string_source.contents.frozen._StringSourceContentsOfConstStrAndExistingPath',
    'exactly_lib.util.file_utils.spooled_file.SpooledTextFile',
    'exactly_lib.impls.types.string_source.contents.contents_of_str.ContentsOfStr',
    'exactly_lib.impls.types.string_source.contents.contents_of_existing_path.StringSourceContentsOfExistingPath',
    'exactly_lib.impls.types.string_source.contents.contents_via_write_to.ContentsViaWriteTo',
    'exactly_lib.impls.types.string_source.contents.contents_with_cached_path.StringSourceContentsWithCachedPath',
    'exactly_lib.impls.types.string_source.contents.contents_with_cached_path.ContentsWithCachedPathFromWriteToBase',
    'exactly_lib.impls.types.string_source.contents.contents_with_cached_path.ContentsWithCachedPathFromAsLinesBase',
    'exactly_lib.type_val_prims.string_source.contents.StringSourceContents',
    'exactly_lib.type_val_prims.string_source.impls.concat.string_source',
    'exactly_lib.type_val_prims.string_source.impls.concat._ConcatStringSourceContents',
    'exactly_lib.type_val_prims.string_source.impls.transformed_string_sources.TransformedStringSourceFromLines',
    'exactly_lib.type_val_prims.string_source.impls.transformed_string_sources._TransformedStringSourceContentsFromLines',
    'exactly_lib.impls.types.string_transformer.impl.sources.transformed_string_sources.transformed_string_source_from_writer',
    'exactly_lib.impls.types.string_transformer.impl.sources.transformed_string_sources._WriterOfTransformed',
    'exactly_lib.impls.types.string_transformer.impl.sources.transformed_string_sources.StringTransformerFromLinesTransformer',
    'exactly_lib.impls.types.string_transformer.impl.filter.string_sources.TransformedContentsViaAsLinesBase',
    'exactly_lib.impls.types.string_transformer.impl.filter.line_matcher._FilterByLineMatcher',
    'exactly_lib.impls.types.string_transformer.impl.filter.line_matcher._ContentsViaAsLines',
    'exactly_lib.impls.types.string_transformer.impl.identity.IdentityStringTransformer',
    'exactly_lib.impls.types.string_transformer.impl.sequence.SequenceStringTransformer',
    'exactly_lib.impls.types.string_source.constant_str.string_source',
    'exactly_lib.impls.types.string_source.file_source.StringSourceOfFile',
    'exactly_lib.impls.types.string_source.source_from_contents.StringSourceWConstantContents',
    'exactly_lib.util.file_utils.misc_utils.open_and_make_read_only_on_close__text',
)

STUB_FILE = ('text file (pathlib.Path.open in text mode, default arguments, POSIX, UTF-8) -> harness/_C14_fakefs.FakeTextFile: '
             'bytes; write at byte position; read decodes + universal-newline translation; seek(n,0) = byte n')
STUB_STRINGIO = 'spooled_file._io.StringIO(newline="\\n") -> harness/_C14_fakefs.PyStringIO (character buffer, tell = character index)'
STUB_FSTAT = 'frozen.os.fstat(fileno).st_size -> number of bytes of the fake file'
STUB_TFS = 'DirFileSpace.new_path -> counter-named path in the fake file system'
STUB_FILECMP = 'equality.filecmp.cmp(a, b, shallow=False) -> byte equality of the two fake files'
STUBS_FS = (STUB_FILE, STUB_STRINGIO, STUB_FSTAT, STUB_TFS)

# accesses
A_STR, A_LINES, A_WRITE, A_FILE, A_FREEZE = 'A', 'L', 'W', 'F', 'Z'
ACCESSES = 'ALWFZ'


def _observe(src, acc: str, text: str, lines: List[str]) -> bool:
    """Performs one access on the source and compares what it delivers with the denoted text."""
    if acc == A_FREEZE:
        src.freeze()
        return True
    contents = src.contents()
    if acc == A_STR:
        return contents.as_str == text
    if acc == A_LINES:
        with contents.as_lines as it:
            got = list(it)
        return got == lines
    if acc == A_WRITE:
        sink = ffs.PyStringIO()
        contents.write_to(sink)
        return sink.getvalue() == text
    if acc == A_FILE:
        path = contents.as_file
        with path.open() as f:
            whole = f.read()
        if not (whole == text):
            return False
        with path.open() as f:
            got = list(f)
        return got == lines
    raise ValueError(acc)


def _k2_texts_ok(c, parts) -> bool:
    n = n_parts(c['spec'])
    total = 0
    for i, p in enumerate(parts):
        if i >= n:
            if len(p) != 0:
                return False
        else:
            total += len(p)
    if total > c['maxlen']:
        return False
    if 'minlen' in c and total < c['minlen']:
        return False
    for i in range(n):
        if not in_alphabet(parts[i], c['alphabet']):
            return False
    return True


def _excluded_text(c, parts) -> bool:
    """Is the argument inside a known-finding region that is switched on?"""
    if ob.excluded(R_CR):
        for p in parts:
            if has_cr(p):
                return True
    if ob.excluded(R_SPLITLINES):
        for p in parts:
            if has_split_noncr(p):
                return True
    if ob.excluded(R_ROLLOVER) and spec_has_cache(c['spec']):
        for p in parts:
            if has_nonascii(p):
                return True
    return False


def _pre_k2(s: str, t: str, u: str, m: int, a0: int, a1: int, a2: int) -> bool:
    c = ob.case()
    if m < 1:
        return False
    if not _k2_texts_ok(c, (s, t, u)):
        return False
    nsym = c.get('nsym', 0)
    sel = (a0, a1, a2)
    for i in range(3):
        if i < nsym:
            if not (0 <= sel[i] < len(ACCESSES)):
                return False
        elif sel[i] != 0:
            return False
    return not _excluded_text(c, (s, t, u))


def k2_access(s: str, t: str, u: str, m: int, a0: int, a1: int, a2: int) -> bool:
    """
    pre: _pre_k2(s, t, u, m, a0, a1, a2)
    post: _
    """
    c = ob.case()
    fs = ffs.FakeFs()
    tfs = ffs.FakeDirFileSpace(fs)
    ffs.install(fs)
    src, text = build_source(c['spec'], fs, tfs, (s, t, u), m)
    lines = ref_lines(text)
    if c.get('oracle_bug') == 'cr-at-lines':
        # seeded oracle error: a reference that divides lines at CR too
        lines = text.splitlines(keepends=True)
    seq = list(c['seq'])
    sel = (a0, a1, a2)
    for i in range(c.get('nsym', 0)):
        seq.append(ACCESSES[int(sel[i])])
    ok = True
    for acc in seq:
        if not _observe(src, acc, text, lines):
            ok = False
            break
    if c.get('oracle_bug') == 'in-memory':
        # seeded oracle error: "a frozen text is always held in memory"
        ok = ok and not src.contents().may_depend_on_external_resources
    return ob.post(ok)


# ---------------------------------------------------------------------------------- obligations

def _spec_name(spec) -> str:
    root = spec[0]
    r = '+'.join(root[1:]) if isinstance(root, tuple) else root
    return '|'.join((r,) + tuple(spec[1:]))


def _alpha_name(alphabet: str) -> str:
    names = {'a': 'a', 'b': 'b', '\n': 'LF', '\r': 'CR', '\x0c': 'FF', 'é': 'e-acute'}
    return '{' + ','.join(names[c] for c in alphabet) + '}'


ALPHA_FULL = 'a\n\r\x0cé'
ALPHA_PLAIN = 'a\n'


def _k2_ob(spec, seq, maxlen, alphabet, timeout, nsym=0, tag='', **extra) -> Ob:
    case = dict(spec=spec, seq=seq, maxlen=maxlen, alphabet=alphabet, nsym=nsym)
    case.update(extra)
    name = 'K2:%s:%s%s%s' % (_spec_name(spec), seq, ('+%d*' % nsym) if nsym else '', tag)
    return Ob(
        name=name, fn='k2_access', case=case, kernel='K2',
        bound='source %s; access sequence %s%s (A=as_str L=as_lines W=write_to F=as_file Z=freeze); '
              'every text of <= %d characters (in total) over %s; every memory buffer size m >= 1 (Z)' % (
                  _spec_name(spec), seq, (' followed by every sequence of %d accesses' % nsym) if nsym else '',
                  maxlen, _alpha_name(alphabet)),
        timeout=timeout, real=REAL_K2, stubs=STUBS_FS,
        outside=('real files and real program output: the text-file stand-in\'s fidelity is an assumption, '
                 'self-tested against real temporary files on concrete strings',
                 'encodings other than UTF-8; Windows newline handling'),
        entry='string source built from the real classes (constant_str / file_source / parsed transformers / concat)',
    )


K2_SPECS = [
    ('str',), ('file',),
    ('str', 'identity'), ('file', 'identity'),
    ('str', 'filter'), ('file', 'filter'),
    ('str', 'writer'), ('file', 'writer'),
    (('concat', 'str', 'str'),), (('concat', 'str', 'file'),), (('concat', 'str', 'str', 'str'),),
    ('str', 'filter', 'filter2'), ('str', 'writer', 'filter'), ('str', 'seq'),
]
K2_SEQS = ['ALWFLAW', 'ZALWFLAW', 'FZLAWF']


def obligations(tier: str) -> List[Ob]:
    obs = []
    thorough = tier == 'thorough'
    # ---- K1
    for impl in ('str', 'frozen'):
        obs.append(Ob(
            name='K1:lines:' + impl, fn='k1_lines', case=dict(impl=impl, maxlen=4 if thorough else 3), kernel='K1',
            bound='every text of <= %d characters, unrestricted Unicode' % (4 if thorough else 3),
            timeout=300, real=REAL_K1, stubs=(STUB_TFS,),
            entry='ContentsOfStr / _StringSourceContentsOfConstStrAndExistingPath .as_lines'))
    obs.append(Ob(name='K1:seeded-oracle-error', fn='k1_lines', case=dict(impl='str', maxlen=2, oracle_bug=True),
                  kernel='K1', bound='seeded oracle error: lines without their line ending', timeout=120,
                  expect=ob.REFUTE, real=REAL_K1))
    # ---- K2
    for spec in K2_SPECS:
        for seq in K2_SEQS:
            obs.append(_k2_ob(spec, seq, 3, ALPHA_FULL, 600))
    return obs


def selftest(tier) -> int:
    from vsym import scratch
    d = scratch.new_dir('c14st')
    try:
        n = ffs.selftest(d)
    finally:
        scratch.remove(d)
    return n


ASSUMPTIONS = [
    'text files are replaced by a pure-Python stand-in with the documented contract of a POSIX text-mode file '
    '(UTF-8 bytes, universal-newline translation on input, byte-offset seek); io.StringIO(newline="\\n"), '
    'os.fstat().st_size and filecmp.cmp(shallow=False) likewise; all are compared with the real thing on concrete '
    'data by the self-test',
]

OUTSIDE = [
    'real files, real program output, encodings other than UTF-8, Windows newline handling',
    'texts longer than the stated bounds (the loops are linear in the text; no induction over the length)',
]
