"""C18 helper: the catalogue of exceptions a failing component may raise.

Every concrete `Exception` subclass of `builtins` (the same 61 names under 3.11.7 and 3.12.1; `selftest` of the
harness checks that the running interpreter has no other), `Exception` itself, `re.error`, and a class no code
knows.  The order is fixed: selectors are indices into NAMES.
"""
import re

# the text every injected exception carries: it holds what a careless format()/% of a message template trips over
MESSAGE = 'vsym injected {x} {0} { } %s %(y)d'

NAMES = (
    'ArithmeticError', 'AssertionError', 'AttributeError', 'BlockingIOError', 'BrokenPipeError', 'BufferError',
    'BytesWarning', 'ChildProcessError', 'ConnectionAbortedError', 'ConnectionError', 'ConnectionRefusedError',
    'ConnectionResetError', 'DeprecationWarning', 'EOFError', 'EncodingWarning', 'ExceptionGroup', 'FileExistsError',
    'FileNotFoundError', 'FloatingPointError', 'FutureWarning', 'ImportError', 'ImportWarning', 'IndentationError',
    'IndexError', 'InterruptedError', 'IsADirectoryError', 'KeyError', 'LookupError', 'MemoryError', 'ModuleNotFoundError',
    'NameError', 'NotADirectoryError', 'NotImplementedError', 'OSError', 'OverflowError', 'PendingDeprecationWarning',
    'PermissionError', 'ProcessLookupError', 'RecursionError', 'ReferenceError', 'ResourceWarning', 'RuntimeError',
    'RuntimeWarning', 'StopAsyncIteration', 'StopIteration', 'SyntaxError', 'SyntaxWarning', 'SystemError', 'TabError',
    'TimeoutError', 'TypeError', 'UnboundLocalError', 'UnicodeDecodeError', 'UnicodeEncodeError', 'UnicodeError',
    'UnicodeTranslateError', 'UnicodeWarning', 'UserWarning', 'ValueError', 'Warning', 'ZeroDivisionError',
    'Exception', 're.error', 'UnknownToEveryone',
)
N = len(NAMES)

# a sample for the quick tier: one or two of every branch of the hierarchy
QUICK = ('ZeroDivisionError', 'OverflowError', 'AssertionError', 'AttributeError', 'IndexError', 'KeyError', 'MemoryError',
         'NameError', 'OSError', 'FileNotFoundError', 'RecursionError', 'NotImplementedError', 'StopIteration', 'SyntaxError',
         'TypeError', 'ValueError', 'UnicodeDecodeError', 'UserWarning', 'Exception', 're.error', 'UnknownToEveryone')


MINI = ('ZeroDivisionError', 'KeyError', 'StopIteration', 'RecursionError', 'OSError', 'TypeError', 'Exception', 're.error',
        'UnknownToEveryone')
SAMPLES = {'mini': MINI, 'quick': QUICK, 'all': NAMES}


class UnknownToEveryone(Exception):
    """an exception class that no except clause can name"""


def cls_of(name: str):
    import builtins
    if name == 're.error':
        return re.error
    if name == 'UnknownToEveryone':
        return UnknownToEveryone
    return getattr(builtins, name)


def instance(name: str) -> Exception:
    c = cls_of(name)
    if name == 'UnicodeDecodeError':
        return c('utf-8', b'\xff', 0, 1, MESSAGE)
    if name == 'UnicodeEncodeError':
        return c('ascii', '\xe9', 0, 1, MESSAGE)
    if name == 'UnicodeTranslateError':
        return c('\xe9', 0, 1, MESSAGE)
    if name == 'ExceptionGroup':
        return c(MESSAGE, [ValueError('member')])
    return c(MESSAGE)


def builtin_exception_names():
    import builtins

    def subs(c):
        out = []
        for s in c.__subclasses__():
            out.append(s)
            out += subs(s)
        return out

    return sorted({c.__name__ for c in subs(Exception) if c.__module__ == 'builtins'})


def selftest() -> int:
    missing = [n for n in builtin_exception_names() if n not in NAMES]
    if missing:
        raise AssertionError('exception classes of this interpreter missing from the catalogue: %r' % missing)
    for n in NAMES:
        e = instance(n)
        if not isinstance(e, Exception) or type(e) is not cls_of(n):
            raise AssertionError(n)
        str(e)
    for n in QUICK + MINI:
        if n not in NAMES:
            raise AssertionError(n)
    return len(NAMES)
