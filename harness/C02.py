"""C02  Outcome table: status x assert outcome -> verdict, exit code and identifier.

K1  translate_status(status, partial outcome) against the manual's table.               [selector]
K2  the three result reporters (normal / --keep / --act) on constructed results of every
    kind (9 executed verdicts, 3 access errors, internal error), with and without sandbox,
    with a SYMBOLIC exit code of the action to check (0..255; it only travels through Python).
K3  the chain: stub test case + symbolic fault plan -> REAL executor (processors._Executor via
    the real standalone Processor.process / _executor / _get_reporter) -> REAL reporter ->
    (exit code, stdout, stderr); accessor stage replaced by a stub that may fail with each
    access error.  Oracle: the manual's table applied to the verdict the documented protocol
    (harness.C01's independent model) gives for the plan.
K4  invalid command lines -> exit code 64 and no exit identifier.                        [selector]
K5  external preprocessor: every exit status.
K6  "anything that prevents execution": errors of the SUITE file a case is run under (implicit
    exactly.suite beside the case, or --suite FILE) and of the case file itself, through the REAL
    MainProgram, in the three output modes.                                              [selector]
"""
import pathlib
from typing import List, Optional

from vsym import ob
from vsym.ob import Ob

PROPERTY = 'C02'

# ---- the documented table (reference manual: "exit codes and identifiers"), typed in independently
TABLE = {
    'PASS': 0, 'SKIPPED': 0, 'FAIL': 32, 'XFAIL': 33, 'XPASS': 33,
    'SYNTAX_ERROR': 65, 'VALIDATION_ERROR': 65, 'FILE_ACCESS_ERROR': 65, 'PRE_PROCESS_ERROR': 65,
    'HARD_ERROR': 128, 'INTERNAL_ERROR': 129,
}
COMPLETE = ('PASS', 'FAIL', 'XFAIL', 'XPASS')

EXECUTED_VERDICTS = ('PASS', 'FAIL', 'XFAIL', 'XPASS', 'SKIPPED', 'SYNTAX_ERROR', 'VALIDATION_ERROR', 'HARD_ERROR',
                     'INTERNAL_ERROR')
ACCESS_ERRORS = ('FILE_ACCESS_ERROR', 'PRE_PROCESS_ERROR', 'SYNTAX_ERROR')
RESULT_KINDS = tuple(('EXECUTED', v) for v in EXECUTED_VERDICTS) + tuple(('ACCESS_ERROR', a) for a in ACCESS_ERRORS) + (
    ('INTERNAL_ERROR', 'INTERNAL_ERROR'),)

OPTIONS = ('normal', 'keep', 'act')

REAL_REPORT = (
    'exactly_lib.processing.exit_values.from_result',
    'exactly_lib.processing.exit_values.from_full_result',
    'exactly_lib.processing.exit_values.from_access_error',
    'exactly_lib.processing.standalone.result_reporting.TestCaseResultReporter.report',
    'exactly_lib.processing.standalone.result_reporting._ResultReporterForNormalOutput',
    'exactly_lib.processing.standalone.result_reporting._ResultReporterForPreserveAndPrintSandboxDir',
    'exactly_lib.processing.standalone.result_reporting._ResultReporterForActPhaseOutput',
    'exactly_lib.processing.standalone.result_reporting.reporter_of_unable_to_execute',
    'exactly_lib.processing.standalone.result_reporting.RESULT_REPORTERS',
    'exactly_lib.common.process_result_reporters.ProcessResultReporterWithInitialExitValueOutput.report',
    'exactly_lib.common.result_reporting.print_error_message_for_full_result',
    'exactly_lib.common.result_reporting.print_error_info',
)
REAL_CHAIN = REAL_REPORT + (
    'exactly_lib.processing.standalone.processor.Processor.process',
    'exactly_lib.processing.standalone.processor.Processor._executor',
    'exactly_lib.processing.standalone.processor.Processor._get_reporter',
    'exactly_lib.processing.processors._Executor.apply',
    'exactly_lib.processing.processing_utils.ProcessorFromAccessorAndExecutor.apply',
    'exactly_lib.execution.full_execution.execution.execute',
    'exactly_lib.execution.full_execution.result.translate_status',
    'exactly_lib.execution.partial_execution.impl.executor._PartialExecutor.execute',
    'exactly_lib.execution.partial_execution.impl.atc_execution.ActionToCheckExecutor',
)


class Sink:
    """In-memory text file (write/flush); append-only."""

    def __init__(self):
        self.parts = []

    def write(self, s):
        self.parts.append(s)
        return len(s)

    def flush(self):
        pass

    def isatty(self):
        return False

    def value(self) -> str:
        return ''.join(self.parts)


def _environment():
    from exactly_lib.common.process_result_reporter import Environment
    from exactly_lib.util.file_utils.std import StdOutputFiles
    out, err = Sink(), Sink()
    return Environment.new_plain(StdOutputFiles(out, err)), out, err


def _option(i: int):
    from exactly_lib.processing.standalone.settings import ReportingOption
    return (ReportingOption.STATUS_CODE, ReportingOption.SANDBOX_DIRECTORY_STRUCTURE_ROOT,
            ReportingOption.ACT_PHASE_OUTPUT)[i]


# ----------------------------------------------------------------------------- K1

def _pre_k1(mode: int, ps: int) -> bool:
    return 0 <= mode <= 1 and 0 <= ps <= 5


PARTIALS = (None, 'SYNTAX_ERROR', 'VALIDATION_ERROR', 'FAIL', 'HARD_ERROR', 'INTERNAL_ERROR')


def k1_translate(mode: int, ps: int) -> bool:
    """
    pre: _pre_k1(mode, ps)
    post: _
    """
    from exactly_lib.execution.full_execution.result import translate_status
    from exactly_lib.execution.result import ExecutionFailureStatus
    from exactly_lib.test_case.test_case_status import TestCaseStatus
    m = ob.pick((TestCaseStatus.PASS, TestCaseStatus.FAIL), mode)
    p = ob.pick(PARTIALS, ps)
    got = translate_status(m, None if p is None else ExecutionFailureStatus[p]).name
    if m is TestCaseStatus.FAIL and p == 'FAIL':
        exp = 'XFAIL'
    elif m is TestCaseStatus.FAIL and p is None:
        exp = 'XPASS'
    elif p is None:
        exp = 'PASS'
    else:
        exp = p
    if ob.case() and ob.case().get('oracle_bug'):
        exp = 'PASS' if p is None else p
    return ob.post(got == exp)


# ----------------------------------------------------------------------------- K2

def _failure_info():
    from exactly_lib.execution import phase_step
    from exactly_lib.execution.failure_info import InstructionFailureInfo
    from exactly_lib.section_document.source_location import SourceLocation, SourceLocationPath
    from exactly_lib.test_case.result.failure_details import FailureDetails
    from exactly_lib.util.line_source import single_line_sequence
    return InstructionFailureInfo(phase_step.ASSERT__MAIN,
                                  SourceLocationPath(SourceLocation(single_line_sequence(3, 'the instruction'), None), ()),
                                  FailureDetails.new_constant_message('the failure message'),
                                  None)


def _pre_k2(kind: int, opt: int, has_sds: bool, xcode: int) -> bool:
    if not (0 <= kind < len(RESULT_KINDS) and 0 <= opt <= 2 and 0 <= xcode <= 255):
        return False
    status, what = RESULT_KINDS[kind]
    if status == 'EXECUTED':
        if what in COMPLETE and not has_sds:
            return False  # a completed execution always has a sandbox
        if what == 'SKIPPED' and has_sds:
            return False
    elif has_sds:
        return False
    return True


SDS_ROOT = '/vsym/sandbox/root'


def k2_reporters(kind: int, opt: int, has_sds: bool, xcode: int) -> bool:
    """
    pre: _pre_k2(kind, opt, has_sds, xcode)
    post: _
    """
    from exactly_lib.execution.full_execution.result import FullExeResult, FullExeResultStatus
    from exactly_lib.execution.result import ActionToCheckOutcome
    from exactly_lib.processing import test_case_processing as tcp
    from exactly_lib.processing.standalone import result_reporting
    from exactly_lib.tcfs.sds import SandboxDs
    from exactly_lib.test_case import error_description
    status, what = ob.pick(RESULT_KINDS, kind)
    o = ob.concrete_int(opt, 0, 2)
    sds = ob.concrete_bool(has_sds)
    if status == 'EXECUTED':
        atc = ActionToCheckOutcome(xcode) if (what in COMPLETE) else None
        fi = None if what in ('PASS', 'XPASS', 'SKIPPED') else _failure_info()
        result = tcp.new_executed(FullExeResult(FullExeResultStatus[what], SandboxDs(SDS_ROOT) if sds else None, atc, fi))
        ident = what
    elif status == 'ACCESS_ERROR':
        result = tcp.new_access_error(tcp.AccessErrorType[what],
                                      tcp.ErrorInfo(error_description.of_constant_message('access error message')))
        ident = what
    else:
        result = tcp.new_internal_error(tcp.ErrorInfo(error_description.of_exception(ValueError('boom'))))
        ident = 'INTERNAL_ERROR'
    env, out, err = _environment()
    reporter = result_reporting.RESULT_REPORTERS[_option(o)](env)
    rc = reporter.report(result)
    bug = ob.case().get('oracle_bug') if ob.case() else None
    return ob.post(_outputs_ok(OPTIONS[o], ident, rc, out.value(), err.value(),
                               sds_root=(SDS_ROOT if sds else None),
                               atc_ran=False, atc_code=xcode,
                               completed=(status == 'EXECUTED' and what in COMPLETE), bug=bug))


def _outputs_ok(option: str, ident: str, rc, stdout: str, stderr: str, sds_root: Optional[str], atc_ran: bool,
                atc_code, completed: bool, atc_out: str = '', atc_err: str = '', bug=None) -> bool:
    """The documented table."""
    code = TABLE[ident]
    line = ident + '\n'
    if option == 'normal':
        return rc == code and stdout == line
    if option == 'keep':
        exp_out = (sds_root + '\n') if sds_root is not None else ''
        if bug == 'keep-path-only-when-complete' and not completed:
            exp_out = ''
        return rc == code and stdout == exp_out and stderr.startswith(line)
    # --act
    pre_out = atc_out if atc_ran else ''
    pre_err = atc_err if atc_ran else ''
    if completed:
        return rc == atc_code and stdout == pre_out and stderr == pre_err
    return rc == code and stdout == pre_out and stderr.startswith(pre_err + line)


# ----------------------------------------------------------------------------- K3

# one representative cell per step family of the documented protocol (+ none, + failing cleanup)
_CAT = []


def _fault_catalogue():
    if not _CAT:
        _CAT.append(_fault_catalogue_())
    return _CAT[0]


def _fault_catalogue_():
    from harness import C01
    n = (1, 1, 1, 1, 1)
    cells = C01.canonical(n)
    cat = [('none', -1)]
    seen = set()
    for i, (c, fam) in enumerate(cells):
        if fam not in seen:
            seen.add(fam)
            cat.append((fam, i))
    cat.append(('cleanup', -2))
    cat.append(('assert-fails+cleanup', -3))  # double fault: a failing assertion AND a failing cleanup instruction
    return n, cells, cat


def _pre_k3(kind: int, mode: int, opt: int, access: int, xsel: int) -> bool:
    from harness import C01
    n, cells, cat = _fault_catalogue()
    fam, idx = cat[ob.case()['fault']]
    if idx >= 0:
        if kind not in C01.valid_kinds(cells[idx][0]):
            return False
    elif idx in (-2, -3):
        if kind not in (2, 3, 4):
            return False
    elif kind != 0:
        return False
    if not (0 <= mode <= 2 and 0 <= opt <= 2 and 0 <= access <= 4):
        return False
    if not (0 <= xsel < len(C01.EXIT_CODES)):
        return False
    # keep the product of the dimensions out of the path tree:
    # accessor faults only together with the fault-free plan, status PASS, first exit code;
    if access != 0 and not (idx == -1 and mode == 0 and xsel == 0):
        return False
    # exit codes other than the first only where the action to check runs to completion
    if xsel != 0 and fam not in ('none', 'cleanup', 'ba-main', 'assert-main', 'assert-fails+cleanup'):
        return False
    return True


ACCESS_FAULTS = (None, 'FILE_ACCESS_ERROR', 'PRE_PROCESS_ERROR', 'SYNTAX_ERROR', 'EXCEPTION')


def run_chain(fault_idx: int, kind: int, mode: int, opt: int, access: int, xsel: int):
    """Returns (rc, stdout, stderr, facts) from the real processor + reporter."""
    import os
    from harness import C01
    from vsym import exeharness as xh, scratch
    from exactly_lib.execution.configuration import PredefinedProperties
    from exactly_lib.execution.predefined_properties import os_environ_getter
    from exactly_lib.impls.os_services import os_services_access
    from exactly_lib.processing import processing_utils, test_case_processing as tcp
    from exactly_lib.processing.act_phase import ActPhaseSetup
    from exactly_lib.processing.processors import TestCaseDefinition
    from exactly_lib.processing.standalone import processor as sp
    from exactly_lib.processing.standalone.settings import TestCaseExecutionSettings
    from exactly_lib.test_case import error_description
    from exactly_lib.util.symbol_table import SymbolTable

    n, cells, cat = _fault_catalogue()
    fam, idx = cat[fault_idx]
    kind = ob.concrete_int(kind, 0, 5)
    mode = ob.concrete_int(mode, 0, 2)
    opt = ob.concrete_int(opt, 0, 2)
    access = ob.concrete_int(access, 0, 4)
    code = ob.pick(C01.EXIT_CODES, xsel)

    def kind_of(cell) -> int:
        if cell[0] == 'cleanup' and cell[1] == 'main':
            return kind if idx in (-2, -3) else 0
        if idx == -3 and cell == ('assert', 'main', 0):
            return 5  # FAIL
        if idx >= 0 and cell == cells[idx][0]:
            return kind
        return 0

    plan = xh.Plan(kind_of)
    plan.exit_code = code
    test_case = xh.stub_test_case(plan, n, xh.STATUSES[mode])
    work = scratch.new_dir('c02')
    case_dir = pathlib.Path(work) / 'case-dir'
    case_dir.mkdir()
    sandboxes = pathlib.Path(work) / 'sandboxes'
    sandboxes.mkdir()
    roots = []

    def resolver() -> str:
        d = sandboxes / ('sds-%d' % (len(roots) + 1))
        d.mkdir()
        roots.append(str(d))
        return str(d)

    class AccessorStub(tcp.Accessor):
        def apply(self, test_case_ref):
            a = ACCESS_FAULTS[access]
            if a is None:
                return test_case
            if a == 'EXCEPTION':
                raise ValueError('accessor implementation error')
            raise tcp.AccessorError(tcp.AccessErrorType[a],
                                    tcp.ErrorInfo(error_description.of_constant_message('injected access error')))

    class ProcessorWithStubAccessor(sp.Processor):
        def _processor(self, settings, result_reporter):
            executor = self._executor(ActPhaseSetup('stub-actor', xh.ActorStub(plan)),
                                      result_reporter.depends_on_result_in_sandbox(),
                                      settings.sandbox_root_dir_resolver,
                                      result_reporter)
            return processing_utils.ProcessorFromAccessorAndExecutor(AccessorStub(), executor)

    definition = TestCaseDefinition(None, PredefinedProperties(os_environ_getter, None, None, SymbolTable()))
    proc = ProcessorWithStubAccessor(definition, os_services_access.new_for_current_os(), None, 2 ** 10)
    settings = TestCaseExecutionSettings(case_dir / 'the.case', case_dir, _option(opt), None, resolver)
    env, out, err = _environment()
    cwd = os.getcwd()
    with ob.untraced():   # kind, mode, opt, access and the exit code are concrete by now
        rc = proc.process(env, settings)
    os.chdir(cwd)
    kept = [os.path.isdir(r) and len(os.listdir(r)) > 0 for r in roots]
    xh._make_writable(work)
    scratch.remove(work)
    facts = dict(roots=roots, kept=kept, trace=list(plan.trace), code=code, opt=opt, mode=mode, access=access,
                 fam=fam, idx=idx, kind=kind, n=n, cells=cells)
    return rc, out.value(), err.value(), facts


def expected_chain(f) -> dict:
    """Verdict by the documented protocol + table."""
    from harness import C01
    access = ACCESS_FAULTS[f['access']]
    e = dict(ident=None, sandbox=False, atc_ran=False, completed=False)
    if access == 'EXCEPTION':
        e['ident'] = 'INTERNAL_ERROR'
        return e
    if access is not None:
        e['ident'] = access
        return e
    idx, kind, mode, fam = f['idx'], f['kind'], f['mode'], f['fam']
    act_only = (f['opt'] == 2)
    if act_only and fam in ('ba-main', 'assert-main'):
        idx, kind = -1, 0  # these steps are not part of an --act execution
    if idx == -3 and act_only:
        idx = -2  # the assert phase is not part of an --act execution
    if idx == -2:
        x = C01.expected(f['n'], -1, 0, 0, kind, mode)
    elif idx == -3:
        # an interrupted execution is reported as the error verdict: the failing cleanup step decides
        assert_idx = [i for i, (c, _) in enumerate(f['cells']) if c == ('assert', 'main', 0)][0]
        x = C01.expected(f['n'], assert_idx, 5, 0, kind, mode)
    else:
        x = C01.expected(f['n'], idx, kind, -1, 0, mode)
    e['ident'] = x.outcomes[-1][0] if idx in (-2, -3) and x.cleanup_fault is not None else x.outcomes[0][0]
    e['sandbox'] = x.sandbox
    e['atc_ran'] = x.atc_completed or (x.sandbox and (x.first is None))
    e['completed'] = e['ident'] in COMPLETE
    return e


def k3_chain(kind: int, mode: int, opt: int, access: int, xsel: int) -> bool:
    """
    pre: _pre_k3(kind, mode, opt, access, xsel)
    post: _
    """
    rc, stdout, stderr, f = run_chain(ob.case()['fault'], kind, mode, opt, access, xsel)
    e = expected_chain(f)
    bug = ob.case().get('oracle_bug')
    sds_root = f['roots'][0] if f['roots'] else None
    if (sds_root is not None) != e['sandbox']:
        return False
    # in --keep mode the sandbox is preserved, otherwise removed
    if f['roots'] and f['kept'][0] != (OPTIONS[f['opt']] == 'keep'):
        return False
    ok = _outputs_ok(OPTIONS[f['opt']], e['ident'], rc, stdout, stderr, sds_root, e['atc_ran'], f['code'],
                     e['completed'], 'atc-out', 'atc-err', bug)
    return ob.post(ok)


# ----------------------------------------------------------------------------- K5: external preprocessor

class _MemFile:
    def __init__(self):
        self.parts = []

    def __enter__(self):
        return self

    def __exit__(self, *a):
        return False

    def write(self, s):
        self.parts.append(s)

    def seek(self, pos):
        pass

    def read(self):
        return ''.join(self.parts)


class _TempfileStub:
    @staticmethod
    def TemporaryFile(prefix=None, mode='w+'):
        return _MemFile()


def _pre_k5(code: int) -> bool:
    return -255 <= code <= 255


def k5_preprocessor(code: int) -> bool:
    """
    pre: _pre_k5(code)
    post: _
    """
    from exactly_lib.processing import preprocessor as pp
    from exactly_lib.processing.test_case_processing import ProcessError
    calls = []

    class Sub:
        @staticmethod
        def call(cmd, cwd=None, stdout=None, stderr=None, **kw):
            calls.append((list(cmd), cwd))
            stdout.write('PREPROCESSED')
            stderr.write('pp-stderr')
            return code

    pp.subprocess = Sub
    pp.tempfile = _TempfileStub
    p = pp.PreprocessorViaExternalProgram(['the-preprocessor', 'arg'])
    raised = False
    out = None
    try:
        out = p.apply(pathlib.Path('/vsym/dir/x.case'), 'source')
    except ProcessError:
        raised = True
    ok_call = calls == [(['the-preprocessor', 'arg', 'x.case'], '/vsym/dir')]
    failing = (code != 0)
    if ob.case().get('oracle_bug'):
        failing = code > 0
    # any non-zero status of the preprocessor (killed by a signal: negative) is a PRE_PROCESS_ERROR
    return ob.post(ok_call and (raised if failing else (not raised and out == 'PREPROCESSED')))


# ----------------------------------------------------------------------------- K4

# @CASE@, @CASE2@: existing valid case files; @SUITE@: an existing valid suite file; @MISSING...@: names of no file
INVALID_ARGV = (
    [],
    ['--no-such-option', '@CASE@'],
    ['@CASE@', '@CASE2@'],
    ['--actor'],
    ['--suite'],
    ['--preprocessor'],
    ['--keep'],
    ['--act'],
    ['@MISSING.case@'],
    ['--keep', '@MISSING.case@'],
    ['--act', '@MISSING.case@'],
    ['--suite', '@MISSING.suite@', '@CASE@'],
    ['--keep', '--suite', '@MISSING.suite@', '@CASE@'],
    ['--suite', '@SUITE@', '@MISSING.case@'],
    ['suite'],
    ['suite', '@MISSING.suite@'],
    ['suite', '--reporter', 'no-such-reporter', '@SUITE@'],
    ['suite', '@SUITE@', '@SUITE@'],
    ['symbol'],
    ['symbol', '@MISSING.case@'],
    ['symbol', '--suite', '@MISSING.suite@', '@CASE@'],
    ['help', 'no-such-help-item-xyz'],
)


def _pre_k4(i: int) -> bool:
    return 0 <= i < len(INVALID_ARGV)


def k4_invalid_usage(i: int) -> bool:
    """
    pre: _pre_k4(i)
    post: _
    """
    import os
    from vsym import scratch
    from exactly_lib.util.file_utils.std import StdOutputFiles
    work = scratch.new_dir('c02k4')
    files = {'@CASE@': ('x.case', '[act]\n$ true\n'), '@CASE2@': ('y.case', '[act]\n$ true\n'),
             '@SUITE@': ('x.suite', '[cases]\nx.case\n')}
    for name, text in files.values():
        with open(os.path.join(work, name), 'w') as f:
            f.write(text)
    argv = []
    for a in ob.pick(INVALID_ARGV, i):
        if a in files:
            a = os.path.join(work, files[a][0])
        elif a.startswith('@MISSING'):
            a = os.path.join(work, 'missing' + a[len('@MISSING'):-1])
        argv.append(a)
    out, err = Sink(), Sink()
    mp = _main_program()
    cwd = os.getcwd()
    os.chdir(work)
    try:
        with ob.untraced():   # the selector is concrete by now
            rc = mp.execute(argv, StdOutputFiles(out, err))
    finally:
        os.chdir(cwd)
        scratch.remove(work)
    idents = set(TABLE) | {'OK', 'ERROR', 'INVALID_SUITE'}
    first_out = out.value().split('\n')[0].strip()
    first_err = err.value().split('\n')[0].strip()
    exp = 64 if not (ob.case() and ob.case().get('oracle_bug')) else 65
    return ob.post(rc == exp and first_out not in idents and first_err not in idents and out.value() == '')


# ----------------------------------------------------------------------------- K6: errors that prevent execution

# (name, suite text or None, {extra files: bytes}, case bytes, documented identifier)
PREVENTERS = (
    ('suite-unknown-section', b'[nonsense]\n', {}, b'[act]\n$ true\n', 'SYNTAX_ERROR'),
    ('suite-invalid-conf-instruction', b'[conf]\nno-such-instruction x\n', {}, b'[act]\n$ true\n', 'SYNTAX_ERROR'),
    ('suite-invalid-case-instruction', b'[setup]\nno-such-instruction x\n', {}, b'[act]\n$ true\n', 'SYNTAX_ERROR'),
    ('suite-includes-missing-file', b'[setup]\nincluding missing.xly\n', {}, b'[act]\n$ true\n',
     'FILE_ACCESS_ERROR'),
    ('suite-not-utf8', b'[conf]\n\xff\xfe\n', {}, b'[act]\n$ true\n', 'FILE_ACCESS_ERROR'),
    ('suite-includes-not-utf8', b'[setup]\nincluding bin.xly\n', {'bin.xly': b'env A = \xff\xfe\n'},
     b'[act]\n$ true\n', 'FILE_ACCESS_ERROR'),
    ('case-syntax-error', None, {}, b'[setup]\nno-such-instruction x\n[act]\n$ true\n', 'SYNTAX_ERROR'),
    ('case-unknown-phase', None, {}, b'[nonsense]\n', 'SYNTAX_ERROR'),
    ('case-includes-missing-file', None, {}, b'[setup]\nincluding missing.xly\n[act]\n$ true\n',
     'FILE_ACCESS_ERROR'),
    ('case-not-utf8', None, {}, b'[act]\n$ echo \xff\n', 'FILE_ACCESS_ERROR'),
    ('case-includes-not-utf8', None, {'bin.xly': b'env A = \xff\xfe\n'},
     b'[setup]\nincluding bin.xly\n[act]\n$ true\n', 'FILE_ACCESS_ERROR'),
    ('case-is-a-directory', None, {'d.case/x': b''}, None, 'FILE_ACCESS_ERROR'),
    ('case-validation-error', None, {}, b'[setup]\ncopy missing-file.txt\n[act]\n$ true\n', 'VALIDATION_ERROR'),
)


def _pre_k6(i: int, opt: int, explicit: bool) -> bool:
    if not (0 <= i < len(PREVENTERS) and 0 <= opt <= 2):
        return False
    return not (explicit and PREVENTERS[i][1] is None)


def k6_prevented(i: int, opt: int, explicit: bool) -> bool:
    """
    pre: _pre_k6(i, opt, explicit)
    post: _
    """
    import os
    from vsym import scratch
    from exactly_lib.util.file_utils.std import StdOutputFiles
    name, suite, extra, case, ident = ob.pick(PREVENTERS, i)
    opt = ob.concrete_int(opt, 0, 2)
    explicit = ob.concrete_bool(explicit)
    work = scratch.new_dir('c02k6')
    d = os.path.join(work, 'd')
    os.mkdir(d)
    for rel, data in extra.items():
        path = os.path.join(d, rel)
        os.makedirs(os.path.dirname(path), exist_ok=True)
        with open(path, 'wb') as f:
            f.write(data)
    case_path = os.path.join(d, 'd.case' if case is None else 'the.case')
    if case is not None:
        with open(case_path, 'wb') as f:
            f.write(case)
    argv = list(((), ('--keep',), ('--act',))[opt])
    if suite is not None:
        suite_path = os.path.join(d, 'other.suite' if explicit else 'exactly.suite')
        with open(suite_path, 'wb') as f:
            f.write(suite)
        if explicit:
            argv += ['--suite', suite_path]
    argv.append(case_path)
    out, err = Sink(), Sink()
    cwd = os.getcwd()
    os.chdir(d)
    try:
        with ob.untraced():   # every selector is concrete by now
            rc = _main_program().execute(argv, StdOutputFiles(out, err))
    finally:
        os.chdir(cwd)
    scratch.remove(work)
    if ob.case().get('oracle_bug'):
        ident = 'SYNTAX_ERROR'  # seeded oracle error: every prevented execution is a syntax error
    return ob.post(_outputs_ok(OPTIONS[opt], ident, rc, out.value(), err.value(), None, False, None, False))


_MP = []


# ----------------------------------------------------------------------------- K7: where the status comes from

K7_STATUSES = (None, 'PASS', 'FAIL', 'SKIP')
K7_ASSERTIONS = (('passes', 'exists -rel-home the.case'), ('fails', 'exists -rel-home no-such-file'),
                 ('hard-error', 'run -rel-act no-such-program'))
# verdict by the table of the manual: (effective status, outcome of the assertion) -> identifier
K7_VERDICT = {('PASS', 'passes'): 'PASS', ('PASS', 'fails'): 'FAIL', ('PASS', 'hard-error'): 'HARD_ERROR',
              ('FAIL', 'passes'): 'XPASS', ('FAIL', 'fails'): 'XFAIL', ('FAIL', 'hard-error'): 'HARD_ERROR',
              ('SKIP', 'passes'): 'SKIPPED', ('SKIP', 'fails'): 'SKIPPED', ('SKIP', 'hard-error'): 'SKIPPED'}


def _pre_k7(ss: int, cs: int, a: int, explicit: bool) -> bool:
    return 0 <= ss < len(K7_STATUSES) and 0 <= cs < len(K7_STATUSES) and 0 <= a < len(K7_ASSERTIONS)


def k7_status_source(ss: int, cs: int, a: int, explicit: bool) -> bool:
    """
    pre: _pre_k7(ss, cs, a, explicit)
    post: _
    """
    import os
    from vsym import scratch
    from exactly_lib.util.file_utils.std import StdOutputFiles
    suite_status, case_status = ob.pick(K7_STATUSES, ss), ob.pick(K7_STATUSES, cs)
    outcome, assertion = ob.pick(K7_ASSERTIONS, a)
    explicit = ob.concrete_bool(explicit)
    work = scratch.new_dir('c02k7')
    d = os.path.join(work, 'd')
    os.mkdir(d)
    suite = '[conf]\n' + ('status = %s\n' % suite_status if suite_status else '') + '[cases]\n'
    case = ('[conf]\nstatus = %s\n' % case_status if case_status else '') + '[assert]\n' + assertion + '\n'
    suite_path = os.path.join(d, 'other.suite' if explicit else 'exactly.suite')
    with open(suite_path, 'w') as f:
        f.write(suite)
    case_path = os.path.join(d, 'the.case')
    with open(case_path, 'w') as f:
        f.write(case)
    argv = (['--suite', suite_path] if explicit else []) + [case_path]
    out, err = Sink(), Sink()
    cwd = os.getcwd()
    os.chdir(d)
    try:
        with ob.untraced():   # every selector is concrete by now
            rc = _main_program().execute(argv, StdOutputFiles(out, err))
    finally:
        os.chdir(cwd)
    scratch.remove(work)
    # the contents of the suite's [conf] come BEFORE the case's (help: suite, section conf): what the case says wins
    effective = case_status or suite_status or 'PASS'
    if ob.case().get('oracle_bug'):
        effective = suite_status or case_status or 'PASS'
    ident = K7_VERDICT[(effective, outcome)]
    return ob.post(rc == TABLE[ident] and out.value().split('\n')[0] == ident)


def _main_program():
    if not _MP:
        from exactly_lib.cli_default import default_main_program_setup as dmps
        _MP.append(dmps.default_main_program())
    return _MP[0]


# -----------------------------------------------------------------------------

def obligations(tier: str) -> List[Ob]:
    obs = [
        Ob(name='K1:translate', fn='k1_translate', case={}, kernel='K1', selector=True,
           bound='status in {PASS, FAIL} x partial outcome in {none, SYNTAX_ERROR, VALIDATION_ERROR, FAIL, HARD_ERROR, INTERNAL_ERROR}',
           timeout=120, real=('exactly_lib.execution.full_execution.result.translate_status',)),
        Ob(name='K1:seeded-oracle-error', fn='k1_translate', case=dict(oracle_bug=True), kernel='K1', selector=True,
           bound='seeded: oracle without XFAIL/XPASS', timeout=120, expect=ob.REFUTE),
        Ob(name='K2:reporters', fn='k2_reporters', case={}, kernel='K2',
           bound='13 result kinds x 3 output modes x with/without sandbox (valid combinations) x EVERY exit code 0..255 '
                 'of the action to check (symbolic)', timeout=600, real=REAL_REPORT,
           outside=('colour escape codes', 'text of the error message after the identifier line')),
        Ob(name='K2:seeded-oracle-error', fn='k2_reporters', case=dict(oracle_bug='keep-path-only-when-complete'),
           kernel='K2', bound='seeded: oracle prints the sandbox path only for completed executions', timeout=300,
           expect=ob.REFUTE),
        Ob(name='K4:invalid-usage', fn='k4_invalid_usage', case={}, kernel='K4', selector=True,
           bound='%d invalid command lines' % len(INVALID_ARGV), timeout=600,
           real=('exactly_lib.cli.main_program.MainProgram.execute',
                 'exactly_lib.cli.program_modes.test_case.argument_parsing.parse')),
        Ob(name='K4:seeded-oracle-error', fn='k4_invalid_usage', case=dict(oracle_bug=True), kernel='K4', selector=True,
           bound='seeded: oracle expects 65', timeout=300, expect=ob.REFUTE),
    ]
    obs.append(Ob(name='K5:preprocessor', fn='k5_preprocessor', case={}, kernel='K5',
                  bound='every exit status of the external preprocessor in [-255, 255] (negative: killed by a signal)',
                  timeout=300, real=('exactly_lib.processing.preprocessor.PreprocessorViaExternalProgram.apply',),
                  stubs=('subprocess.call at preprocessor.py: returns the symbolic status, writes fixed output',
                         'tempfile.TemporaryFile at preprocessor.py: in-memory file')))
    obs.append(Ob(name='K5:seeded-oracle-error', fn='k5_preprocessor', case=dict(oracle_bug=True), kernel='K5',
                  bound='seeded: negative statuses counted as success', timeout=120, expect=ob.REFUTE))
    obs.append(Ob(name='K6:prevented', fn='k6_prevented', case={}, kernel='K6', selector=True,
                  bound='%d errors that prevent execution (%s) x 3 output modes x suite beside the case / --suite FILE'
                        % (len(PREVENTERS), ', '.join(p[0] for p in PREVENTERS)),
                  timeout=900, real=('exactly_lib.cli.main_program.MainProgram.execute',
                                     'exactly_lib.processing.standalone.processor.Processor.process',
                                     'exactly_lib.processing.standalone.result_reporting.TestSuiteParseErrorReporter.report',
                                     'exactly_lib.test_suite.error_reporting.report_suite_parse_error',
                                     'exactly_lib.processing.standalone.accessor_resolver.AccessorResolver.resolve',
                                     'exactly_lib.processing.processors._SourceReader.apply',
                                     'exactly_lib.section_document.impl.file_access.read_source_file'),
                  stubs=('in-memory stdout/stderr',),
                  entry='MainProgram.execute([--keep|--act] [--suite FILE] CASE)'))
    obs.append(Ob(name='K6:seeded-oracle-error', fn='k6_prevented', case=dict(oracle_bug=True), kernel='K6',
                  selector=True, bound='seeded: oracle expects SYNTAX_ERROR for everything', timeout=600,
                  expect=ob.REFUTE))
    n, cells, cat = _fault_catalogue()
    for i, (fam, idx) in enumerate(cat):
        obs.append(Ob(
            name='K3:chain:%s' % fam, fn='k3_chain', case=dict(fault=i), kernel='K3',
            bound='stub case with 1 instruction per phase; fault at %s with every applicable kind; status PASS/FAIL/SKIP; '
                  '3 output modes; accessor ok / FILE_ACCESS_ERROR / PRE_PROCESS_ERROR / SYNTAX_ERROR / exception; '
                  '5 exit codes of the action to check' % (
                      'no step' if idx == -1 else 'cleanup main' if idx == -2 else
                      'assert main (FAIL) AND cleanup main' if idx == -3 else '%s/%s' % cells[idx][0][:2]),
            timeout=1500, real=REAL_CHAIN, selector=True,
            stubs=('stub instructions / actor (public base classes)', 'stub Accessor (reader+preprocessor+parser stage)',
                   'in-memory stdout/stderr', 'deterministic sandbox resolver'),
            entry='standalone.processor.Processor.process(Environment, TestCaseExecutionSettings)'))
    obs.append(Ob(name='K3:seeded-oracle-error', fn='k3_chain',
                  case=dict(fault=[i for i, (f, _) in enumerate(cat) if f == 'cleanup'][0],
                            oracle_bug='keep-path-only-when-complete'), kernel='K3',
                  bound='seeded oracle error', timeout=900, expect=ob.REFUTE))
    obs.append(Ob(name='K7:status-source', fn='k7_status_source', case={}, kernel='K7', selector=True,
                  bound='status set by the suite in force (none / PASS / FAIL / SKIP; `exactly.suite` beside the case or --suite FILE) x '
                        'status set by the case (none / PASS / FAIL / SKIP) x an assertion that passes / fails / is a hard error: the '
                        'verdict, exit code and identifier are those of the table for the status the CASE sets, else the suite\'s, '
                        'else PASS',
                  timeout=600, real=REAL_CHAIN + ('exactly_lib.cli.main_program.MainProgram.execute',
                                                  'exactly_lib.test_suite.file_reading.suite_file_reading._TestCaseInstructionsFromTestSuiteAdder'),
                  stubs=('in-memory stdout/stderr', 'CrossHair tracing is suspended while the program runs on the concrete files'),
                  entry='MainProgram.execute([--suite FILE] CASE)'))
    obs.append(Ob(name='K7:seeded-oracle-error', fn='k7_status_source', case=dict(oracle_bug=True), kernel='K7', selector=True,
                  bound='seeded: the status of the suite is claimed to win', timeout=300, expect=ob.REFUTE))
    return obs


ASSUMPTIONS = [
    'the reader / preprocessor / parser stage is a stub Accessor (its real behaviour: C03, C07)',
    'stdout / stderr are in-memory sinks; the action to check is a stub that writes fixed texts',
]
OUTSIDE = ['colour codes', 'the text of error messages after the identifier line',
           'real child processes writing to the inherited file descriptors in --act mode']
