import sys, time
from harness import _C16_lib as L, _C16_glob as G
def run(d,a,b,w,q,ab,g,junit=False, verbose=False):
    ln = G.line(d,a,b,w,q,ab)
    specs, tree, root = G.scenario(w, ln)
    order = L.expected_run(tree, specs, root)
    obs = L.run_main_program_on_suite(tree, root, junit, G.kind_of, glob_rot=g//2, glob_rev=(g%2==1))
    ok = L.hierarchy_ok(obs, order, root, junit, G.kind_of)
    if verbose or not ok:
        print(ok, (d,a,b,w,q,ab,g), repr(ln), 'expected', order, '\n   observed', obs)
    return ok, order
if __name__ == '__main__':
    t=time.time(); n=0; bad=0; stats={}
    ws = [int(x) for x in sys.argv[1].split(',')]
    qs = [int(x) for x in sys.argv[2].split(',')]
    abss = [int(x) for x in sys.argv[3].split(',')]
    for w in ws:
      for q in qs:
        for ab in abss:
          for d in range(len(G.DIRP)):
            for a in range(len(G.LETTER)):
              for b in range(len(G.DIGIT)):
                ok, order = run(d,a,b,w,q,bool(ab),1)
                n+=1; bad += (not ok)
                k = None if order is None else sum(len(c) for s,c in order)
                stats[k]=stats.get(k,0)+1
    print(n, 'runs', bad, 'bad', time.time()-t, 's', stats)
