"""C15  Directory trees: populating from a FILE-LIST and matching directory contents.

Kernels (DESIGN.md section 4, C15):
  K1  the recursive walk behind `dir-contents -recursive [-min-depth a] [-max-depth b]`, `-selection`,
      `-with-pruned`: through the REAL `exists PATH : FILE-MATCHER` instruction on real directory
      fixtures (files, directories, symbolic links to both, broken links).  Symbolic: the depth
      limits (all of Z; negative ones must be rejected by validation), the verdict of every
      selection / prune matcher per file (stub matchers bound to symbols).  Oracle: the documented
      set "depth in [min, max], no ancestor pruned, selected".
  K2  the files-matchers applied to that set: num-files (operator and operand symbolic), is-empty,
      every / any file, matches / matches -full with FILES-CONDITIONs, `type`, nested `dir-contents`,
      negation of the instruction.
  K3  populating: the REAL `dir` instruction (setup phase) with a FILE-LIST chosen [selector] from a
      catalogue of FILE-SPECs, applied to real directories; oracle: a fold of the documented
      semantics over an in-memory tree; nothing outside the populated directory changes.
  K4  FILE-NAME validation [selector]: every name of <= n characters over {a . / :}.
"""
import os
from typing import List, Tuple

from vsym import ob
from vsym.ob import Ob

from harness import _C15_lib as lib
from harness._C15_lib import F, D, L

PROPERTY = 'C15'

B4 = Tuple[bool, bool, bool, bool]
B8 = Tuple[bool, bool, bool, bool, bool, bool, bool, bool]

# --------------------------------------------------------------------------- fixtures

FIXTURES = {
    'empty': {},
    'flat': {'a': F('1'), 'b': F('2')},
    'nest': {'a': F(), 'd': D(b=F(), e=D(c=F()))},
    'links': {'f': F('x'), 'd': D(x=F()), 'ld': L('d'), 'lf': L('f'), 'dang': L('nowhere')},
    'deep': {'p': D(q=D(r=D(s=F())))},
    'two': {'p': D(a=F()), 'q': D(a=F(), r=D(b=F()))},
    'mix': {'a': F(), 'd': D(a=F(), l=L('../e')), 'e': D(d=D(a=F())), 'z': L('d')},
}


def _true(_):
    return True


def _false(_):
    return False


_FX_INFO = {}


def fx_info(name: str):
    """(MemFs of the act dir holding the fixture, all entries (recursive, links followed), the directories among them)"""
    if name not in _FX_INFO:
        fs = lib.MemFs({name: lib.DD(FIXTURES[name])})
        entries = lib.ref_listing(fs, [name], True, None, None, _false, _true)
        dirs = [e for e in entries if fs.is_dir([name] + e.split('/'))]
        _FX_INFO[name] = (fs, entries, dirs)
    return _FX_INFO[name]


_FX_MADE = set()


def fx_real(name: str) -> str:
    """Materialises the fixture (once per process) in the act dir of the sandbox -> its absolute path."""
    w = lib.world()
    p = os.path.join(w.act_dir, name)
    if name not in _FX_MADE:
        os.mkdir(p)
        lib.materialize(FIXTURES[name], p)
        _FX_MADE.add(name)
    return p


# --------------------------------------------------------------------------- stub matchers / symbols

class _PerFile:
    """verdict_of for a stub FILE-MATCHER: the verdict for a file is verdicts[index of its relative path]."""

    def __init__(self, root: str, index_of: dict, verdicts, asked: list):
        self.root = root
        self.index_of = index_of
        self.verdicts = verdicts
        self.asked = asked

    def __call__(self, model) -> bool:
        rel = os.path.relpath(str(model.path.primitive), self.root)
        self.asked.append(rel)
        return self.verdicts[self.index_of[rel]]


class _Recorder:
    """verdict_of for the stub FILES-MATCHER `REC`: records the model's files, verdict True."""

    def __init__(self, listings: list):
        self.listings = listings

    def __call__(self, model) -> bool:
        self.listings.append(sorted(str(f.relative_to_root_dir) for f in model.files()))
        return True


def _symbols(fx: str, sa, sb, pa, pb, log):
    from vsym import xly
    from exactly_lib.symbol.value_type import ValueType
    fs, entries, dirs = fx_info(fx)
    root = fx_real(fx)
    e_idx = {e: i for i, e in enumerate(entries)}
    d_idx = {e: i for i, e in enumerate(dirs)}
    sink = []
    tbl = {
        'SA': xly.matcher_symbol(xly.StubMatcher('SA', _PerFile(root, e_idx, sa, log['SA']), sink), ValueType.FILE_MATCHER),
        'SB': xly.matcher_symbol(xly.StubMatcher('SB', _PerFile(root, e_idx, sb, log['SB']), sink), ValueType.FILE_MATCHER),
        'PA': xly.matcher_symbol(xly.StubMatcher('PA', _PerFile(root, d_idx, pa, log['PA']), sink), ValueType.FILE_MATCHER),
        'PB': xly.matcher_symbol(xly.StubMatcher('PB', _PerFile(root, d_idx, pb, log['PB']), sink), ValueType.FILE_MATCHER),
        'REC': xly.matcher_symbol(xly.StubMatcher('REC', _Recorder(log['REC']), sink), ValueType.FILES_MATCHER),
    }
    return xly.symbol_table(tbl)


def _new_log():
    return {'SA': [], 'SB': [], 'PA': [], 'PB': [], 'REC': []}


MOD_TEXT = {'sa': '-selection SA', 'sb': '-selection SB', 'pa': '-with-pruned PA', 'pb': '-with-pruned PB'}


def _model_text(case) -> str:
    """`dir-contents [-recursive [-min-depth K0] [-max-depth K1]] MODIFIERS...` (without the final matcher)"""
    t = ['dir-contents']
    if case.get('rec', True):
        t.append('-recursive')
        if case.get('has_min'):
            t.append('-min-depth K0')
        if case.get('has_max'):
            t.append('-max-depth K1')
    for m in case.get('mods', ()):
        t.append(MOD_TEXT[m])
    return ' '.join(t)


def _ref_listing(case, lo, hi, sa, sb, pa, pb) -> List[str]:
    fx = case['fx']
    fs, entries, dirs = fx_info(fx)
    e_idx = {e: i for i, e in enumerate(entries)}
    d_idx = {e: i for i, e in enumerate(dirs)}
    mods = case.get('mods', ())

    def selected(rel):
        ok = True
        if 'sa' in mods:
            ok = ok and sa[e_idx[rel]]
        if 'sb' in mods:
            ok = ok and sb[e_idx[rel]]
        return ok

    def pruned(rel):
        r = False
        if 'pa' in mods:
            r = r or pa[d_idx[rel]]
        if 'pb' in mods:
            r = r or pb[d_idx[rel]]
        return r

    rec = case.get('rec', True)
    return lib.ref_listing(fs, [fx], rec,
                           lo if (rec and case.get('has_min')) else None,
                           hi if (rec and case.get('has_max')) else None,
                           pruned, selected)


def _unused_pinned(case, lo, hi, sa, sb, pa, pb) -> bool:
    """Symbolic inputs that the case does not use are pinned (keeps the search space honest and small)."""
    fs, entries, dirs = fx_info(case['fx'])
    mods = case.get('mods', ())
    rec = case.get('rec', True)
    if not (rec and case.get('has_min')) and lo != 0:
        return False
    if not (rec and case.get('has_max')) and hi != 0:
        return False
    ne, nd = len(entries), len(dirs)
    for name, tup, n in (('sa', sa, ne), ('sb', sb, ne), ('pa', pa, nd), ('pb', pb, nd)):
        used = n if name in mods else 0
        for i in range(used, len(tup)):
            if tup[i]:
                return False
    return True


def _svh_ok(r) -> bool:
    return r.is_success


# --------------------------------------------------------------------------- K1

def _pre_k1(lo, hi, sa, sb, pa, pb) -> bool:
    return _unused_pinned(ob.case(), lo, hi, sa, sb, pa, pb)


def k1_walk(lo: int, hi: int, sa: B8, sb: B4, pa: B4, pb: B4) -> bool:
    """
    pre: _pre_k1(lo, hi, sa, sb, pa, pb)
    post: _
    """
    from vsym import xly
    case = ob.case()
    fx = case['fx']
    w = lib.world()
    log = _new_log()
    symbols = _symbols(fx, sa, sb, pa, pb, log)
    xly.install_int_placeholders([lo, hi])
    text = '-rel-act %s : %s REC' % (fx, _model_text(case))
    instr = lib.parse_instruction('exists', text)
    must_be_invalid = bool((case.get('has_min') and lo < 0) or (case.get('has_max') and hi < 0))
    v = instr.validate_pre_sds(w.env_pre(symbols))
    if not v.is_success:
        return ob.post(must_be_invalid)
    if must_be_invalid:
        return ob.post(False)
    env = w.env_post(symbols)
    if not instr.validate_post_setup(env).is_success:
        return ob.post(False)
    r = instr.main(env, None, lib.os_services())
    expected = _ref_listing(case, lo, hi, sa, sb, pa, pb)
    if case.get('oracle_bug'):
        # seeded oracle error: depth limits taken as exclusive on the upper side
        expected = _ref_listing(case, lo, hi - 1, sa, sb, pa, pb)
    fs, entries, dirs = fx_info(fx)
    prune_asked_only_dirs = all(a in dirs for a in log['PA'] + log['PB'])
    return ob.post(r.status.name == 'PASS'
                   and len(log['REC']) == 1
                   and log['REC'][0] == expected
                   and prune_asked_only_dirs)


# --------------------------------------------------------------------------- obligations

REAL_WALK = (
    'exactly_lib.impls.types.files_matcher.models._FilesGeneratorForRecursive.generate',
    'exactly_lib.impls.types.files_matcher.models._FilesGeneratorForRecursive._is_within_min_depth_limit',
    'exactly_lib.impls.types.files_matcher.models._FilesGeneratorForRecursive._is_at_max_depth_limit',
    'exactly_lib.impls.types.files_matcher.models._FilesGeneratorForNonRecursive.generate',
    'exactly_lib.impls.types.files_matcher.models._FilesMatcherModelForDir.sub_set',
    'exactly_lib.impls.types.files_matcher.models._FilesMatcherModelForDir.prune',
    'exactly_lib.impls.types.files_matcher.models._FilesMatcherModelForDir.files',
    'exactly_lib.impls.types.files_matcher.models._FilesInDir',
    'exactly_lib.impls.types.files_matcher.models._FileModelForDirEntry',
    'exactly_lib.impls.types.files_matcher.impl.prune._get_model',
    'exactly_lib.impls.types.files_matcher.impl.sub_set_selection._get_model',
    'exactly_lib.impls.types.files_matcher.impl.model_modifier_utils._ModelGetter.get_from',
    'exactly_lib.impls.types.files_matcher.parse_files_matcher._parse_selection',
    'exactly_lib.impls.types.files_matcher.parse_files_matcher._parse_prune',
    'exactly_lib.impls.types.file_matcher.parse_dir_contents_model.Parser',
    'exactly_lib.impls.types.file_matcher.impl.dir_contents._RecursiveModelConstructor.make_model',
    'exactly_lib.impls.types.file_matcher.impl.dir_contents._RecursiveModelConstructorDdv',
    'exactly_lib.impls.types.file_matcher.impl.dir_contents._NonRecursiveModelConstructor.make_model',
    'exactly_lib.impls.types.file_matcher.impl.file_contents_utils._FileContentsMatcher.matches_w_trace',
    'exactly_lib.impls.types.integer.parse_integer.validator_for_non_negative',
    'exactly_lib.impls.instructions.assert_.existence_of_file._Instruction',
    'exactly_lib.impls.instructions.assert_.existence_of_file._Assertion',
    'exactly_lib.impls.instructions.assert_.existence_of_file.Parser',
)

STUB_INT = 'python_evaluate -> placeholder table (integer literal K_i denotes the symbolic integer k_i)'
STUB_FM = ('file matchers SA/SB/PA/PB and files matcher REC of classes unknown to exactly_lib, bound to symbols; '
           'verdict per file = symbolic bool; REC records the files of its model')

OUT_WALK = ('directory trees other than the listed fixtures (the walk is by structural recursion over the tree; '
            'no induction over trees)', 'symbolic-link cycles', 'permissions, special files, concurrent modification',
            'the order in which the files of a directory are delivered (os.scandir order; the oracle compares sets)')


def _walk_name(case) -> str:
    n = case['fx']
    if not case.get('rec', True):
        n += '/nonrec'
    else:
        n += '/' + ((('min' if case.get('has_min') else '') + ('max' if case.get('has_max') else '')) or 'rec')
    if case.get('mods'):
        n += '/' + '-'.join(case['mods'])
    return n


def _walk_bound(case) -> str:
    fs, entries, dirs = fx_info(case['fx'])
    b = 'fixture %r (%d files incl. %d directories / links to directories); `%s REC`' % (
        case['fx'], len(entries), len(dirs), _model_text(case))
    if case.get('has_min') or case.get('has_max'):
        b += '; every depth limit K_i in Z (negative: must be a validation error)'
    if case.get('mods'):
        b += '; every verdict of every selection / prune matcher per file'
    return b


def _k1_cases(tier):
    cases = []
    fxs = ['empty', 'flat', 'nest', 'links', 'deep', 'two'] + (['mix'] if tier == 'thorough' else [])
    # depth limits only
    for fx in fxs:
        cases.append(dict(fx=fx, rec=False))
        for has_min in (False, True):
            for has_max in (False, True):
                cases.append(dict(fx=fx, has_min=has_min, has_max=has_max))
    return cases


def obligations(tier: str) -> List[Ob]:
    obs = []
    for case in _k1_cases(tier):
        obs.append(Ob(name='K1:' + _walk_name(case), fn='k1_walk', case=case, kernel='K1',
                      bound=_walk_bound(case), timeout=300, real=REAL_WALK, stubs=(STUB_INT, STUB_FM),
                      outside=OUT_WALK, entry='`exists -rel-act FX : dir-contents ... REC` (assert phase instruction)'))
    obs.append(Ob(name='K1:seeded-oracle-error', fn='k1_walk',
                  case=dict(fx='nest', has_min=False, has_max=True, oracle_bug=True), kernel='K1',
                  bound='seeded oracle error: -max-depth taken as exclusive', timeout=120,
                  expect=ob.REFUTE, real=REAL_WALK))
    return obs


ASSUMPTIONS = [
    'integer literals are evaluated by a stub of python_evaluate that maps the placeholder names K0.. to symbolic '
    'integers (contract: an integer literal denotes its integer); eval itself is a C boundary',
    'selection / prune matchers are stub FileMatchers bound to symbols; their verdict per file is an arbitrary boolean',
    'file names, file contents and the shape of the directory trees are concrete (they cross the OS boundary)',
]

OUTSIDE = [
    'permissions, special files (fifo, device), concurrent modification of the tree',
    'trees / FILE-LISTs / names outside the stated catalogues and bounds',
]
