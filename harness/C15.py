"""C15  Directory trees: populating from a FILE-LIST and matching directory contents.

Kernels (DESIGN.md section 4, C15):
  K1  the recursive walk behind `dir-contents -recursive [-min-depth a] [-max-depth b]`, `-selection`,
      `-with-pruned`: through the REAL `exists PATH : FILE-MATCHER` instruction on real directory
      fixtures (files, directories, symbolic links to both, broken links).  Symbolic: the depth
      limits (every integer >= -99; negative ones must be rejected by validation), the verdict of every
      selection / prune matcher per file (stub matchers bound to symbols).  Oracle: the documented
      set "depth in [min, max], no ancestor pruned, selected".
  K2  the files-matchers applied to that set: num-files (operand symbolic, one obligation per operator), is-empty,
      every / any file, matches / matches -full with FILES-CONDITIONs, `type`, nested `dir-contents`,
      negation of the instruction.
  K7  [selector] one matcher OBJECT applied to several trees in turn (T1, T2, T1): no state may be carried from one
      application to the next (every files-matcher of K2, all FILES-CONDITIONs, all pairs of fixtures).
  K3  populating: the REAL `dir` instruction (setup phase) with a FILE-LIST chosen [selector] from a
      catalogue of FILE-SPECs, applied to real directories; oracle: a fold of the documented
      semantics over an in-memory tree; nothing outside the populated directory changes.
  K4  FILE-NAME validation [selector]: every name of <= n characters over {a . / :}, through the same instruction.
  K5  `file_creation.create_file` [selector] (used for transformed program output, not by FILE-LISTs): None iff the
      file was created, intermediate directories made, nothing touched on failure, file removed if the writer raises.
  K6  file names: stem / suffixes / suffix of EVERY name (symbolic string) as documented; the matchers name, stem,
      suffixes, suffix, path with glob and regex patterns [selector] on a real fixture through `-selection`.
"""
import os
from typing import List, Tuple

from vsym import ob
from vsym.ob import Ob

from harness import _C15_lib as lib
from harness._C15_lib import F, D, L

PROPERTY = 'C15'

B4 = Tuple[bool, bool, bool, bool]
B8 = Tuple[bool, bool, bool, bool, bool, bool, bool, bool]

# --------------------------------------------------------------------------- fixtures

FIXTURES = {
    'empty': {},
    'flat': {'a': F('1'), 'b': F('2')},
    'nest': {'a': F(), 'd': D(b=F(), e=D(c=F()))},
    'links': {'f': F('x'), 'd': D(x=F()), 'ld': L('d'), 'lf': L('f'), 'dang': L('nowhere')},
    'deep': {'p': D(q=D(r=D(s=F())))},
    'two': {'p': D(a=F()), 'q': D(a=F(), r=D(b=F()))},
    'mix': {'a': F(), 'd': D(a=F(), l=L('../e')), 'e': D(d=D(a=F())), 'z': L('d')},
}


def _true(_):
    return True


def _false(_):
    return False


_FX_INFO = {}


def fx_info(name: str):
    """(MemFs of the act dir holding the fixture, all entries (recursive, links followed), the directories among them)"""
    if name not in _FX_INFO:
        fs = lib.MemFs({name: lib.DD(FIXTURES[name])})
        entries = lib.ref_listing(fs, [name], True, None, None, _false, _true)
        dirs = [e for e in entries if fs.is_dir([name] + e.split('/'))]
        _FX_INFO[name] = (fs, entries, dirs)
    return _FX_INFO[name]


_FX_MADE = set()


def fx_real(name: str) -> str:
    """Materialises the fixture (once per process) in the act dir of the sandbox -> its absolute path."""
    w = lib.world()
    p = os.path.join(w.act_dir, name)
    if name not in _FX_MADE:
        os.mkdir(p)
        lib.materialize(FIXTURES[name], p)
        _FX_MADE.add(name)
    return p


# --------------------------------------------------------------------------- stub matchers / symbols

class _PerFile:
    """verdict_of for a stub FILE-MATCHER: the verdict for a file is verdicts[index of its relative path]."""

    def __init__(self, root: str, index_of: dict, verdicts, asked: list):
        self.root = root
        self.index_of = index_of
        self.verdicts = verdicts
        self.asked = asked

    def __call__(self, model) -> bool:
        rel = os.path.relpath(str(model.path.primitive), self.root)
        self.asked.append(rel)
        return self.verdicts[self.index_of[rel]]


class _Recorder:
    """verdict_of for the stub FILES-MATCHER `REC`: records the model's files (path relative to the root of the
    model; marked BAD if the absolute path of the file is not root/relative-path), verdict True."""

    def __init__(self, listings: list, root: str):
        self.listings = listings
        self.root = root

    def __call__(self, model) -> bool:
        out = []
        for f in model.files():
            rel = str(f.relative_to_root_dir)
            consistent = (os.path.relpath(str(f.path.primitive), self.root) == rel
                          and str(f.as_file_matcher_model().path.primitive) == str(f.path.primitive))
            out.append(rel if consistent else 'BAD:' + rel)
        self.listings.append(sorted(out))
        return True


def _symbols(fx: str, sa, sb, pa, pb, log):
    from vsym import xly
    from exactly_lib.symbol.value_type import ValueType
    fs, entries, dirs = fx_info(fx)
    root = fx_real(fx)
    e_idx = {e: i for i, e in enumerate(entries)}
    d_idx = {e: i for i, e in enumerate(dirs)}
    sink = []
    tbl = {
        'SA': xly.matcher_symbol(xly.StubMatcher('SA', _PerFile(root, e_idx, sa, log['SA']), sink), ValueType.FILE_MATCHER),
        'SB': xly.matcher_symbol(xly.StubMatcher('SB', _PerFile(root, e_idx, sb, log['SB']), sink), ValueType.FILE_MATCHER),
        'PA': xly.matcher_symbol(xly.StubMatcher('PA', _PerFile(root, d_idx, pa, log['PA']), sink), ValueType.FILE_MATCHER),
        'PB': xly.matcher_symbol(xly.StubMatcher('PB', _PerFile(root, d_idx, pb, log['PB']), sink), ValueType.FILE_MATCHER),
        'REC': xly.matcher_symbol(xly.StubMatcher('REC', _Recorder(log['REC'], root), sink), ValueType.FILES_MATCHER),
    }
    return xly.symbol_table(tbl)


def _new_log():
    return {'SA': [], 'SB': [], 'PA': [], 'PB': [], 'REC': []}


MOD_TEXT = {'sa': '-selection SA', 'sb': '-selection SB', 'pa': '-with-pruned PA', 'pb': '-with-pruned PB'}


def _model_text(case) -> str:
    """`dir-contents [-recursive [-min-depth K0] [-max-depth K1]] MODIFIERS...` (without the final matcher)"""
    t = ['dir-contents']
    if case.get('rec', True):
        t.append('-recursive')
        if case.get('has_min'):
            t.append('-min-depth K0')
        if case.get('has_max'):
            t.append('-max-depth K1')
    for m in case.get('mods', ()):
        t.append(MOD_TEXT[m])
    return ' '.join(t)


def _ref_listing(case, lo, hi, sa, sb, pa, pb) -> List[str]:
    fx = case['fx']
    fs, entries, dirs = fx_info(fx)
    e_idx = {e: i for i, e in enumerate(entries)}
    d_idx = {e: i for i, e in enumerate(dirs)}
    mods = case.get('mods', ())

    def selected(rel):
        ok = True
        if 'sa' in mods:
            ok = ok and sa[e_idx[rel]]
        if 'sb' in mods:
            ok = ok and sb[e_idx[rel]]
        return ok

    def pruned(rel):
        r = False
        if 'pa' in mods:
            r = r or pa[d_idx[rel]]
        if 'pb' in mods:
            r = r or pb[d_idx[rel]]
        return r

    rec = case.get('rec', True)
    return lib.ref_listing(fs, [fx], rec,
                           lo if (rec and case.get('has_min')) else None,
                           hi if (rec and case.get('has_max')) else None,
                           pruned, selected)


def _unused_pinned(case, lo, hi, sa, sb, pa, pb) -> bool:
    """Symbolic inputs that the case does not use are pinned (keeps the search space honest and small).
    The booleans are summed rather than tested one by one: no path fork per pinned input."""
    fs, entries, dirs = fx_info(case['fx'])
    mods = case.get('mods', ())
    rec = case.get('rec', True)
    if not (rec and case.get('has_min')) and lo != 0:
        return False
    if not (rec and case.get('has_max')) and hi != 0:
        return False
    ne, nd = len(entries), len(dirs)
    n = 0
    for name, tup, cnt in (('sa', sa, ne), ('sb', sb, ne), ('pa', pa, nd), ('pb', pb, nd)):
        used = cnt if (name in mods or name in case.get('uses', ())) else 0
        for i in range(used, len(tup)):
            n = n + tup[i]
    return n == 0


# --------------------------------------------------------------------------- K1

NEG_BOUND = -99  # str() of an unbounded negative integer (error message) has unboundedly many digits


def _pre_k1(lo, hi, sa, sb, pa, pb) -> bool:
    return lo >= NEG_BOUND and hi >= NEG_BOUND and _unused_pinned(ob.case(), lo, hi, sa, sb, pa, pb)


def k1_walk(lo: int, hi: int, sa: B8, sb: B4, pa: B8, pb: B4) -> bool:
    """
    pre: _pre_k1(lo, hi, sa, sb, pa, pb)
    post: _
    """
    from vsym import xly
    case = ob.case()
    fx = case['fx']
    w = lib.world()
    log = _new_log()
    symbols = _symbols(fx, sa, sb, pa, pb, log)
    xly.install_int_placeholders([lo, hi])
    text = '-rel-act %s : %s REC' % (fx, _model_text(case))
    instr = lib.parse_instruction('exists', text)
    must_be_invalid = bool((case.get('has_min') and lo < 0) or (case.get('has_max') and hi < 0))
    v = instr.validate_pre_sds(w.env_pre(symbols))
    if not v.is_success:
        return ob.post(must_be_invalid)
    if must_be_invalid:
        return ob.post(False)
    env = w.env_post(symbols)
    if not instr.validate_post_setup(env).is_success:
        return ob.post(False)
    r = instr.main(env, None, lib.os_services())
    expected = _ref_listing(case, lo, hi, sa, sb, pa, pb)
    if case.get('oracle_bug'):
        # seeded oracle error: depth limits taken as exclusive on the upper side
        expected = _ref_listing(case, lo, hi - 1, sa, sb, pa, pb)
    fs, entries, dirs = fx_info(fx)
    prune_asked_only_dirs = all(a in dirs for a in log['PA'] + log['PB'])
    return ob.post(r.status.name == 'PASS'
                   and len(log['REC']) == 1
                   and log['REC'][0] == expected
                   and prune_asked_only_dirs)


# --------------------------------------------------------------------------- K2

OPS = {'==': lambda a, b: a == b, '!=': lambda a, b: a != b, '<': lambda a, b: a < b,
       '<=': lambda a, b: a <= b, '>': lambda a, b: a > b, '>=': lambda a, b: a >= b}

# FILES-CONDITIONs over the names of fixture 'nest' (a, d, d/b, d/e, d/e/c) +- one.
# element ::= (name, None | 'QB' | 'type T')
FC_NEST = [
    [],
    [('a', None)],
    [('a', None), ('d', 'type dir')],
    [('a', 'type dir')],
    [('d', None), ('a', None)],
    [('a', None), ('d', None), ('d/b', None), ('d/e', None)],
    [('a', None), ('d', None), ('d/b', None), ('d/e', None), ('d/e/c', 'type file')],
    [('a', None), ('zz', None)],
    [('d/b', 'QB'), ('a', 'QB')],
    [('a', 'QB'), ('d', None), ('a', 'type file')],
    # the same name several times ("the matchers are combined using &&, in order of appearance"):
    # matcher then bare name, bare name then matcher, two matchers of which one fails, other spelling of the name
    [('a', 'type dir'), ('a', None)],
    [('a', 'QB'), ('a', None)],
    [('a', None), ('a', 'QB')],
    [('a', 'type file'), ('a', 'type dir')],
    [('./a', 'QB'), ('d', 'type dir'), ('a', None), ('d', None)],
    [('./a', None), ('d//', None)],
    [('d/../a', None)],
    [('/abs', None)],
    [('', None), ('a', None)],
]


def _fc_text(fc) -> str:
    lines = ['{']
    for name, m in fc:
        n = "''" if name == '' else name
        if m is None:
            lines.append('  ' + n)
        else:
            lines.append('  %s : %s' % (n, 'SB' if m == 'QB' else m))
    lines.append('}')
    return '\n'.join(lines)


def _matcher_text(m, fc_idx) -> str:
    k = m[0]
    if k == 'num':
        return 'num-files %s K2' % m[1]
    if k == 'empty':
        return 'is-empty'
    if k in ('every', 'any'):
        return '%s file : %s' % (k, 'SB' if m[1] == 'QB' else m[1])
    if k == 'matches':
        return 'matches %s%s' % ('-full ' if m[1] else '', _fc_text(FC_NEST[fc_idx]))
    if k == 'subdirs-num':
        return '-selection type dir every file : dir-contents num-files == K2'
    raise ValueError(m)


def _file_matcher_holds(fm: str, fx: str, rel: str, qb) -> bool:
    fs, entries, dirs = fx_info(fx)
    if fm == 'QB':
        return qb[entries.index(rel)]
    assert fm.startswith('type ')
    return lib.ref_type_of(fs, [fx] + rel.split('/'))[fm[5:]]


def _ref_verdict(case, listing: List[str], k: int, qb, fc_idx: int):
    """-> 'invalid' | bool : the documented verdict of the files-matcher on the set of files `listing`"""
    m = case['m']
    fx = case['fx']
    kind = m[0]
    if kind == 'num':
        return OPS[m[1]](len(listing), k)
    if kind == 'empty':
        return len(listing) == 0
    if kind == 'every':
        return all(_file_matcher_holds(m[1], fx, f, qb) for f in listing)
    if kind == 'any':
        return any(_file_matcher_holds(m[1], fx, f, qb) for f in listing)
    if kind == 'subdirs-num':
        fs, entries, dirs = fx_info(fx)
        return all(len(fs.children_of([fx] + f.split('/'))) == k for f in listing if f in dirs)
    if kind == 'matches':
        fc = FC_NEST[fc_idx]
        for name, fm in fc:
            if name == '' or name.startswith('/'):
                return 'invalid'
        names = ['/'.join(lib.name_parts(name)) for name, fm in fc]
        for (name, fm), n in zip(fc, names):
            if n not in listing:
                return False
        if m[1] and set(listing) != set(names):
            return False
        for (name, fm), n in zip(fc, names):
            if fm is not None and not _file_matcher_holds(fm, fx, n, qb):
                return False
        return True
    raise ValueError(m)


def _pre_k2(lo, hi, k, fc, sa, qb) -> bool:
    case = ob.case()
    if not (lo >= 0 and hi >= 0):  # the validity the parser enforces; the enforcement itself is checked in K1
        return False
    if case['m'][0] == 'matches':
        if not (0 <= fc < len(FC_NEST)):
            return False
    elif fc != 0:
        return False
    if case['m'][0] not in ('num', 'subdirs-num') and k != 0:
        return False
    return _unused_pinned(case, lo, hi, sa, qb, (False,) * 4, (False,) * 4)


def k2_match(lo: int, hi: int, k: int, fc: int, sa: B8, qb: B8) -> bool:
    """
    pre: _pre_k2(lo, hi, k, fc, sa, qb)
    post: _
    """
    from vsym import xly
    case = ob.case()
    fx = case['fx']
    w = lib.world()
    log = _new_log()
    no4 = (False,) * 4
    symbols = _symbols(fx, sa, qb, no4, no4, log)
    xly.install_int_placeholders([lo, hi, k])
    fc_idx = ob.concrete_int(fc, 0, len(FC_NEST) - 1) if case['m'][0] == 'matches' else 0
    neg = bool(case.get('neg'))
    text = '%s-rel-act %s : %s %s' % ('! ' if neg else '', case.get('path', fx), _model_text(case),
                                      _matcher_text(case['m'], fc_idx))
    instr = lib.parse_instruction('exists', text)
    listing = _ref_listing(case, lo, hi, sa, no4, no4, no4)
    if case.get('oracle_bug'):
        listing = listing[1:]  # seeded oracle error: the oracle loses a file
    verdict = _ref_verdict(case, listing, k, qb, fc_idx)
    must_be_invalid = bool((case.get('has_min') and lo < 0) or (case.get('has_max') and hi < 0)) or verdict == 'invalid'
    v = instr.validate_pre_sds(w.env_pre(symbols))
    if not v.is_success:
        return ob.post(must_be_invalid)
    if must_be_invalid:
        return ob.post(False)
    env = w.env_post(symbols)
    if not instr.validate_post_setup(env).is_success:
        return ob.post(False)
    r = instr.main(env, None, lib.os_services())
    expected = 'PASS' if (verdict != neg) else 'FAIL'
    return ob.post(r.status.name == expected)


def _pre_k2x(k) -> bool:
    return True


def k2_special(k: int) -> bool:
    """
    pre: _pre_k2x(k)
    post: _
    """
    from vsym import xly
    from exactly_lib.util.symbol_table import SymbolTable
    case = ob.case()
    w = lib.world()
    fx_real(case['fx'])
    xly.install_int_placeholders([0, 0, k])
    instr = lib.parse_instruction('exists', case['text'])
    symbols = SymbolTable({})
    if not instr.validate_pre_sds(w.env_pre(symbols)).is_success:
        return ob.post(False)
    env = w.env_post(symbols)
    r = instr.main(env, None, lib.os_services())
    exp = case['expect']
    if exp == 'num==':
        exp = 'PASS' if case['n'] == k else 'FAIL'
    return ob.post(r.status.name == exp)


# --------------------------------------------------------------------------- K7: one matcher object, several trees

QB_PREDICATES = [  # quick: the first two
    ('named-a', lambda rel: rel.split('/')[-1] == 'a'),
    ('top-level', lambda rel: '/' not in rel),
    ('all', lambda rel: True),
    ('none', lambda rel: False),
]

K7_FIXTURES = ['nest', 'flat', 'empty', 'links', 'two', 'deep', 'mix']  # quick: the first four


_K7_MATCHERS = []


def _k7_matchers():
    """(matcher spec as in K2, integer operand K2 / index of the FILES-CONDITION)"""
    if _K7_MATCHERS:
        return _K7_MATCHERS
    ms = _K7_MATCHERS
    ms += [(('num', '=='), 2), (('num', '>'), 0), (('num', '<='), 4), (('empty',), 0),
          (('every', 'QB'), 0), (('any', 'QB'), 0), (('every', 'type dir'), 0), (('any', 'type symlink'), 0),
          (('any', 'type file'), 0), (('subdirs-num',), 1)]
    for full in (False, True):
        for i, fc in enumerate(FC_NEST):
            if any(name == '' or name.startswith('/') for name, fm in fc):
                continue
            ms.append((('matches', full), i))
    return ms


class _PredicateVerdict:
    """verdict_of for the stub FILE-MATCHER SB of K7: a predicate on the path relative to the tree being matched"""

    def __init__(self, state: dict, pred):
        self.state = state
        self.pred = pred

    def __call__(self, model) -> bool:
        return self.pred(os.path.relpath(str(model.path.primitive), self.state['root']))


def run_reapply(mi: int, t1: str, t2: str, qi: int, rec: bool, oracle_bug: bool = False) -> bool:
    """ONE primitive of `dir-contents [-recursive] FILES-MATCHER` (parsed by the real parser, resolved the way the
    `exists` instruction resolves it) is applied to the trees t1, t2, t1 in turn: every verdict must be the
    documented one for the tree at hand - a matcher object must not carry state from one application to the next.
    Everything here is concrete."""
    from vsym import xly
    from exactly_lib.impls.instructions.utils.logic_type_resolving_helper import resolving_helper_for_instruction_env
    from exactly_lib.impls.types.file_matcher import parse_file_matcher
    from exactly_lib.impls.types.file_matcher.file_matcher_models import FileMatcherModelForDescribedPath
    from exactly_lib.symbol.value_type import ValueType
    from exactly_lib.tcfs.path_relativity import RelOptionType
    from exactly_lib.type_val_deps.types.path import path_ddvs
    m, arg = _k7_matchers()[mi]
    k = arg if m[0] in ('num', 'subdirs-num') else 0
    fc_idx = arg if m[0] == 'matches' else 0
    pred = QB_PREDICATES[qi][1]
    w = lib.world()
    state = {'root': None}
    symbols = xly.symbol_table({
        'SB': xly.matcher_symbol(xly.StubMatcher('SB', _PredicateVerdict(state, pred), []), ValueType.FILE_MATCHER)})
    xly.install_int_placeholders([0, 0, k])
    text = 'dir-contents %s%s' % ('-recursive ' if rec else '', _matcher_text(m, fc_idx))
    sdv = xly.parse_cached('file-matcher', parse_file_matcher.parsers().full, text)
    helper = resolving_helper_for_instruction_env(lib.os_services(), w.env_post(symbols))
    primitive = helper.resolve_matcher(sdv)
    n = 0
    for fx in (t1, t2, t1):
        n += 1
        state['root'] = fx_real(fx)
        fs, entries, dirs = fx_info(fx)
        path = path_ddvs.simple_of_rel_option(RelOptionType.REL_ACT, fx).value_of_any_dependency__d(w.tcds)
        got = primitive.matches_w_trace(FileMatcherModelForDescribedPath(path)).value
        ref_fx = t1 if (oracle_bug and n == 2) else fx  # seeded oracle error: the 2nd verdict is that of the 1st tree
        rfs, rentries, rdirs = fx_info(ref_fx)
        listing = lib.ref_listing(rfs, [ref_fx], rec, None, None, _false, _true)
        qb = tuple(pred(e) for e in rentries)
        if bool(got) != bool(_ref_verdict(dict(fx=ref_fx, m=m), listing, k, qb, fc_idx)):
            return False
    return True


def _pre_k7(mi, t1, t2, qi) -> bool:
    nfx = ob.case()['nfx']
    return (0 <= mi < len(_k7_matchers()) and 0 <= t1 < nfx and 0 <= t2 < nfx
            and 0 <= qi < ob.case()['nq'])


def k7_reapply(mi: int, t1: int, t2: int, qi: int) -> bool:
    """
    pre: _pre_k7(mi, t1, t2, qi)
    post: _
    """
    case = ob.case()
    nfx = case['nfx']
    m_i = ob.concrete_int(mi, 0, len(_k7_matchers()) - 1)
    a = ob.concrete_int(t1, 0, nfx - 1)
    b = ob.concrete_int(t2, 0, nfx - 1)
    q = ob.concrete_int(qi, 0, case['nq'] - 1)
    with lib.untraced():
        ok = run_reapply(m_i, K7_FIXTURES[a], K7_FIXTURES[b], q, case['rec'], bool(case.get('oracle_bug')))
    return ob.post(ok)


# --------------------------------------------------------------------------- K3 / K4: populate

SRC_FIXTURES = {
    'src1': D(a=F('S'), sub=D(x=F('X'))),
    'src2': D(a=F('A2'), lnk=L('a')),
    'src3': D(a=F('A3'), sub=D(l=L('../a')), dl=L('nowhere')),
    'src4': D(sub=D(x=F('X4'), bin=('b', b'\xff\x00')), ls=L('sub'), lf=L('sub/x'), bin=('b', b'\xff\xfe\x00\n')),
    'afile': F('not a dir'),
}

SIB = {'f': F('s')}  # a sibling of the populated directory ("outside")

INIT_TREES = {
    'absent': None,  # the populated directory does not exist: `dir P = { ... }`
    'empty': {},
    'file-a': {'a': F('A')},
    'dir-d': {'d': D(a=F('D'))},
    'dir-a': {'a': D()},
    'file-d': {'d': F('notdir')},
    'link-l-to-d': {'l': L('d'), 'd': D()},
    'broken-a': {'a': L('nowhere')},
    'broken-a-out': {'a': L('../escaped')},
    'link-e-to-file': {'e': L('a'), 'a': F('A')},
    'broken-d': {'d': L('nowhere')},
}

ABS = '@ABS@'  # replaced by an absolute path inside the scratch world


def _entry_catalogue(tier):
    c = [
        ('file', 'a', None, None),
        ('file', 'a', '=', 'x'),
        ('file', 'a', '+=', 'y'),
        ('dir', 'd', None, None),
        ('dir', 'd', '=', [('file', 'a', '=', 'z'), ('file', 'p/q/r', None, None)]),
        ('dir', 'd', '+=', [('file', 'b', None, None), ('dir', 'e', None, None), ('file', 'e/q/r/s', '=', 'S')]),
        ('file', 'd/a', '=', 'w'),
        ('file', 'd/a', '+=', 'v'),
        ('dir', 'd/e/g', None, None),
        ('dir', 'd', '=', ('copy', ['case', 'src1'])),
        ('dir', 'd', '+=', ('copy', ['case', 'src1'])),
        ('dir', '.', '+=', ('copy', ['case', 'src2'])),
        ('file', '../x', None, None),
        ('file', ABS, '=', 'abs'),
        ('file', 'l/n', '=', 'n'),
        ('file', 'e', '+=', 'E'),
    ]
    if tier == 'thorough':  # (both tiers use this full catalogue; the tiers differ in the length of the lists)
        c += [
            ('dir', 'd/../e', None, None),
            ('file', 'a/b', '=', 'q'),
            ('dir', 'd', '+=', [('file', 'a', '+=', 't'), ('file', '../y', None, None)]),
            ('dir', 'd', '+=', [('dir', 'e', '=', [('file', 'deep', '=', 'D')]), ('file', 'e/deep', '+=', '2')]),
            ('file', './a//b/', '=', 'n'),
            ('file', 'p/q/r', '=', 'R'),
            ('dir', 'c', '=', ('copy', ['case', 'src3'])),
            ('dir', 'c', '=', ('copy', ['case', 'nosuch'])),
            ('dir', 'c', '=', ('copy', ['case', 'afile'])),
            ('dir', 'a', '+=', []),
            ('dir', '.', None, None),
            ('dir', 'l', '+=', [('file', 'm', '=', 'M')]),
            ('dir', 'c', '=', ('copy', ['case', 'src4'])),
        ]
    return c


def _subst_abs(entries, abs_name):
    out = []
    for kind, name, mod, contents in entries:
        if isinstance(contents, list):
            contents = _subst_abs(contents, abs_name)
        out.append((kind, abs_name if name == ABS else name, mod, contents))
    return out


def _copy_sources_invalid(entries, fs) -> bool:
    """`dir-contents-of P`: P must be an existing directory (checked by validation: P is relative the home dir)"""
    for kind, name, mod, contents in entries:
        if isinstance(contents, tuple) and not fs.is_dir(contents[1]):
            return True
        if isinstance(contents, list) and _copy_sources_invalid(contents, fs):
            return True
    return False


def _world_without(children: dict, path: List[str]) -> dict:
    """copy of a world description with the node at `path` removed"""
    out = {}
    for k, v in children.items():
        if k == path[0]:
            if len(path) == 1:
                continue
            if v[0] == 'd':
                out[k] = ('d', _world_without(v[1], path[1:]))
                continue
        out[k] = v
    return out


OUTCOMES = []  # outcome of every run_populate of this process (diagnostics / self-test)


def run_populate(init_name: str, entries, oracle_bug: bool = False) -> bool:
    """Populates a real directory with the REAL `dir` instruction and compares with the reference fold.
    Everything here is concrete."""
    import shutil
    w = lib.world()
    # ---- the real world: <act>/par/{dst?, sib}, <case>/{src1, ...}
    par = os.path.join(w.act_dir, 'par')
    if os.path.exists(par):
        shutil.rmtree(par)
    os.mkdir(par)
    act_children = {'par': D(sib=lib.DD(SIB))}
    init = INIT_TREES[init_name]
    if init is not None:
        act_children['par'][1]['dst'] = lib.DD(init)
    lib.materialize(act_children['par'][1], par)
    if not os.path.exists(os.path.join(w.case_dir, 'src1')):
        lib.materialize(SRC_FIXTURES, w.case_dir)
    abs_name = os.path.join(par, 'sib', 'abs')
    entries = _subst_abs(entries, abs_name)
    before = {'act': lib.DD(act_children), 'case': lib.DD(SRC_FIXTURES)}
    fs = lib.MemFs(before)
    dst = ['act', 'par', 'dst']

    # ---- real
    text = '-rel-act par/dst %s {\n%s\n}' % ('=' if init is None else '+=',
                                             lib.render_entries(entries, lambda parts: '/'.join(parts[1:])))
    from exactly_lib.util.symbol_table import SymbolTable
    instr = lib.parse_instruction('dir', text, cache=False)
    symbols = SymbolTable({})
    v = instr.validate_pre_sds(w.env_pre(symbols))

    def real_world():
        return {'act': ('d', {'par': ('d', lib.snapshot(par))}), 'case': ('d', lib.snapshot(w.case_dir))}

    # ---- reference
    invalid = lib.entries_have_invalid_name(entries) or _copy_sources_invalid(entries, fs)
    if not v.is_success:
        OUTCOMES.append('validation')
        return invalid and real_world() == before
    if invalid:
        OUTCOMES.append('missed-validation')
        return False
    env = w.env_post(symbols)
    r = instr.main(env, None, lib.os_services(), None)
    try:
        if init is None:
            fs.mkdir_p(dst)
        if oracle_bug:
            entries = list(reversed(entries))  # seeded oracle error: entries applied in reverse order
        lib.ref_populate(fs, dst, entries)
        ref_ok = True
    except lib.RefHardError:
        ref_ok = False
    after = real_world()
    OUTCOMES.append('ok' if r.is_success else 'hard')
    if r.is_success != ref_ok:
        return False
    if ref_ok:
        return after == {'act': fs.root[1]['act'], 'case': fs.root[1]['case']}
    # HARD_ERROR: nothing outside the populated directory has changed
    return _world_without(after, dst) == _world_without(before, dst)


def _pre_k3(e0, e1, e2) -> bool:
    n = len(_entry_catalogue(ob.case()['tier']))
    k = ob.case()['k']
    es = (e0, e1, e2)
    for i in range(3):
        if i < k:
            if not (0 <= es[i] < n):
                return False
        elif es[i] != 0:
            return False
    return True


def k3_populate(e0: int, e1: int, e2: int) -> bool:
    """
    pre: _pre_k3(e0, e1, e2)
    post: _
    """
    case = ob.case()
    cat = _entry_catalogue(case['tier'])
    first = case.get('first')
    sel = [ob.concrete_int(e, 0, len(cat) - 1) for e in (e0, e1, e2)[:case['k']]]
    with lib.untraced():
        entries = ([cat[first]] if first is not None else []) + [cat[i] for i in sel]
        ok = run_populate(case['init'], entries, bool(case.get('oracle_bug')))
    return ob.post(ok)


NAME_ALPHABET = 'a./:'


def _pre_k4(c0, c1, c2, c3, c4) -> bool:
    n = ob.case()['n']
    cs = (c0, c1, c2, c3, c4)
    for i in range(5):
        if i < n:
            if not (0 <= cs[i] < len(NAME_ALPHABET)):
                return False
        elif cs[i] != 0:
            return False
    return True


def k4_names(c0: int, c1: int, c2: int, c3: int, c4: int) -> bool:
    """
    pre: _pre_k4(c0, c1, c2, c3, c4)
    post: _
    """
    case = ob.case()
    idx = [ob.concrete_int(c, 0, len(NAME_ALPHABET) - 1) for c in (c0, c1, c2, c3, c4)[:case['n']]]
    with lib.untraced():
        name = ''.join(NAME_ALPHABET[i] for i in idx)
        if case.get('oracle_bug'):
            name = name.replace('..', 'a')  # seeded oracle error: `..` not recognised by the oracle ...
            ok = lib.name_is_invalid(name) == _real_name_invalid(''.join(NAME_ALPHABET[i] for i in idx))
        else:
            entries = [(case['kind'], name, case['mod'], ('n' if case['kind'] == 'file' and case['mod'] else None))]
            ok = run_populate(case['init'], entries)
    return ob.post(ok)


def _real_name_invalid(name: str) -> bool:
    from exactly_lib.impls.types.files_source.impl import file_list
    return file_list._IsValidPosixPath(name).validate_pre_sds_if_applicable(None) is not None


# --------------------------------------------------------------------------- K5: file_creation.create_file

K5_TARGETS = ['a', 'n', 'd/a', 'd/n', 'd/e/f', 'l/n', 'a/b', 'e', 'x/y/z']


def _pre_k5(t, fails) -> bool:
    return 0 <= t < len(K5_TARGETS)


def k5_create_file(t: int, fails: bool) -> bool:
    """
    pre: _pre_k5(t, fails)
    post: _
    """
    case = ob.case()
    ti = ob.concrete_int(t, 0, len(K5_TARGETS) - 1)
    op_fails = ob.concrete_bool(fails)
    with lib.untraced():
        ok = _run_create_file(case['init'], K5_TARGETS[ti], op_fails, bool(case.get('oracle_bug')))
    return ob.post(ok)


def _run_create_file(init_name: str, target: str, op_fails: bool, oracle_bug: bool) -> bool:
    import pathlib
    import shutil
    from exactly_lib.impls import file_creation
    w = lib.world()
    par = os.path.join(w.act_dir, 'par5')
    if os.path.exists(par):
        shutil.rmtree(par)
    os.mkdir(par)
    children = {'sib': lib.DD(SIB), 'dst': lib.DD(INIT_TREES[init_name])}
    lib.materialize(children, par)
    fs = lib.MemFs({'par5': lib.DD(children)})

    class OpError(Exception):
        pass

    def op(f):
        f.write('X')
        if op_fails:
            raise OpError()

    raised = False
    try:
        msg = file_creation.create_file(pathlib.Path(par) / 'dst' / target, op)
    except OpError:
        raised = True
        msg = None
    parts = ['par5', 'dst'] + target.split('/')
    try:
        fs.create_file(parts, 'X')
        ref_ok = True
    except lib.RefHardError:
        ref_ok = False
    after = lib.snapshot(par)
    if not ref_ok:
        return msg is not None and not raised and after == children
    if op_fails and not oracle_bug:  # (seeded oracle error: the oracle keeps the file of a failed writer)
        # the exception propagates and the file is removed again (the intermediate directories stay)
        fs2 = lib.MemFs({'par5': lib.DD(children)})
        fs2.mkdir_p(parts[:-1])
        return raised and after == fs2.root[1]['par5'][1]
    return msg is None and not raised and after == fs.root[1]['par5'][1]


# --------------------------------------------------------------------------- K6: name parts, name / path patterns

def ref_name_parts(name: str):
    """Documented division of a file name (help of `stem`, `suffixes`, `suffix`; table of examples:
    a.tar.gz -> a | .tar.gz | .gz ;  f. -> f | . | . ;  .x.y -> '' | .x.y | .y ;  f -> f | '' | ''):
    stem = up to the first '.', suffixes = from the first '.', suffix = from the last '.'."""
    first = -1
    last = -1
    i = 0
    for c in name:
        if c == '.':
            if first == -1:
                first = i
            last = i
        i += 1
    if first == -1:
        return name, '', ''
    return name[:first], name[first:], name[last:]


def _pre_k6(s) -> bool:
    if len(s) > ob.case()['maxlen']:
        return False
    for c in s:
        if c not in 'ab.':
            return False
    return True


def k6_parts(s: str) -> bool:
    """
    pre: _pre_k6(s)
    post: _
    """
    from exactly_lib.impls.types.file_matcher.impl.names import properties
    stem, suffixes, suffix = ref_name_parts(s)
    r_stem = properties.get_stem_from_name(s)
    r_suffixes = properties.get_suffixes_from_name(s)
    r_suffix = properties.get_suffix_from_name(s)
    if ob.case().get('oracle_bug'):
        suffix = suffixes  # seeded oracle error: suffix = everything from the FIRST '.'
    return ob.post(r_stem == stem and r_suffixes == suffixes and r_suffix == suffix
                   and properties.get_name_from_name(s) == s)


FIXTURES['names'] = {'a.tar.gz': F(), 'f.txt': F(), 'f': F(), 'f.': F(), '.x.y': F(), 'sub.d': D(**{'a.tar.gz': F(), 'f': D()})}

# (matcher, pattern kind, pattern)
NAME_MATCHERS = [
    ('name', 'glob', 'f'), ('name', 'glob', 'f*'), ('name', 'glob', '*.gz'), ('name', 'glob', '?.*'), ('name', 'glob', '*'),
    ('name', 'regex', '^f'), ('name', 'regex', 'tar'),
    ('stem', 'glob', 'f'), ('stem', 'glob', 'a'), ('stem', 'glob', ''), ('stem', 'glob', '*'), ('stem', 'regex', '^$'),
    ('stem', 'glob', 'sub'),
    ('suffixes', 'glob', '.tar.gz'), ('suffixes', 'glob', '.gz'), ('suffixes', 'glob', ''), ('suffixes', 'glob', '.'),
    ('suffixes', 'glob', '.*'), ('suffixes', 'regex', '^\\.x'),
    ('suffix', 'glob', '.gz'), ('suffix', 'glob', '.tar.gz'), ('suffix', 'glob', ''), ('suffix', 'glob', '.'),
    ('suffix', 'glob', '.y'), ('suffix', 'glob', '.?'), ('suffix', 'regex', 'z$'),
    ('path', 'glob', 'f'), ('path', 'glob', '*/names/f'), ('path', 'glob', 'sub.d/*'), ('path', 'glob', '*.d/f'),
    ('path', 'glob', 'names/*'), ('path', 'regex', 'sub\\.d/'), ('path', 'regex', 'names/f$'),
]


def ref_glob(pattern: str, s: str) -> bool:
    """shell pattern restricted to literals, `?` (one character) and `*` (any characters); whole-string match"""
    if pattern == '':
        return s == ''
    c = pattern[0]
    if c == '*':
        return any(ref_glob(pattern[1:], s[i:]) for i in range(len(s) + 1))
    if s == '':
        return False
    return (c == '?' or c == s[0]) and ref_glob(pattern[1:], s[1:])


def ref_path_glob(pattern: str, abs_path: str) -> bool:
    """relative pattern: matched against the last components of the path, component by component"""
    pp = pattern.split('/')
    sp = [x for x in abs_path.split('/') if x]
    if len(pp) > len(sp):
        return False
    return all(ref_glob(a, b) for a, b in zip(pp, sp[len(sp) - len(pp):]))


def _ref_name_match(m, rel: str, root: str) -> bool:
    import re
    kind, pk, pattern = m
    name = rel.split('/')[-1]
    stem, suffixes, suffix = ref_name_parts(name)
    if kind == 'path':
        subject = root + '/' + rel
        return bool(re.search(pattern, subject)) if pk == 'regex' else ref_path_glob(pattern, subject)
    subject = dict(name=name, stem=stem, suffixes=suffixes, suffix=suffix)[kind]
    return bool(re.search(pattern, subject)) if pk == 'regex' else ref_glob(pattern, subject)


def _pre_k6n(mi, neg) -> bool:
    return 0 <= mi < len(NAME_MATCHERS)


def k6_names(mi: int, neg: bool) -> bool:
    """
    pre: _pre_k6n(mi, neg)
    post: _
    """
    case = ob.case()
    i = ob.concrete_int(mi, 0, len(NAME_MATCHERS) - 1)
    negated = ob.concrete_bool(neg)
    with lib.untraced():
        ok = _run_name_matcher(NAME_MATCHERS[i], negated, case['rec'], bool(case.get('oracle_bug')))
    return ob.post(ok)


def _run_name_matcher(m, negated: bool, rec: bool, oracle_bug: bool) -> bool:
    from vsym import xly
    from exactly_lib.symbol.value_type import ValueType
    w = lib.world()
    root = fx_real('names')
    fs, entries, dirs = fx_info('names')
    kind, pk, pattern = m
    pat = "''" if pattern == '' else ("'%s'" % pattern)
    mtext = '%s %s%s' % (kind, '~ ' if pk == 'regex' else '', pat)
    if negated:
        mtext = '! ' + mtext
    listings = []
    symbols = xly.symbol_table({
        'REC': xly.matcher_symbol(xly.StubMatcher('REC', _Recorder(listings, root), []), ValueType.FILES_MATCHER)})
    text = '-rel-act names : dir-contents %s-selection %s REC' % ('-recursive ' if rec else '', mtext)
    instr = lib.parse_instruction('exists', text)
    if not instr.validate_pre_sds(w.env_pre(symbols)).is_success:
        return False
    r = instr.main(w.env_post(symbols), None, lib.os_services())
    universe = entries if rec else [e for e in entries if '/' not in e]
    if oracle_bug:
        m = ('suffixes' if kind == 'suffix' else kind, pk, pattern)  # seeded oracle error: suffix taken for suffixes
    expected = sorted(e for e in universe if _ref_name_match(m, e, root) != negated)
    return r.status.name == 'PASS' and listings == [expected]


# --------------------------------------------------------------------------- obligations

REAL_WALK = (
    'exactly_lib.impls.types.files_matcher.models._FilesGeneratorForRecursive.generate',
    'exactly_lib.impls.types.files_matcher.models._FilesGeneratorForRecursive._is_within_min_depth_limit',
    'exactly_lib.impls.types.files_matcher.models._FilesGeneratorForRecursive._is_at_max_depth_limit',
    'exactly_lib.impls.types.files_matcher.models._FilesGeneratorForNonRecursive.generate',
    'exactly_lib.impls.types.files_matcher.models._FilesMatcherModelForDir.sub_set',
    'exactly_lib.impls.types.files_matcher.models._FilesMatcherModelForDir.prune',
    'exactly_lib.impls.types.files_matcher.models._FilesMatcherModelForDir.files',
    'exactly_lib.impls.types.files_matcher.models._FilesInDir',
    'exactly_lib.impls.types.files_matcher.models._FileModelForDirEntry',
    'exactly_lib.impls.types.files_matcher.impl.prune._get_model',
    'exactly_lib.impls.types.files_matcher.impl.sub_set_selection._get_model',
    'exactly_lib.impls.types.files_matcher.impl.model_modifier_utils._ModelGetter.get_from',
    'exactly_lib.impls.types.files_matcher.parse_files_matcher._parse_selection',
    'exactly_lib.impls.types.files_matcher.parse_files_matcher._parse_prune',
    'exactly_lib.impls.types.file_matcher.parse_dir_contents_model.Parser',
    'exactly_lib.impls.types.file_matcher.impl.dir_contents._RecursiveModelConstructor.make_model',
    'exactly_lib.impls.types.file_matcher.impl.dir_contents._RecursiveModelConstructorDdv',
    'exactly_lib.impls.types.file_matcher.impl.dir_contents._NonRecursiveModelConstructor.make_model',
    'exactly_lib.impls.types.file_matcher.impl.file_contents_utils._FileContentsMatcher.matches_w_trace',
    'exactly_lib.impls.types.integer.parse_integer.validator_for_non_negative',
    'exactly_lib.impls.instructions.assert_.existence_of_file._Instruction',
    'exactly_lib.impls.instructions.assert_.existence_of_file._Assertion',
    'exactly_lib.impls.instructions.assert_.existence_of_file.Parser',
)

STUB_INT = 'python_evaluate -> placeholder table (integer literal K_i denotes the symbolic integer k_i)'
STUB_FM = ('file matchers SA/SB/PA/PB and files matcher REC of classes unknown to exactly_lib, bound to symbols; '
           'verdict per file = symbolic bool; REC records the files of its model')

OUT_WALK = ('directory trees other than the listed fixtures (the walk is by structural recursion over the tree; '
            'no induction over trees)', 'symbolic-link cycles', 'permissions, special files, concurrent modification',
            'the order in which the files of a directory are delivered (os.scandir order; the oracle compares sets)')


def _walk_name(case) -> str:
    n = case['fx']
    if not case.get('rec', True):
        n += '/nonrec'
    else:
        n += '/' + ((('min' if case.get('has_min') else '') + ('max' if case.get('has_max') else '')) or 'rec')
    if case.get('mods'):
        n += '/' + '-'.join(case['mods'])
    return n


def _walk_bound(case) -> str:
    fs, entries, dirs = fx_info(case['fx'])
    b = 'fixture %r (%d files incl. %d directories / links to directories); `%s REC`' % (
        case['fx'], len(entries), len(dirs), _model_text(case))
    if case.get('has_min') or case.get('has_max'):
        b += '; every depth limit K_i >= -99 (negative: must be a validation error)'
    if case.get('mods'):
        b += '; every verdict of every selection / prune matcher per file'
    return b


CAPACITY = {'sa': 8, 'sb': 4, 'pa': 8, 'pb': 4}


def _check_capacity(case, capacity=CAPACITY):
    """harness sanity: the fixture's files / directories fit the fixed-size verdict tuples"""
    fs, entries, dirs = fx_info(case['fx'])
    for m in tuple(case.get('mods', ())) + tuple(case.get('uses', ())):
        need = len(entries) if m in ('sa', 'sb') else len(dirs)
        if need > capacity[m]:
            raise ValueError('harness error: fixture %s needs %d verdicts for %s' % (case['fx'], need, m))


def _k1_cases(tier):
    thorough = tier == 'thorough'
    cases = []
    # depth limits only
    for fx in ['empty', 'flat', 'nest', 'links', 'deep', 'two'] + (['mix'] if thorough else []):
        cases.append(dict(fx=fx, rec=False))
        cases.append(dict(fx=fx, has_min=True, has_max=True))
        if fx in ('empty', 'flat') and not thorough:
            continue
        cases.append(dict(fx=fx))
        cases.append(dict(fx=fx, has_min=True))
        cases.append(dict(fx=fx, has_max=True))
    # selection / prune, alone and combined (both orders: "pruning is done before selection regardless of order")
    for mods in (('sa',), ('pa',), ('sa', 'pa'), ('pa', 'sa'), ('pa', 'pb')):
        cases.append(dict(fx='nest', mods=mods))
    for mods in (('pa',), ('pa', 'pb')):
        cases.append(dict(fx='two', mods=mods))
    cases.append(dict(fx='links', mods=('pa',)))
    for fx in ('nest', 'two'):
        cases.append(dict(fx=fx, mods=('pa',), has_min=True, has_max=True))
    cases.append(dict(fx='flat', mods=('sa', 'sb')))
    cases.append(dict(fx='nest', mods=('sa',), rec=False))
    cases.append(dict(fx='nest', mods=('pa',), rec=False))
    if thorough:
        for fx in ('links', 'two'):
            for mods in (('sa',), ('sa', 'pa'), ('pa', 'sa')):
                cases.append(dict(fx=fx, mods=mods))
        cases.append(dict(fx='links', mods=('pa', 'pb')))
        cases.append(dict(fx='links', mods=('pa',), has_min=True, has_max=True))
        cases.append(dict(fx='mix', mods=('pa',)))
        cases.append(dict(fx='mix', mods=('pa',), has_max=True))
        cases.append(dict(fx='nest', mods=('sa', 'pa'), has_min=True, has_max=True))
        cases.append(dict(fx='nest', mods=('pa', 'sa', 'pb'), has_max=True))
        cases.append(dict(fx='deep', mods=('pa', 'pb'), has_min=True, has_max=True))
        cases.append(dict(fx='deep', mods=('sa', 'pa')))
        cases.append(dict(fx='flat', mods=('sa', 'sb'), rec=False))
    return cases


def _walk_timeout(case) -> float:
    fs, entries, dirs = fx_info(case['fx'])
    mods = case.get('mods', ())
    bits = sum(len(entries) for m in mods if m in ('sa', 'sb')) + sum(len(dirs) for m in mods if m in ('pa', 'pb'))
    t = 60.0 * (2 ** min(bits, 7)) / 8
    if case.get('has_min') or case.get('has_max'):
        t *= 3
    return max(120.0, min(t, 3000.0))


def obligations(tier: str) -> List[Ob]:
    obs = []
    for case in _k1_cases(tier):
        _check_capacity(case)
        obs.append(Ob(name='K1:' + _walk_name(case), fn='k1_walk', case=case, kernel='K1',
                      bound=_walk_bound(case), timeout=_walk_timeout(case), real=REAL_WALK, stubs=(STUB_INT, STUB_FM),
                      outside=OUT_WALK, entry='`exists -rel-act FX : dir-contents ... REC` (assert phase instruction)'))
    obs.append(Ob(name='K1:seeded-oracle-error', fn='k1_walk',
                  case=dict(fx='nest', has_min=False, has_max=True, oracle_bug=True), kernel='K1',
                  bound='seeded oracle error: -max-depth taken as exclusive', timeout=120,
                  expect=ob.REFUTE, real=REAL_WALK))
    obs += _k2_obligations(tier)
    obs += _k7_obligations(tier)
    obs += _k3_obligations(tier)
    obs += _k4_obligations(tier)
    obs += _k5_obligations(tier)
    obs += _k6_obligations(tier)
    return obs


REAL_POP = (
    'exactly_lib.impls.instructions.multi_phase.new_dir.TheInstructionEmbryo.main',
    'exactly_lib.impls.instructions.multi_phase.new_dir.EmbryoParser',
    'exactly_lib.impls.instructions.setup.utils.instruction_from_parts.SetupPhaseInstructionFromParts',
    'exactly_lib.impls.types.files_source.impl.file_list.Primitive.populate',
    'exactly_lib.impls.types.files_source.impl.file_list._child_dp',
    'exactly_lib.impls.types.files_source.impl.file_list._IsValidPosixPath',
    'exactly_lib.impls.types.files_source.impl.file_list.FileSpecificationDdv',
    'exactly_lib.impls.types.files_source.impl.parse_file_list.Parser',
    'exactly_lib.impls.types.files_source.impl.parse_file_list.ParserOfFileSpec',
    'exactly_lib.impls.types.files_source.impl.parse_file_list.ParserOfFileMaker',
    'exactly_lib.impls.types.files_source.impl.copy_dir_contents._CopyDirContents',
    'exactly_lib.impls.types.files_source.impl.copy_dir_contents._CopyDirContentsDdv',
    'exactly_lib.impls.types.files_source.impl.parse_copy.Parser',
    'exactly_lib.impls.types.files_source.impl.file_makers.dir_.DirFileMaker',
    'exactly_lib.impls.types.files_source.impl.file_makers.regular.RegularFileMaker',
    'exactly_lib.impls.types.files_source.impl.file_makers.utils.NewFileCreator',
    'exactly_lib.impls.types.files_source.impl.file_makers.utils.ExistingFileModifier',
    'exactly_lib.impls.types.files_source.file_maker.FileMaker.make__translate_hard_error',
    'exactly_lib.impls.types.files_source.parse.FullFilesSourceParser',
)

STUB_UNTRACED = ('[selector] kernels: after the selectors have been made concrete (one path per value) the real code runs '
                 'with the CrossHair tracer suspended - every input is concrete at that point')

OUT_POP = ('initial trees with symbolic links that lead to directories outside the populated directory',
           'FILE-SPECs, names, initial trees and source directories other than the listed catalogues',
           'file contents other than short literals; string sources other than literals (C05/C14)',
           'the state of the populated directory after a HARD_ERROR (only "nothing outside it changed" is checked)',
           'permissions, special files, concurrent modification')


REAL_K2 = REAL_WALK + (
    'exactly_lib.impls.types.files_matcher.impl.num_files._PropertyGetter.get_from',
    'exactly_lib.impls.types.files_matcher.impl.emptiness._EmptinessMatcher.matches_w_trace',
    'exactly_lib.impls.types.files_matcher.impl.quant_over_files._file_elements_from_model',
    'exactly_lib.impls.types.matcher.impls.quantifier_matchers',
    'exactly_lib.impls.types.files_matcher.impl.matches.matches_full._Applier',
    'exactly_lib.impls.types.files_matcher.impl.matches.matches_non_full._Applier',
    'exactly_lib.impls.types.files_matcher.impl.matches.common._Matcher.matches_w_trace',
    'exactly_lib.impls.types.files_matcher.parse_files_matcher._parse_matches',
    'exactly_lib.impls.types.files_condition.impl.literal._DdvHelper',
    'exactly_lib.impls.types.files_condition.impl.literal._IsRelativePosixPath',
    'exactly_lib.impls.types.files_condition.parse._parse_elements',
    'exactly_lib.impls.types.file_matcher.impl.file_type.FileMatcherType.matches_w_trace',
    'exactly_lib.impls.types.files_matcher.models._FileTypeAccessForDirEntry.is_type',
    'exactly_lib.impls.types.file_matcher.file_matcher_models._FileTypeAccessForPath.is_type',
    'exactly_lib.impls.types.file_matcher.impl.file_contents_utils._FileContentsMatcher._hard_error_if_file_is_not_existing_of_expected_type',
)

M1 = dict(fx='nest', has_max=True)  # `dir-contents -recursive -max-depth K1` on fixture nest: 2, 4 or 5 files


def _k2_cases(tier):
    cases = []
    ops = ('==', '<=', '>') if tier == 'quick' else tuple(OPS)
    for op in ops:
        cases.append(('num%s/nest-max' % op, dict(M1, m=('num', op))))
    cases.append(('num==/flat-sa', dict(fx='flat', rec=False, mods=('sa',), m=('num', '=='))))
    cases.append(('num>=/links-nonrec', dict(fx='links', rec=False, m=('num', '>='))))
    cases.append(('num==/neg', dict(M1, m=('num', '=='), neg=True)))
    cases.append(('empty/nest-minmax', dict(fx='nest', has_min=True, has_max=True, m=('empty',))))
    cases.append(('empty/empty', dict(fx='empty', rec=False, m=('empty',))))
    cases.append(('empty/flat-sa/neg', dict(fx='flat', rec=False, mods=('sa',), m=('empty',), neg=True)))
    cases.append(('every/nest-max', dict(M1, m=('every', 'QB'), uses=('sb',))))
    cases.append(('any/nest-max', dict(M1, m=('any', 'QB'), uses=('sb',))))
    cases.append(('every/empty', dict(fx='empty', m=('every', 'QB'), uses=('sb',))))
    cases.append(('any/empty', dict(fx='empty', m=('any', 'QB'), uses=('sb',))))
    for t in ('file', 'dir', 'symlink'):
        cases.append(('any-type-%s/flat' % t, dict(fx='flat', rec=False, m=('any', 'type ' + t))))
        cases.append(('every-type-%s/links-sa' % t, dict(fx='links', rec=False, mods=('sa',), m=('every', 'type ' + t))))
    cases.append(('matches/nest-max', dict(M1, m=('matches', False), uses=('sb',))))
    cases.append(('matches-full/nest-max', dict(M1, m=('matches', True), uses=('sb',))))
    cases.append(('matches-full/nest-nonrec/neg', dict(fx='nest', rec=False, m=('matches', True), uses=('sb',), neg=True)))
    cases.append(('subdirs-num/two', dict(fx='two', m=('subdirs-num',))))
    if tier == 'thorough':
        cases.append(('matches/nest-minmax', dict(fx='nest', has_min=True, has_max=True, m=('matches', False), uses=('sb',))))
        cases.append(('matches-full/nest-minmax', dict(fx='nest', has_min=True, has_max=True, m=('matches', True), uses=('sb',))))
        cases.append(('every/links-rec', dict(fx='links', m=('every', 'QB'), uses=('sb',))))
        cases.append(('any/two-sa', dict(fx='two', mods=('sa',), m=('any', 'QB'), uses=('sb',))))
        for t in ('file', 'dir', 'symlink'):
            cases.append(('every-type-%s/links-rec-sa' % t, dict(fx='links', mods=('sa',), m=('every', 'type ' + t))))
        cases.append(('subdirs-num/mix', dict(fx='mix', m=('subdirs-num',))))
        cases.append(('num==/mix-minmax', dict(fx='mix', has_min=True, has_max=True, m=('num', '=='))))
    return cases


K2_SPECIAL = [
    ('notdir-file', dict(fx='links', text='-rel-act links/f : dir-contents is-empty', expect='HARD_ERROR')),
    ('notdir-broken-link', dict(fx='links', text='-rel-act links/dang : dir-contents -recursive is-empty', expect='HARD_ERROR')),
    ('link-to-dir', dict(fx='links', text='-rel-act links/ld : dir-contents num-files == K2', expect='num==', n=1)),
    ('nested-dir-contents', dict(fx='two', text='-rel-act two : dir-contents -selection name q every file : '
                                                   'dir-contents -recursive -min-depth 1 num-files == K2', expect='num==', n=1)),
    # the inner `matches` object is applied to p, q (depth 0) and then to q/r, which has no `a`
    ('nested-matches', dict(fx='two', text='-rel-act two : dir-contents -recursive -selection type dir every file : '
                                              'dir-contents matches { a }', expect='FAIL')),
    ('nested-matches-full', dict(fx='two', text='-rel-act two : dir-contents -recursive -selection type dir any file : '
                                                   'dir-contents matches -full { b }', expect='PASS')),
    ('missing', dict(fx='links', text='-rel-act links/nosuch : dir-contents is-empty', expect='FAIL')),
]


def _k2_obligations(tier):
    obs = []
    for name, case in _k2_cases(tier):
        _check_capacity(case, {'sa': 8, 'sb': 8, 'pa': 0, 'pb': 0})
        big = case['m'][0] == 'matches' or case.get('mods')
        obs.append(Ob(name='K2:' + name, fn='k2_match', case=case, kernel='K2',
                      bound='fixture %r; `%sexists P : %s %s`; every integer operand K_i (depth limits >= 0), every verdict of '
                            'the stub matchers SA / SB per file%s' % (
                                case['fx'], '! ' if case.get('neg') else '', _model_text(case),
                                _matcher_text(case['m'], 0) if case['m'][0] != 'matches' else
                                'matches %s FC' % ('-full' if case['m'][1] else ''),
                                ('; [selector] FC in a catalogue of %d FILES-CONDITIONs' % len(FC_NEST))
                                if case['m'][0] == 'matches' else ''),
                      timeout=600 if big else 300, real=REAL_K2, stubs=(STUB_INT, STUB_FM), outside=OUT_WALK,
                      entry='`[!] exists -rel-act FX : dir-contents ... FILES-MATCHER` (assert phase instruction)'))
    for name, case in K2_SPECIAL:
        obs.append(Ob(name='K2:' + name, fn='k2_special', case=case, kernel='K2',
                      bound='`exists %s`; every integer K2' % case['text'], timeout=120, real=REAL_K2,
                      stubs=(STUB_INT,), outside=OUT_WALK, entry='`exists ...` (assert phase instruction)'))
    obs.append(Ob(name='K2:seeded-oracle-error', fn='k2_match', case=dict(M1, m=('num', '=='), oracle_bug=True), kernel='K2',
                  bound='seeded oracle error: the oracle loses a file', timeout=120, expect=ob.REFUTE, real=REAL_K2))
    return obs


def _k7_obligations(tier):
    nfx = 4 if tier == 'quick' else len(K7_FIXTURES)
    nq = 2 if tier == 'quick' else len(QB_PREDICATES)
    nm = len(_k7_matchers())
    obs = []
    for rec in (False, True):
        obs.append(Ob(name='K7:reapply/%s' % ('rec' if rec else 'nonrec'), fn='k7_reapply', case=dict(rec=rec, nfx=nfx, nq=nq), kernel='K7',
                      bound='ONE primitive of `dir-contents %sM` applied to the trees T1, T2, T1 in turn, every verdict as '
                            'documented for the tree at hand: every M in a catalogue of %d files-matchers (num-files, is-empty, '
                            'every / any file, nested dir-contents, matches [-full] with the %d valid FILES-CONDITIONs), every '
                            'T1, T2 in %r, %d verdict functions of the stub matcher SB' % (
                                '-recursive ' if rec else '', nm, (nm - 10) // 2, K7_FIXTURES[:nfx], nq),
                      timeout=600, real=REAL_K2, stubs=(STUB_UNTRACED, STUB_FM), outside=OUT_WALK, selector=True,
                      entry='parse_file_matcher.parsers().full -> LogicTypeResolvingHelper.resolve_matcher (as `exists` does) '
                            '-> matches_w_trace on FileMatcherModelForDescribedPath; public form: `every file : dir-contents M`'))
    obs.append(Ob(name='K7:seeded-oracle-error', fn='k7_reapply', case=dict(rec=True, nfx=4, nq=2, oracle_bug=True), kernel='K7',
                  bound='seeded oracle error: the second verdict is that of the first tree', timeout=120,
                  expect=ob.REFUTE, real=REAL_K2, selector=True))
    return obs


def _k3_obligations(tier):
    obs = []
    cat = _entry_catalogue('thorough')
    ncat = len(cat)
    entry = '`dir -rel-act par/dst (=|+=) { FILE-SPEC... }` (setup phase instruction): validate_pre_sds, main'
    for init in INIT_TREES:
        if tier == 'quick':
            obs.append(Ob(name='K3:%s/k2' % init, fn='k3_populate', case=dict(tier='thorough', init=init, k=2), kernel='K3',
                          bound='initial tree %r; every FILE-LIST of 2 FILE-SPECs from the catalogue of %d (%d lists)' % (
                              init, ncat, ncat ** 2),
                          timeout=240, real=REAL_POP, stubs=(STUB_UNTRACED,), outside=OUT_POP, selector=True, entry=entry))
        else:
            for first in range(ncat):
                obs.append(Ob(name='K3:%s/k3/e%02d' % (init, first), fn='k3_populate',
                              case=dict(tier='thorough', init=init, k=2, first=first), kernel='K3',
                              bound='initial tree %r; every FILE-LIST of 3 FILE-SPECs from the catalogue of %d whose first '
                                    'FILE-SPEC is no. %d (%d lists)' % (init, ncat, first, ncat ** 2),
                              timeout=240, real=REAL_POP, stubs=(STUB_UNTRACED,), outside=OUT_POP, selector=True, entry=entry))
    if tier == 'thorough':
        for init in INIT_TREES:
            obs.append(Ob(name='K3:%s/k1' % init, fn='k3_populate', case=dict(tier='thorough', init=init, k=1), kernel='K3',
                          bound='initial tree %r; every FILE-LIST of 1 FILE-SPEC from the catalogue of %d' % (init, ncat),
                          timeout=120, real=REAL_POP, stubs=(STUB_UNTRACED,), outside=OUT_POP, selector=True, entry=entry))
    obs.append(Ob(name='K3:seeded-oracle-error', fn='k3_populate', case=dict(tier='thorough', init='empty', k=2, oracle_bug=True),
                  kernel='K3', bound='seeded oracle error: FILE-SPECs applied in reverse order', timeout=300,
                  expect=ob.REFUTE, real=REAL_POP, selector=True))
    return obs


def _k4_obligations(tier):
    obs = []
    variants = [('file', '=', 'absent'), ('dir', None, 'empty'), ('file', '+=', 'file-a'), ('dir', '+=', 'dir-a')]
    max_n = 3 if tier == 'quick' else 5
    for kind, mod, init in variants:
        for n in range(0, max_n + 1):
            if n > 3 and (kind, mod) not in (('file', '='), ('dir', None)):
                continue
            obs.append(Ob(name='K4:%s%s/%s/n%d' % (kind, mod or '', init, n), fn='k4_names',
                          case=dict(kind=kind, mod=mod, init=init, n=n), kernel='K4',
                          bound='`%s NAME%s` into initial tree %r: every NAME of exactly %d characters over {a . / :}' % (
                              kind, (' %s ...' % mod) if mod else '', init, n),
                          timeout=300, real=REAL_POP, stubs=(STUB_UNTRACED,), outside=OUT_POP, selector=True,
                          entry='`dir -rel-act par/dst (=|+=) { FILE-SPEC }`'))
    obs.append(Ob(name='K4:seeded-oracle-error', fn='k4_names', case=dict(kind='file', mod=None, init='empty', n=2, oracle_bug=True),
                  kernel='K4', bound='seeded oracle error: the oracle accepts `..`', timeout=120,
                  expect=ob.REFUTE, real=REAL_POP, selector=True))
    return obs


def selftest(tier) -> int:
    """Concrete comparison of the reference model (MemFs, ref_listing, mkdir_p, name rules) with the real file
    system / os.walk / os.makedirs / pathlib.  (exactly_lib is not involved: that is what the obligations are for.)"""
    import itertools
    import shutil
    from pathlib import PurePosixPath
    from vsym import scratch
    n = 0
    base = scratch.new_dir('c15st')
    try:
        trees = dict(FIXTURES)
        for k, v in INIT_TREES.items():
            if v is not None:
                trees['init-' + k] = v
        for name, children in trees.items():
            root = os.path.join(base, name)
            os.mkdir(root)
            lib.materialize(children, root)
            if lib.snapshot(root) != children:
                raise AssertionError('materialize/snapshot round trip differs for %s' % name)
            fs = lib.MemFs({name: lib.DD(children)})
            # every path of <= 3 components over the names occurring in the tree (+ one that does not occur)
            names = set(['zz'])

            def collect(ch):
                for k2, v2 in ch.items():
                    names.add(k2)
                    if v2[0] == 'd':
                        collect(v2[1])

            collect(children)
            for depth in (1, 2, 3):
                for parts in itertools.product(sorted(names), repeat=depth):
                    p = os.path.join(root, *parts)
                    got = (fs.is_dir([name] + list(parts)), fs.is_file([name] + list(parts)),
                           fs.exists_nofollow([name] + list(parts)))
                    exp = (os.path.isdir(p), os.path.isfile(p), os.path.lexists(p))
                    if got != exp:
                        raise AssertionError('MemFs differs from the file system at %s/%s: %r vs %r' % (
                            name, '/'.join(parts), got, exp))
                    n += 1
            # the walk
            real = []
            for dirpath, dirnames, filenames in os.walk(root, followlinks=True):
                for x in dirnames + filenames:
                    real.append(os.path.relpath(os.path.join(dirpath, x), root))
            for lo in (None, 0, 1, 2, 3):
                for hi in (None, 0, 1, 2, 3):
                    exp = sorted(r for r in real if (lo is None or r.count('/') >= lo) and (hi is None or r.count('/') <= hi))
                    got = lib.ref_listing(fs, [name], True, lo, hi, _false, _true)
                    if got != exp:
                        raise AssertionError('ref_listing differs from os.walk for %s [%r,%r]: %r vs %r' % (name, lo, hi, got, exp))
                    n += 1
            if lib.ref_listing(fs, [name], False, None, None, _false, _true) != sorted(os.listdir(root)):
                raise AssertionError('non-recursive listing differs for %s' % name)
            # mkdir_p against os.makedirs
            for depth in (1, 2, 3):
                for parts in itertools.product(sorted(names), repeat=depth):
                    work = os.path.join(base, 'work')
                    if os.path.exists(work):
                        shutil.rmtree(work)
                    os.mkdir(work)
                    lib.materialize(children, work)
                    fs2 = lib.MemFs({'work': lib.DD(children)})
                    try:
                        os.makedirs(os.path.join(work, *parts), exist_ok=True)
                        real_ok = True
                    except OSError:
                        real_ok = False
                    try:
                        fs2.mkdir_p(['work'] + list(parts))
                        ref_ok = True
                    except lib.RefHardError:
                        ref_ok = False
                    if real_ok != ref_ok or (real_ok and lib.snapshot(work) != fs2.root[1]['work'][1]):
                        raise AssertionError('mkdir_p differs from os.makedirs for %s + %s' % (name, '/'.join(parts)))
                    n += 1
        # FILE-NAME rules against pathlib
        for ln in range(0, 6):
            for cs in itertools.product(NAME_ALPHABET, repeat=ln):
                nm = ''.join(cs)
                pp = PurePosixPath(nm)
                exp_invalid = nm == '' or ':' in nm or ';' in nm or pp.is_absolute() or '..' in pp.parts
                if lib.name_is_invalid(nm) != exp_invalid:
                    raise AssertionError('name_is_invalid(%r)' % nm)
                if not exp_invalid and tuple(lib.name_parts(nm)) != pp.parts:
                    raise AssertionError('name_parts(%r)' % nm)
                n += 1
    finally:
        scratch.remove(base)
    return n


REAL_K5 = ('exactly_lib.impls.file_creation.create_file', 'exactly_lib.impls.file_creation._create_file',
           'exactly_lib.util.file_utils.ensure_file_existence.ensure_directory_exists_as_a_directory')


def _k5_obligations(tier):
    obs = []
    for init in INIT_TREES:
        if INIT_TREES[init] is None:
            continue
        obs.append(Ob(name='K5:' + init, fn='k5_create_file', case=dict(init=init), kernel='K5',
                      bound='file_creation.create_file(<dst>/T, op) on initial tree %r: every T in %r, op succeeds / raises' % (
                          init, K5_TARGETS),
                      timeout=120, real=REAL_K5, stubs=(STUB_UNTRACED,), outside=OUT_POP, selector=True,
                      entry='exactly_lib.impls.file_creation.create_file'))
    obs.append(Ob(name='K5:seeded-oracle-error', fn='k5_create_file', case=dict(init='dir-d', oracle_bug=True), kernel='K5',
                  bound='seeded oracle error: the file of a failed writer is kept', timeout=120, expect=ob.REFUTE, real=REAL_K5, selector=True))
    return obs


REAL_K6 = (
    'exactly_lib.impls.types.file_matcher.impl.names.properties.get_stem_from_name',
    'exactly_lib.impls.types.file_matcher.impl.names.properties.get_suffixes_from_name',
    'exactly_lib.impls.types.file_matcher.impl.names.properties.get_suffix_from_name',
    'exactly_lib.impls.types.file_matcher.impl.names.properties.get_name_from_name',
)
REAL_K6N = REAL_K6 + (
    'exactly_lib.impls.types.file_matcher.impl.names.properties.NamePartAsStrPropertyGetter.get_from',
    'exactly_lib.impls.types.file_matcher.impl.names.properties.WholePathAsPathPropertyGetter.get_from',
    'exactly_lib.impls.types.file_matcher.impl.names.properties.WholePathAsStrPropertyGetter.get_from',
    'exactly_lib.impls.types.file_matcher.impl.names.parse.parser_for_name_part',
    'exactly_lib.impls.types.file_matcher.impl.names.parse.parser',
    'exactly_lib.impls.types.file_matcher.impl.names.parsers',
    'exactly_lib.impls.types.file_matcher.impl.names.sdv.glob_pattern_sdv__str',
    'exactly_lib.impls.types.file_matcher.impl.names.sdv.glob_pattern_sdv',
    'exactly_lib.impls.types.file_matcher.impl.names.sdv.reg_ex_sdv',
    'exactly_lib.impls.types.matcher.impls.matches_glob_pattern._match_str',
    'exactly_lib.impls.types.matcher.impls.matches_glob_pattern._match_path',
)


def _k6_obligations(tier):
    maxlen = 5 if tier == 'quick' else 7
    obs = [Ob(name='K6:parts', fn='k6_parts', case=dict(maxlen=maxlen), kernel='K6',
              bound='every file name of <= %d characters over {a b .}: stem / suffixes / suffix / name as documented' % maxlen,
              timeout=600 if tier == 'quick' else 2400, real=REAL_K6,
              outside=('names over other alphabets (the functions only distinguish `.` from other characters)',),
              entry='names.properties.get_*_from_name (the property getters of the matchers name, stem, suffixes, suffix)'),
           Ob(name='K6:parts/seeded-oracle-error', fn='k6_parts', case=dict(maxlen=4, oracle_bug=True), kernel='K6',
              bound='seeded oracle error: suffix taken from the first `.`', timeout=120, expect=ob.REFUTE, real=REAL_K6)]
    for rec in (False, True):
        obs.append(Ob(name='K6:names/%s' % ('rec' if rec else 'nonrec'), fn='k6_names', case=dict(rec=rec), kernel='K6',
                      bound='fixture `names` (the file names of the help text\'s table + a sub directory); '
                            '`dir-contents %s-selection [!] M REC` for every M in a catalogue of %d name / stem / suffixes / '
                            'suffix / path matchers (glob and `~` regex)' % ('-recursive ' if rec else '', len(NAME_MATCHERS)),
                      timeout=120, real=REAL_K6N, stubs=(STUB_UNTRACED, STUB_FM),
                      outside=('glob patterns beyond literals, `?`, `*`; the semantics of `re` and `fnmatch` themselves',
                               'file names other than those of the fixture'),
                      selector=True, entry='`exists -rel-act names : dir-contents ... -selection M REC`'))
    obs.append(Ob(name='K6:names/seeded-oracle-error', fn='k6_names', case=dict(rec=True, oracle_bug=True), kernel='K6',
                  bound='seeded oracle error: `suffix` taken for `suffixes`', timeout=120, expect=ob.REFUTE, real=REAL_K6N,
                  selector=True))
    return obs


ASSUMPTIONS = [
    'integer literals are evaluated by a stub of python_evaluate that maps the placeholder names K0.. to symbolic '
    'integers (contract: an integer literal denotes its integer); eval itself is a C boundary',
    'selection / prune / quantified matchers are stub FileMatchers bound to symbols; their verdict per file is an '
    'arbitrary boolean; the files matcher REC records the files of the model it is applied to',
    'file names, file contents and the shape of the directory trees are concrete (they cross the OS boundary): the '
    'trees, FILE-SPECs, FILES-CONDITIONs and patterns come from the catalogues in this module; in the [selector] '
    'kernels (K3, K4, K5, K6:names) the real code runs with the CrossHair tracer suspended once every selector is a '
    'concrete int (harness/_C15_lib.untraced): CrossHair contributes the exhaustive enumeration of the selector space',
    'the reference model of the file system (harness/_C15_lib.MemFs: regular files, directories, symbolic links that are '
    'followed, broken links) is compared with the real file system / os.walk / os.makedirs / pathlib by the self-test',
    'tool work-around: CrossHair is kept from "short-circuiting" its own contract-carrying replacement of builtin hash() '
    '(harness/_C15_lib._chfix_hash_contract); the real hash is always computed - nothing is assumed',
    'depth limits below -99 are not explored in K1 (the validator renders the rejected number: unboundedly many digits); '
    'K2 assumes the depth limits >= 0, the validity that K1 shows validation to enforce',
]

OUTSIDE = [
    'permissions, special files (fifo, device), concurrent modification of the tree, symbolic-link cycles',
    'trees / FILE-LISTs / FILES-CONDITIONs / names / patterns outside the stated catalogues and bounds (no induction over '
    'trees or lists)',
    'initial trees with symbolic links that lead to directories OUTSIDE the populated directory (links are followed, so '
    '`file link/x` then creates outside it)',
    'the `contents` file matcher and string sources other than short literals (texts: C05 / C14)',
    'the state of the populated directory after a HARD_ERROR',
    'the order in which the files of a directory are visited',
]
