"""C09 K6: a quoted token is a plain string, never syntax.

Documented (help: `string`, "Reserved words"; every syntax description of options / keywords): options
(`-contents-of`), keywords and operators (`)`, `&&`, `||`, `!`, `:>`, `<<MARKER`, the list continuation
backslash) and reserved words have their meaning only when written unquoted; "to use any of them as a
string, it must be quoted".  So for a syntax word W

    W        (naked)        is the syntax element
    "W" 'W'  (quoted)       is the string W - at every position, whatever W is

Two drivers, both on the REAL code, text concrete per path (selectors: word, quoting, position):

  recognizers   every way the token layer recognises a word (token matchers, TokenParser keyword / option
                methods): recognised <=> the token is the naked word; a recognised word is consumed (where
                the method consumes), anything else is left in the stream
  positions     the real parsers at positions where an option / marker is accepted (STRING-SOURCE, program
                argument list, program executable, string transformers, RICH-STRING): the quoted word is
                parsed exactly as any other quoted word of the same shape (metamorphic), gives the string
                value W where a string is accepted, and leaves what follows untouched; the naked word is
                not parsed as a string
"""
import contextlib

SOFT = '"'
HARD = "'"
QUOTINGS = ('', SOFT, HARD)  # selector q


def untraced():
    """Context manager: suspends CrossHair's tracing for all-concrete work (a no-op on plain CPython)."""
    try:
        from crosshair.tracers import NoTracing, is_tracing
    except ImportError:
        return contextlib.nullcontext()
    return NoTracing() if is_tracing() else contextlib.nullcontext()


def quoted(word: str, q: int) -> str:
    return QUOTINGS[q] + word + QUOTINGS[q]


def neutral(word: str) -> str:
    """a word of the same length that is syntax nowhere"""
    return 'x' + word[1:] if len(word) > 1 else 'x'


# =========================================================================== recognizers

OPTION_WORDS = ('-contents-of', '-existing-file', '-python', '-to-upper', '-line-nums', '-rel-act', '-ignore-case',
                '-x')
KEY_WORDS = (')', '(', '&&', '||', '!', '=', ':', '|', '[', ']', ':>', '<<EOF', '\\', 'not', 'equals')
WORDS = OPTION_WORDS + KEY_WORDS
RESERVED = ('(', ')', '[', ']', '{', '}', '=', '|', ':', '!', '&&', '||')


def _tp(text: str):
    from exactly_lib.section_document.element_parsers.token_stream_parser import new_token_parser
    return new_token_parser(text)


def _stands_at(tp, k: int, tokens) -> bool:
    """the stream's head is the k-th of `tokens` [(string, source_string)] (or there is none)"""
    ts = tp.token_stream
    if k >= len(tokens):
        return ts.is_null
    h = ts.head
    return h is not None and (h.string, h.source_string) == tokens[k]


def recognizers_ok(word: str, q: int, seeded_error: bool = False) -> bool:
    """Text `<word in quoting q> t`: every recognizer says "this is the syntax word" iff q is naked."""
    from exactly_lib.definitions.test_case import reserved_tokens
    from exactly_lib.impls.types.string_ import parse_rich_string
    from exactly_lib.impls.types.string_.syntax_elements import TEXT_UNTIL_EOL_TOKEN_MATCHER
    from exactly_lib.section_document.element_parsers import misc_utils
    from exactly_lib.section_document.element_parsers.instruction_parser_exceptions import \
        SingleInstructionInvalidArgumentException as SIIAE
    from exactly_lib.type_val_deps.types.list_ import defs as list_defs
    from exactly_lib.util.cli_syntax.elements.argument import OptionName, Option
    from exactly_lib.util.parse import token_matchers

    first = quoted(word, q)
    text = first + ' t'
    tokens = [(word, first), ('t', 't')]
    naked = q == 0
    is_syntax = naked or (seeded_error and q == 1)  # seeded oracle error: soft quotes do not protect
    verdicts = []  # (recognizer, verdict) ; every verdict must equal is_syntax (or the stated condition)

    def consuming(name, fn, want=None):
        """fn(token parser) -> recognised? ; afterwards the stream stands after / at the first token"""
        tp = _tp(text)
        r = bool(fn(tp))
        w = is_syntax if want is None else want
        if r != w or not _stands_at(tp, 1 if r else 0, tokens):
            verdicts.append((name, False))

    def mandatory(name, fn):
        """fn(token parser) succeeds iff the word is syntax, otherwise SingleInstructionInvalidArgumentException"""
        tp = _tp(text)
        try:
            fn(tp)
            ok = is_syntax and _stands_at(tp, 1, tokens)
        except SIIAE:
            ok = not is_syntax
        if not ok:
            verdicts.append((name, False))

    head = _tp(text).head
    # --- token matchers
    for name, m, want in (
            ('is_unquoted_and_equals', token_matchers.is_unquoted_and_equals(word), is_syntax),
            ('is_unquoted_and_equals_any', token_matchers.is_unquoted_and_equals_any(['zz', word]), is_syntax),
            ('IS_RESERVED_WORD', reserved_tokens.IS_RESERVED_WORD, is_syntax and word in RESERVED),
            ('IS_PAREN__END', reserved_tokens.IS_PAREN__END, is_syntax and word == ')'),
            ('list stop token', list_defs.IS_STOP_AT_TOKEN, is_syntax and word == ')'),
            ('here-doc marker', parse_rich_string.HereDocArgTokenMatcher(), is_syntax and word[:2] == '<<'),
            ('text-until-eol marker', TEXT_UNTIL_EOL_TOKEN_MATCHER, is_syntax and word == ':>'),
    ):
        if bool(m.matches(head)) != want:
            verdicts.append((name, False))
    if bool(misc_utils.is_option_token(head)) != (is_syntax and word[0] == '-'):
        verdicts.append(('is_option_token', False))
    # --- TokenParser: keywords
    tp = _tp(text)
    if bool(tp.head_is_unquoted_and_equals(word)) != is_syntax:
        verdicts.append(('head_is_unquoted_and_equals', False))
    if bool(tp.has_valid_head_matching(token_matchers.is_unquoted_and_equals(word))) != is_syntax:
        verdicts.append(('has_valid_head_matching', False))
    if not _stands_at(tp, 0, tokens):
        verdicts.append(('peeking consumed', False))
    consuming('has_valid_head_matching__consume',
              lambda p: p.has_valid_head_matching__consume(token_matchers.is_unquoted_and_equals(word)))
    consuming('consume_and_return_true_if_first_argument_is_unquoted_and_equals',
              lambda p: p.consume_and_return_true_if_first_argument_is_unquoted_and_equals(word))
    consuming('consume_optional_constant_string_that_must_be_unquoted_and_equal',
              lambda p: p.consume_optional_constant_string_that_must_be_unquoted_and_equal(['zz', word]) == word)
    consuming('parse_optional_command',
              lambda p: p.parse_optional_command({word: lambda pp: 'cmd', 'zz': lambda pp: 'other'}) == 'cmd')
    consuming('parse_default_or_optional_command',
              lambda p: p.parse_default_or_optional_command(lambda pp: 'default', {word: lambda pp: 'cmd'}) == 'cmd')
    mandatory('consume_mandatory_keyword', lambda p: p.consume_mandatory_keyword(word, False))
    mandatory('consume_mandatory_constant_unquoted_string',
              lambda p: p.consume_mandatory_constant_unquoted_string(word, False))
    mandatory('consume_mandatory_constant_string_that_must_be_unquoted_and_equal',
              lambda p: p.consume_mandatory_constant_string_that_must_be_unquoted_and_equal([word], lambda x: x))
    mandatory('parse_mandatory_command', lambda p: p.parse_mandatory_command({word: lambda pp: 'cmd'}, 'CMD'))
    if word == '!':
        from exactly_lib.util import logic_types
        consuming('consume_optional_negation_operator',
                  lambda p: p.consume_optional_negation_operator() is logic_types.ExpectationType.NEGATIVE)
    # --- options
    if word[0] == '-':
        name = OptionName(word[1:])
        if bool(token_matchers.is_option(name).matches(head)) != is_syntax:
            verdicts.append(('token_matchers.is_option', False))
        tp = _tp(text)
        if bool(tp.head_matches(name)) != is_syntax or not _stands_at(tp, 0, tokens):
            verdicts.append(('head_matches', False))
        consuming('has_valid_head_matching__consume(is_option)',
                  lambda p: p.has_valid_head_matching__consume(token_matchers.is_option(name)))
        consuming('consume_optional_option', lambda p: p.consume_optional_option(name))
        consuming('consume_and_handle_first_matching_option',
                  lambda p: p.consume_and_handle_first_matching_option(False, lambda k: k == 'K',
                                                                       [('Z', OptionName('zz')), ('K', name)]))
        consuming('consume_and_handle_first_matching_option_2',
                  lambda p: p.consume_and_handle_first_matching_option_2(False, [(Option(name), lambda a: True)]))
        consuming('consume_and_handle_optional_option',
                  lambda p: p.consume_and_handle_optional_option(False, lambda pp: True, name))
        consuming('parse_choice_of_optional_option',
                  lambda p: p.parse_choice_of_optional_option(lambda pp: True, lambda pp: False, name))
        mandatory('parse_mandatory_option', lambda p: p.parse_mandatory_option({name: lambda pp: True}))
        # an option with an argument takes the following token as its argument
        tp = _tp(text)
        arg = tp.consume_optional_option_with_mandatory_argument(Option(name, 'ARG'))
        if is_syntax:
            ok = arg is not None and arg.string == 't' and tp.token_stream.is_null
        else:
            ok = arg is None and _stands_at(tp, 0, tokens)
        if not ok:
            verdicts.append(('consume_optional_option_with_mandatory_argument', False))
    return len(verdicts) == 0


# =========================================================================== positions

class Position:
    def __init__(self, name, words, prefix, tail, parser, observe, expected_when_quoted):
        self.name = name
        self.words = words
        self.prefix = prefix  # word -> text before the word
        self.tail = tail  # text after the word
        self.parser = parser  # () -> object with parse_from_token_parser
        self.observe = observe  # parsed object -> comparable observation
        self.expected_when_quoted = expected_when_quoted  # (word, quoted word) -> outcome


def _no_tmp_app_env():
    from exactly_lib.test_case.app_env import ApplicationEnvironment
    return ApplicationEnvironment(None, None, None, 2 ** 10)


def _symbols():
    from exactly_lib.util.symbol_table import SymbolTable
    return SymbolTable({})


def _obs(fn):
    """observation that may fail (values that depend on directories, program output ...): the failure
    class is the observation"""

    def f(x):
        try:
            return fn(x)
        except Exception as e:  # noqa
            return 'unobservable:' + type(e).__name__

    return f


def _string_source_text(sdv):
    return sdv.resolve(_symbols()).value_of_any_dependency(None).primitive(_no_tmp_app_env()).contents().as_str


def _arguments(sdv):
    return tuple(sdv.arguments_list.resolve(_symbols()).value_when_no_dir_dependencies())


def _path(sdv):
    ddv = sdv.resolve(_symbols())
    return (str(ddv.path_suffix().value()), bool(ddv.relativity().is_absolute))


def _transformer(sdv):
    p = sdv.resolve(_symbols()).value_of_any_dependency(None).primitive(None)
    return type(p).__name__


def _string(sdv):
    return sdv.resolve(_symbols()).value_when_no_dir_dependencies()


def _ok(end, state, head, value):
    return ('ok', end, state, head, value)


SYNTAX_ERROR = ('syntax-error',)


def positions():
    from exactly_lib.impls.types.program.parse import parse_arguments, parse_executable_file_path
    from exactly_lib.impls.types.string_ import parse_rich_string
    from exactly_lib.impls.types.string_source import parse as ss_parse
    from exactly_lib.impls.types.string_transformer import parse_string_transformer
    return [
        # STRING-SOURCE = [OPTION ...] | RICH-STRING : the quoted word is the text itself, `t` follows
        Position('string-source', ('-contents-of', '-stdout-from', '-stderr-from'), lambda w: '', ' t',
                 lambda: ss_parse.default_parser_for(False), _obs(_string_source_text),
                 lambda w, qw: _ok(len(qw) + 1, 'HAS_TOKEN', 't', w)),
        # program argument list: three arguments
        Position('program-arguments', ('-existing-file', '-existing-dir', '-existing-path'), lambda w: 'a ', ' t',
                 lambda: parse_arguments.parser(), _obs(_arguments),
                 lambda w, qw: _ok(len(qw) + 2, 'NULL', None, ('a', w, 't'))),
        # program executable: a file named W
        Position('executable', ('-python',), lambda w: '', ' t',
                 lambda: parse_executable_file_path.parser(), _obs(_path),
                 lambda w, qw: _ok(len(qw) + 1, 'HAS_TOKEN', 't', (w, False))),
        # string transformers: a quoted word is no option - mandatory option missing / not an argument of `strip`
        Position('transformer-option',
                 ('-to-upper', '-to-lower', '-line-nums', '-trailing-space', '-trailing-new-lines'),
                 lambda w: {'-to': 'char-case ', '-li': 'filter ', '-tr': 'strip '}[w[:3]], ' 1',
                 lambda: parse_string_transformer.parsers().full, _obs(_transformer),
                 lambda w, qw: (_ok(0, 'HAS_TOKEN', qw, '_StripWhiteSpaceTransformer') if w[:3] == '-tr'
                                else SYNTAX_ERROR)),
        # RICH-STRING: a quoted here-document marker / text-until-end-of-line marker is that string
        Position('rich-string', ('<<EOF', ':>'), lambda w: '', ' t',
                 lambda: parse_rich_string.RichStringParser(), _obs(_string),
                 lambda w, qw: _ok(len(qw) + 1, 'HAS_TOKEN', 't', w)),
    ]


POSITION_NAMES = ('string-source', 'program-arguments', 'executable', 'transformer-option', 'rich-string')
N_WORDS = {'string-source': 3, 'program-arguments': 3, 'executable': 1, 'transformer-option': 5, 'rich-string': 2}

POSITION_WORDS = {
    'string-source': ('-contents-of', '-stdout-from', '-stderr-from'),
    'program-arguments': ('-existing-file', '-existing-dir', '-existing-path'),
    'executable': ('-python',),
    'transformer-option': ('-to-upper', '-to-lower', '-line-nums', '-trailing-space', '-trailing-new-lines'),
    'rich-string': ('<<EOF', ':>'),
}


def position_words(name: str):
    return POSITION_WORDS[name]


_POSITIONS = None


def position(name: str) -> Position:
    global _POSITIONS
    if _POSITIONS is None:
        _POSITIONS = {p.name: p for p in positions()}
        for n, p in _POSITIONS.items():
            assert tuple(p.words) == POSITION_WORDS[n] and len(p.words) == N_WORDS[n], n
    return _POSITIONS[name]


def outcome(pos: Position, word: str, written: str):
    """parse `prefix(word) + written + tail` at the position -> comparable outcome"""
    from exactly_lib.section_document.element_parsers.instruction_parser_exceptions import \
        SingleInstructionInvalidArgumentException as SIIAE
    text = pos.prefix(word) + written + pos.tail
    tp = _tp(text)
    try:
        x = pos.parser().parse_from_token_parser(tp)
    except SIIAE:
        return SYNTAX_ERROR
    ts = tp.token_stream
    return ('ok', ts.position - len(pos.prefix(word)), ts.look_ahead_state.name,
            ts.head.source_string if ts.head is not None else None, pos.observe(x))


def _subst(x, old: str, new: str):
    if isinstance(x, str):
        return x.replace(old, new)
    if isinstance(x, tuple):
        return tuple(_subst(e, old, new) for e in x)
    return x


def position_ok(pos_name: str, w: int, q: int, seeded_error: bool = False) -> bool:
    pos = position(pos_name)
    word = pos.words[w]
    n = neutral(word)
    got = outcome(pos, word, quoted(word, q))
    as_neutral = _subst(outcome(pos, word, quoted(n, q)), n, word)
    if q == 0 and not seeded_error:
        # the naked word is the syntax element: not read as the string any other word is
        return got != as_neutral
    # a quoted word: like any other quoted word, and with the documented result
    return got == as_neutral and got == pos.expected_when_quoted(word, quoted(word, q))
