"""C01  Phased execution protocol: fixed order, halt at first failure, cleanup runs.

K1  The real `full_execution.execution.execute` on a test case of stub instructions + stub
    actor (vsym.exeharness).  Symbolic: which cell holds the first fault (index into the
    cells of one step family), its kind, the kind injected at EVERY later non-cleanup cell
    (so that a step wrongly executed after the first fault is seen both in the trace and as a
    second fault), the position and kind of a failing cleanup instruction, the test-case
    status, --keep, the exit code selector of the action to check.
    Concrete per obligation: numbers of instructions per phase, the step family of the first
    fault.
    Oracle: an independent model of the documented protocol (below), written from the
    reference manual's description of phases / steps — not from the executor's code.
"""
from typing import List, Optional, Tuple

from vsym import ob
from vsym.ob import Ob

PROPERTY = 'C01'

EXIT_CODES = (0, 1, 2, 127, 255)

REAL = (
    'exactly_lib.execution.full_execution.execution.execute',
    'exactly_lib.execution.full_execution.execution.execute_configuration_phase',
    'exactly_lib.execution.full_execution.result.translate_status',
    'exactly_lib.execution.partial_execution.execution.execute',
    'exactly_lib.execution.partial_execution.impl.executor._PartialExecutor.execute',
    'exactly_lib.execution.partial_execution.impl.executor._PartialExecutor._sequence_with_cleanup',
    'exactly_lib.execution.partial_execution.impl.executor._PartialExecutor._continue_from_before_assert',
    'exactly_lib.execution.partial_execution.impl.executor._PartialExecutor._finish_with_cleanup_phase',
    'exactly_lib.execution.partial_execution.impl.executor.parse_atc_and_validate_symbols',
    'exactly_lib.execution.partial_execution.impl.symbol_validation.SymbolsValidator.validate',
    'exactly_lib.execution.partial_execution.impl.atc_execution.ActionToCheckExecutor',
    'exactly_lib.execution.partial_execution.impl.act_helper.ActHelper.parse',
    'exactly_lib.execution.impl.phase_step_execution.execute_phase_prim',
    'exactly_lib.execution.impl.phase_step_execution.run_instructions_phase_step',
    'exactly_lib.execution.impl.phase_step_execution.execute_action_and_catch_internal_error_exception',
    'exactly_lib.execution.impl.single_instruction_executor.execute_element',
    'exactly_lib.execution.impl.phase_step_executors',
    'exactly_lib.execution.impl.symbol_validation.validate_symbol_usages',
)

STUBS = ('stub instructions / actor subclassing the public base classes (the programs quantified over)',
         'deterministic sandbox_root_dir_resolver (exactly_lib configuration hook) under a scratch dir')

# ----------------------------------------------------------------------------- the documented protocol (oracle)

FAMILIES = ('conf', 'parse', 'sym', 'pre', 'setup-main', 'post', 'exe-input', 'prepare', 'execute', 'ba-main', 'assert-main')


_CANON = {}


def canonical(n) -> List[Tuple[tuple, str]]:
    """All non-cleanup-main cells in the documented order, each with its family (cached per n)."""
    n = tuple(n)
    if n not in _CANON:
        _CANON[n] = _canonical(n)
    return _CANON[n]


def _canonical(n) -> List[Tuple[tuple, str]]:
    nconf, nsetup, nba, nassert, ncleanup = n
    cells = []
    for i in range(nconf):
        cells.append((('conf', 'main', i), 'conf'))
    cells.append((('act', 'parse', 0), 'parse'))
    # 1. symbols of every phase, in execution order of the phases
    for i in range(nsetup):
        cells.append((('setup', 'sym', i), 'sym'))
    cells.append((('act', 'sym', 0), 'sym'))
    for i in range(nba):
        cells.append((('ba', 'sym', i), 'sym'))
    for i in range(nassert):
        cells.append((('assert', 'sym', i), 'sym'))
    for i in range(ncleanup):
        cells.append((('cleanup', 'sym', i), 'sym'))
    # 2. pre-sandbox validation of every phase
    for i in range(nsetup):
        cells.append((('setup', 'pre', i), 'pre'))
    cells.append((('act', 'pre', 0), 'pre'))
    for i in range(nba):
        cells.append((('ba', 'pre', i), 'pre'))
    for i in range(nassert):
        cells.append((('assert', 'pre', i), 'pre'))
    for i in range(ncleanup):
        cells.append((('cleanup', 'pre', i), 'pre'))
    # ---- sandbox is created here ----
    for i in range(nsetup):
        cells.append((('setup', 'main', i), 'setup-main'))
    for i in range(nsetup):
        cells.append((('setup', 'post', i), 'post'))
    cells.append((('act', 'post', 0), 'post'))
    for i in range(nba):
        cells.append((('ba', 'post', i), 'post'))
    for i in range(nassert):
        cells.append((('assert', 'post', i), 'post'))
    if nsetup > 0:
        # validation of the input to the action to check (the stdin object that [setup] stored in the settings);
        # the stub world has such an object iff it has a setup instruction (the first one stores it)
        cells.append((('act', 'exe-input', 0), 'exe-input'))
    cells.append((('act', 'prepare', 0), 'prepare'))
    cells.append((('act', 'execute', 0), 'execute'))
    for i in range(nba):
        cells.append((('ba', 'main', i), 'ba-main'))
    for i in range(nassert):
        cells.append((('assert', 'main', i), 'assert-main'))
    return cells


PRE_SANDBOX_FAMILIES = ('conf', 'parse', 'sym', 'pre')

PREVIOUS_PHASE_NAME = {'setup-main': 'SETUP', 'post': 'SETUP', 'exe-input': 'SETUP', 'prepare': 'SETUP', 'execute': 'ACT',
                       'ba-main': 'BEFORE_ASSERT', 'assert-main': 'ASSERT', None: 'ASSERT'}


def valid_kinds(cell) -> Tuple[int, ...]:
    phase, step, _ = cell
    if step == 'sym' or step == 'parse':
        return (1, 3, 4)
    if step in ('pre', 'post') or phase == 'conf':
        return (1, 2, 3, 4)
    if phase == 'assert' and step == 'main':
        return (2, 3, 4, 5)
    return (2, 3, 4)


def partial_status_name(cell, kind: int) -> str:
    if kind == 1:
        return 'SYNTAX_ERROR' if cell[1] == 'parse' else 'VALIDATION_ERROR'
    if kind == 2 or kind == 3:
        return 'HARD_ERROR'
    if kind == 4:
        return 'INTERNAL_ERROR'
    return 'FAIL'


PHASE_IDENT = {'conf': 'conf', 'setup': 'setup', 'act': 'act', 'ba': 'before-assert', 'assert': 'assert',
               'cleanup': 'cleanup'}
STEP_IDENT = {'sym': '1:validate-symbols', 'pre': '2:validate-pre-sds', 'post': '3:validate-post-setup',
              'main': '9:main', 'parse': '0:act-parse', 'exe-input': '4:act-validate-exe-input', 'prepare': '5:act-prepare', 'execute': '6:act-execute'}


def full_status_name(mode: int, partial: Optional[str]) -> str:
    """mode: 0 PASS, 1 FAIL (expected to fail); the outcome table of the manual."""
    if mode == 1:
        if partial == 'FAIL':
            return 'XFAIL'
        if partial is None:
            return 'XPASS'
    return 'PASS' if partial is None else partial


class Expected:
    pass


def expected(n, f1: int, f1k: int, cpos: int, ck: int, mode: int) -> Expected:
    e = Expected()
    cells = canonical(n)
    ncleanup = n[4]
    e.trace = []
    e.first = None
    fam = None
    if mode == 2:  # SKIP: the configuration phase runs, then nothing
        for c, f in cells:
            if f != 'conf':
                break
            e.trace.append(c)
            if f1 >= 0 and cells[f1][0] == c:
                e.first = (c, f1k)
                fam = f
                break
    else:
        for idx, (c, f) in enumerate(cells):
            e.trace.append(c)
            if idx == f1:
                e.first = (c, f1k)
                fam = f
                break
    e.skipped = (mode == 2 and e.first is None)
    e.sandbox = (not e.skipped) and (e.first is None or fam not in PRE_SANDBOX_FAMILIES)
    e.cleanup_fault = None
    e.n_cleanup_run = 0
    if e.sandbox:
        for i in range(ncleanup):
            e.trace.append(('cleanup', 'main', i))
            e.n_cleanup_run += 1
            if i == cpos:
                e.cleanup_fault = (('cleanup', 'main', i), ck)
                break
    e.previous_phase = PREVIOUS_PHASE_NAME[fam] if e.sandbox else None
    # the outcome may name the first fault or (if there is one) the failing cleanup step
    e.outcomes = []
    for fault in (e.first, e.cleanup_fault):
        if fault is not None:
            c, k = fault
            ps = partial_status_name(c, k)
            if c[0] == 'conf':
                status = ps
            else:
                status = full_status_name(mode, ps)
            e.outcomes.append((status, PHASE_IDENT[c[0]], STEP_IDENT[c[1]], c))
    if not e.outcomes:
        e.outcomes.append(('SKIPPED' if e.skipped else full_status_name(mode, None), None, None, None))
    e.atc_completed = e.sandbox and (e.first is None or fam in ('ba-main', 'assert-main'))
    return e


# ----------------------------------------------------------------------------- harness

def _family_range(n, family):
    cells = canonical(n)
    idx = [i for i, (_, f) in enumerate(cells) if f == family]
    return idx


def _pre_k1(f1k, f2k, cpos, ck, mode) -> bool:
    case = ob.case()
    n = case['n']
    f1 = case['cell']
    cells = canonical(n)
    if f1 == -1:
        if f1k != 0 or f2k != 0:
            return False
    else:
        if f1k not in valid_kinds(cells[f1][0]):
            return False
        if f2k not in (0, 3, 4):
            return False
        if f2k != 0 and cpos != -1:
            # either a fault at every later step or a failing cleanup instruction (not both:
            # keeps the product of the two dimensions out of the path tree)
            return False
    if not (-1 <= cpos < n[4]):
        return False
    if cpos == -1:
        if ck != 0:
            return False
    elif ck not in (2, 3, 4):
        return False
    if not (0 <= mode <= 2):
        return False
    return True


def observe(n, f1, f1k, f2k, cpos, ck, mode, keep, xsel):
    """Runs the real executor; returns (run, plan)."""
    from vsym import exeharness as xh
    cells = canonical(n)
    order = {c: i for i, (c, _) in enumerate(cells)}

    def kind_of(cell) -> int:
        if cell[0] == 'cleanup' and cell[1] == 'main':
            return ck if cell[2] == cpos else 0
        i = order.get(cell)
        if i is None or f1 < 0:
            return 0
        if i == f1:
            return f1k
        if i > f1:
            return f2k
        return 0

    plan = xh.Plan(kind_of)
    plan.exit_code = ob.pick(EXIT_CODES, xsel)
    tc = xh.stub_test_case(plan, n, xh.STATUSES[mode])
    run = xh.execute(plan, tc, is_keep_sandbox=ob.concrete_bool(keep))
    return run


def _dbg(*a):
    import os
    if os.environ.get('VSYM_DEBUG'):
        import sys
        print('DEBUG', *[repr(x) for x in a], file=sys.stderr)


def check(n, f1, f1k, f2k, cpos, ck, mode, keep, xsel, oracle_bug=None) -> bool:
    f1, f1k, f2k, cpos, ck, mode, xsel = int(f1), int(f1k), int(f2k), int(cpos), int(ck), int(mode), int(xsel)
    run = observe(n, f1, f1k, f2k, cpos, ck, mode, keep, xsel)
    e = expected(n, f1, f1k, cpos, ck, mode)
    if oracle_bug == 'cleanup-not-after-act':
        if e.previous_phase == 'ACT':
            e.trace = [c for c in e.trace if c[0] != 'cleanup' or c[1] != 'main']
    if run.exception is not None or run.result is None:
        import sys, traceback
        print('DEBUG exception', repr(run.exception), file=sys.stderr)
        traceback.print_exception(run.exception, file=sys.stderr)
        return False
    r = run.result
    # 1. order, halting, cleanup exactly once
    if run.trace != e.trace:
        _dbg('trace', run.trace, e.trace)
        return False
    # 2. cleanup is told which phase ran last
    if [p.name for p in run.previous_phases] != [e.previous_phase] * e.n_cleanup_run:
        _dbg('prev', run.previous_phases, e.previous_phase, e.n_cleanup_run)
        return False
    # 3. outcome names the first fault (or the failing cleanup step) with that step's kind of failure
    ok = False
    for status, phase_ident, step_ident, cell in e.outcomes:
        if r.status.name != status:
            continue
        if cell is None:
            if r.failure_info is None:
                ok = True
            continue
        fi = r.failure_info
        if fi is None:
            continue
        if fi.phase_step.phase.identifier != phase_ident or fi.phase_step.step != step_ident:
            continue
        if cell[0] != 'act':
            loc = fi.source_location
            if loc is None or loc.location.source.first_line_number != cell[2] + 1 + (1 if cell[0] == 'conf' else 0):
                continue
        ok = True
    if not ok:
        _dbg('outcome', r.status, r.failure_info, e.outcomes)
        return False
    # 4. never a success when an executed step failed
    if (e.first is not None or e.cleanup_fault is not None) and r.status.name in ('PASS', 'XPASS', 'SKIPPED'):
        return False
    # 5. sandbox / action-to-check outcome bookkeeping
    if r.has_sds != e.sandbox or run.resolver_calls != (1 if e.sandbox else 0):
        _dbg('sds', r.has_sds, e.sandbox, run.resolver_calls)
        return False
    if e.atc_completed:
        if r.action_to_check_outcome is None or r.action_to_check_outcome.exit_code != EXIT_CODES[xsel]:
            return False
    elif r.action_to_check_outcome is not None:
        return False
    return True


def k1_protocol(f1k: int, f2k: int, cpos: int, ck: int, mode: int) -> bool:
    """
    pre: _pre_k1(f1k, f2k, cpos, ck, mode)
    post: _
    """
    case = ob.case()
    return ob.post(check(case['n'], case['cell'], f1k, f2k, cpos, ck, mode, False, 2, case.get('oracle_bug')))


def _cases(tier):
    """(n, cell index or -1) pairs"""
    out = []

    def all_cells(n):
        out.append((n, -1))
        for i in range(len(canonical(n))):
            out.append((n, i))

    all_cells((1, 1, 1, 1, 1))
    out.append(((0, 0, 0, 0, 0), -1))
    # exactly one phase without instructions, every cell (round 5: C01-r5m2 skipped the post-setup validation of
    # [before-assert] / [assert] when [setup] is empty; until then only the thorough tier had vectors with an empty phase)
    for n in [(1, 0, 1, 1, 1), (1, 1, 0, 1, 1), (1, 1, 1, 0, 1), (1, 1, 1, 1, 0), (0, 1, 1, 1, 1)]:
        all_cells(n)
    if tier == 'quick':
        n = (2, 2, 2, 2, 2)
        out.append((n, -1))
        for i, (c, _) in enumerate(canonical(n)):
            if c[2] == 1:
                out.append((n, i))
    else:
        for n in [(2, 2, 2, 2, 2), (0, 0, 0, 0, 0), (1, 2, 0, 1, 2), (3, 3, 3, 3, 3), (2, 0, 2, 0, 1), (0, 3, 1, 2, 0)]:
            if n == (0, 0, 0, 0, 0):
                for i in range(len(canonical(n))):
                    out.append((n, i))
            else:
                all_cells(n)
    return out


def obligations(tier: str) -> List[Ob]:
    obs = []
    for n, ci in _cases(tier):
        cells = canonical(n)
        cname = 'none' if ci < 0 else '%s-%s-%d' % cells[ci][0]
        obs.append(Ob(
            name='K1:n%s:%s' % (''.join(map(str, n)), cname), fn='k1_protocol', case=dict(n=n, cell=ci), kernel='K1',
            bound='instructions per phase (conf,setup,before-assert,assert,cleanup)=%s; first fault at %s with every applicable '
                  'kind; then EITHER every later step ok / raising HardErrorException / raising ValueError OR a failing cleanup '
                  'instruction at every position with every kind (hard error returned / raised, exception); status PASS/FAIL/SKIP'
                  % (n, 'no step' if ci < 0 else 'step %s/%s of instruction %d' % cells[ci][0]),
            timeout=240 + 90 * (3 + 3 * n[4]) * 2, real=REAL, stubs=STUBS,
            entry='full_execution.execution.execute(ExecutionConfiguration, ConfigurationBuilder, is_keep_sandbox, TestCase)',
            outside=('faults inside exactly_lib\'s own bookkeeping (sandbox creation failing, ...): only faults injected '
                     'through the instruction / actor API',
                     'more than one fault among the non-cleanup steps other than "every later step fails the same way"'),
        ))
    execute_idx = [i for i, (c, _) in enumerate(canonical((1, 1, 1, 1, 1))) if c == ('act', 'execute', 0)][0]
    obs.append(Ob(name='K1:seeded-oracle-error', fn='k1_protocol',
                  case=dict(n=(1, 1, 1, 1, 1), cell=execute_idx, oracle_bug='cleanup-not-after-act'), kernel='K1',
                  bound='seeded oracle error: claims cleanup is skipped when act/execute fails', timeout=300,
                  expect=ob.REFUTE, real=REAL))
    return obs


ASSUMPTIONS = [
    'faults are injected only through the public instruction / actor API (return values and exceptions of stub steps)',
    'the exit code of the action to check is the constant 2 here (all codes: C02); --keep is off here (C04)',
]
