"""C09  String syntax: quoting, concatenation, here-documents denote one exact string.

Kernels (DESIGN.md section 4, C09):
  K1  tokenizer: the real TokenStream (shlex reading through a pure-Python StringIO) against an
      independent reader of the documented syntax, source text symbolic.
  K2  symbol-reference fragments: symbol_syntax.split / parse_fragments_from_token, token text symbolic.
  K3  denotation: the real string parser on tokens made of differently quoted adjacent fragments
      (forms concrete per obligation, fragment characters and symbol values symbolic), followed by
      a next token / end of line.
  K4  here-document: the real rich-string parser, body lines symbolic.
  K5  list elements + continuation token, and text-until-end-of-line.
"""
from typing import List

from harness import _C09_ref as ref
from vsym import ob
from vsym.ob import Ob

PROPERTY = 'C09'

REGION_HASH = 'C09-hash-comment'  # `#` outside quotes starts a comment (shlex default commenters)
REGION_USPACE = 'C09-unicode-space'  # characters that are str.isspace() but no argument separator
REGION_MIXED = 'C09-concat-quote-type'  # quote type of a concatenated token = that of its first character

STUB_IO = ('io.StringIO as seen by token_stream -> vsym.stubs.SymStringIO (pure Python; read/readline/tell/seek on '
           'character offsets, no newline translation)')


def _in_alphabet(s: str, alphabet: str) -> bool:
    for ch in s:
        if ch not in alphabet:
            return False
    return True


def _install_io():
    from vsym import stubs
    stubs.install_token_stream_io()


# =========================================================================== K1  tokenizer

REAL_K1 = (
    'exactly_lib.section_document.element_parsers.token_stream.TokenStream.__init__',
    'exactly_lib.section_document.element_parsers.token_stream.TokenStream._new_lexer',
    'exactly_lib.section_document.element_parsers.token_stream.TokenStream.consume',
    'exactly_lib.section_document.element_parsers.token_stream.TokenStream._revert_reading_of_newline',
    'exactly_lib.section_document.element_parsers.token_stream.TokenStream.look_ahead_state',
    'exactly_lib.section_document.element_parsers.token_stream.TokenStream.remaining_source',
    'exactly_lib.section_document.element_parsers.token_stream.TokenStream.remaining_part_of_current_line',
    'exactly_lib.section_document.element_parsers.token_stream.TokenStream.remaining_source_after_head',
    'exactly_lib.section_document.element_parsers.token_stream.TokenStream.is_at_end',
    'exactly_lib.util.parse.token.Token',
)

K1_ALPHABET = 'a@ "\'#\n\\'
K1_ALPHABET_U = 'a "\'\n\xa0'


def _k1_alphabet() -> str:
    return ob.case().get('alphabet', K1_ALPHABET)


def _pre_k1(s: str) -> bool:
    c = ob.case()
    if len(s) != c['len'] or not _in_alphabet(s, _k1_alphabet()):
        return False
    first = c.get('first')
    if first is not None and s[:1] != first:
        return False
    if ob.excluded(REGION_HASH) and ref.has_unquoted(s, '#'):
        return False
    if ob.excluded(REGION_USPACE) and '\xa0' in s:
        return False
    return True


def _suffix_offset(s: str, suffix: str) -> int:
    """offset p with s[p:] == suffix, or -1"""
    p = len(s) - len(suffix)
    if p < 0 or s[p:] != suffix:
        return -1
    return p


def _line_end(s: str, p: int) -> int:
    i = s.find('\n', p)
    return len(s) if i == -1 else i


def _k1_check(s: str) -> bool:
    from exactly_lib.section_document.element_parsers.token_stream import TokenStream, LookAheadState, \
        TokenSyntaxError
    from exactly_lib.util.parse.token import TokenType
    toks, err = ref.tokenize(s, bool(ob.case().get('oracle_bug')))
    ts = TokenStream(s)  # any exception here is a violation ("never another exception")
    if ts.source != s:
        return False
    k = 0
    prev_end = 0
    while True:
        st = ts.look_ahead_state
        pos = ts.position
        # the position never runs ahead of the text it has accounted for, and never over a line end
        if pos < prev_end or '\n' in s[prev_end:pos]:
            return False
        if ts.remaining_source != s[pos:]:
            return False
        if ts.remaining_part_of_current_line != s[pos:_line_end(s, pos)]:
            return False
        if ts.is_at_end != (pos == len(s)):
            return False
        if k < len(toks):
            t = toks[k]
            if st is not LookAheadState.HAS_TOKEN or ts.is_null:
                return False
            if pos > t.start:
                return False
            h = ts.head
            if h.string != t.string:
                return False
            if h.source_string != s[t.start:t.end]:
                return False
            if len(t.parts) == 1:
                want = TokenType.PLAIN if t.parts[0][0] == ref.NAKED else TokenType.QUOTED
                if h.type is not want:
                    return False
                if want is TokenType.QUOTED and h.is_hard_quote_type != (t.parts[0][0] == ref.HARD):
                    return False
            after = _suffix_offset(s, ts.remaining_source_after_head)
            if after < t.end or after > t.end + 1 or '\n' in s[t.end:after]:
                return False
            got = ts.consume()
            if got is not h:
                return False
            prev_end = t.end
            k += 1
        elif err is None:
            # end of tokens: only separators remain
            return st is LookAheadState.NULL and ts.is_null and ts.head is None
        else:
            # unterminated quote in the next token
            if st is not LookAheadState.SYNTAX_ERROR or not ts.is_null:
                return False
            if pos > err:
                return False
            if not ts.head_syntax_error_description:
                return False
            try:
                ts.consume()
            except TokenSyntaxError:
                return True
            return False


def k1_tokens(s: str) -> bool:
    """
    pre: _pre_k1(s)
    post: _
    """
    _install_io()
    return ob.post(_k1_check(s))


def _k1_obligations(tier: str) -> List[Ob]:
    obs = []
    maxlen = 4 if tier == 'quick' else 5
    split_from = 4
    for n in range(0, maxlen + 1):
        firsts = [None] if n < split_from else list(K1_ALPHABET)
        for f in firsts:
            obs.append(Ob(
                name='K1:len%d%s' % (n, '' if f is None else '-first-%s' % _chname(f)),
                fn='k1_tokens', case=dict(len=n, first=f), kernel='K1',
                bound='every source text of exactly %d characters over {a, @, space, ", \', #, newline, backslash}%s: '
                      'all tokens consumed until null / syntax error' % (n, '' if f is None else ' starting with %r' % f),
                timeout=600, real=REAL_K1, stubs=(STUB_IO,),
                outside=('characters outside the stated alphabet (tab, CR and other separators; other letters are '
                         'equivalent to `a` for the tokenizer only by inspection of shlex)',),
                entry='TokenStream(source) / new_token_parser(source)'))
    # non-ASCII space: its own alphabet
    for n in range(1, (3 if tier == 'quick' else 4) + 1):
        obs.append(Ob(
            name='K1:uspace-len%d' % n, fn='k1_tokens', case=dict(len=n, alphabet=K1_ALPHABET_U), kernel='K1',
            bound='every source text of exactly %d characters over {a, space, ", \', newline, U+00A0 (no-break space)}' % n,
            timeout=600, real=REAL_K1, stubs=(STUB_IO,), entry='TokenStream(source)'))
    obs.append(Ob(name='K1:seeded-oracle-error', fn='k1_tokens', case=dict(len=3, oracle_bug=True), kernel='K1',
                  bound='seeded oracle error: any quote character closes a quotation', timeout=300,
                  expect=ob.REFUTE, real=REAL_K1, stubs=(STUB_IO,)))
    return obs


def _chname(c: str) -> str:
    return {'a': 'a', '@': 'at', ' ': 'sp', '"': 'dq', "'": 'sq', '#': 'hash', '\n': 'nl', '\\': 'bs',
            '\xa0': 'nbsp'}.get(c, 'u%04x' % ord(c))


# =========================================================================== K2  symbol-reference fragments

REAL_K2 = (
    'exactly_lib.symbol.symbol_syntax.split',
    'exactly_lib.symbol.symbol_syntax._extract_fragment',
    'exactly_lib.symbol.symbol_syntax._find_symbol_reference',
    'exactly_lib.symbol.symbol_syntax._extract_symbol_name',
    'exactly_lib.symbol.symbol_syntax._is_identifier',
    'exactly_lib.symbol.symbol_syntax.is_symbol_name',
    'exactly_lib.symbol.symbol_syntax.parse_symbol_reference__from_str',
    'exactly_lib.symbol.symbol_syntax.parse_maybe_symbol_reference',
    'exactly_lib.impls.types.string_.parse_string.parse_fragments_from_token',
    'exactly_lib.impls.types.string_.parse_string.parse_sym_ref_or_fragments_from_token',
    'exactly_lib.util.parse.token.Token',
)

K2_ALPHABET = '@[]a_-'
K2_ALPHABET_U = '@[]\xe9 1'


def _pre_k2(s: str) -> bool:
    c = ob.case()
    return len(s) == c['len'] and _in_alphabet(s, c.get('alphabet', K2_ALPHABET))


def _frag_list(frs):
    return [(bool(f.is_symbol), f.value) for f in frs]


def _whole_reference(s: str):
    """-> (is whole-token reference syntax, name or None): `@[` + X + `]@`; name is None if X is no NAME"""
    if len(s) >= 4 and s[:2] == '@[' and s[len(s) - 2:] == ']@':
        inner = s[2:len(s) - 2]
        ok = len(inner) > 0
        for ch in inner:
            if not ref.is_name_char(ch):
                ok = False
        return True, (inner if ok else None)
    return False, None


def _k2_check(s: str) -> bool:
    from exactly_lib.symbol import symbol_syntax
    from exactly_lib.impls.types.string_ import parse_string
    from exactly_lib.section_document.element_parsers.instruction_parser_exceptions import \
        SingleInstructionInvalidArgumentException
    from exactly_lib.util.parse.token import Token, TokenType
    bug = bool(ob.case().get('oracle_bug'))
    want = ref.split_refs(s)
    if bug:
        # seeded oracle error: a reference with an empty name is a reference
        want = [(True, '')] if s == '@[]@' else want
    got = _frag_list(symbol_syntax.split(s))
    if got != want:
        return False
    # properties of the fragmentation, stated without the reference splitter
    if ref.render_refs(got) != s:
        return False
    prev_const = False
    for is_sym, t in got:
        if is_sym:
            if not symbol_syntax.is_symbol_name(t):
                return False
            prev_const = False
        else:
            if t == '' or prev_const:
                return False
            prev_const = True
    # the three token forms
    naked = _frag_list(parse_string.parse_fragments_from_token(Token(TokenType.PLAIN, s, s)))
    soft = _frag_list(parse_string.parse_fragments_from_token(Token(TokenType.QUOTED, s, '"' + s + '"')))
    hard = _frag_list(parse_string.parse_fragments_from_token(Token(TokenType.QUOTED, s, "'" + s + "'")))
    if naked != want or soft != want or hard != [(False, s)]:
        return False
    # a token that is one naked reference is reported as the symbol's name
    e = parse_string.parse_sym_ref_or_fragments_from_token(Token(TokenType.PLAIN, s, s))
    single = len(want) == 1 and want[0][0]
    if e.is_left() != single:
        return False
    if single:
        if e.left() != want[0][1]:
            return False
    elif _frag_list(e.right()) != want:
        return False
    e = parse_string.parse_sym_ref_or_fragments_from_token(Token(TokenType.QUOTED, s, '"' + s + '"'))
    if e.is_left() or _frag_list(e.right()) != want:
        return False
    # whole-token reference syntax
    is_ref, name = _whole_reference(s)
    mb = symbol_syntax.parse_maybe_symbol_reference(s)
    if mb != (name if is_ref else None):
        return False
    try:
        r = symbol_syntax.parse_symbol_reference__from_str(s)
        if is_ref:
            if name is None or r != name:
                return False
        elif r is not None:
            return False
    except SingleInstructionInvalidArgumentException:
        if not (is_ref and name is None):
            return False
    return True


def k2_split(s: str) -> bool:
    """
    pre: _pre_k2(s)
    post: _
    """
    return ob.post(_k2_check(s))


def _k2_obligations(tier: str) -> List[Ob]:
    obs = []
    maxlen = 6 if tier == 'quick' else 7
    for n in range(0, maxlen + 1):
        obs.append(Ob(
            name='K2:len%d' % n, fn='k2_split', case=dict(len=n), kernel='K2',
            bound='every token text of exactly %d characters over {@, [, ], a, _, -}' % n,
            timeout=600, real=REAL_K2, entry='symbol_syntax.split / parse_string.parse_fragments_from_token'))
    for n in range(4, (6 if tier == 'quick' else 7) + 1):
        obs.append(Ob(
            name='K2:u-len%d' % n, fn='k2_split', case=dict(len=n, alphabet=K2_ALPHABET_U), kernel='K2',
            bound='every token text of exactly %d characters over {@, [, ], e-acute, space, 1}' % n,
            timeout=600, real=REAL_K2, entry='symbol_syntax.split / parse_string.parse_fragments_from_token'))
    obs.append(Ob(name='K2:seeded-oracle-error', fn='k2_split', case=dict(len=4, oracle_bug=True), kernel='K2',
                  bound='seeded oracle error: `@[]@` is a reference with an empty name', timeout=300,
                  expect=ob.REFUTE, real=REAL_K2))
    return obs


# =========================================================================== obligations

def obligations(tier: str) -> List[Ob]:
    obs = []
    obs += _k1_obligations(tier)
    obs += _k2_obligations(tier)
    return obs


ASSUMPTIONS = [
    'io.StringIO is replaced (inside token_stream only) by a pure-Python StringIO with character offsets and no newline '
    'translation; shlex itself is the real stdlib module and is executed symbolically',
]

OUTSIDE = [
    'source texts longer than the stated bounds; characters outside the stated alphabets',
]
