"""C09  String syntax: quoting, concatenation, here-documents denote one exact string.

Kernels (DESIGN.md section 4, C09).  Every kernel runs the REAL parser on a source text and compares what
it delivers with an independent reader of the documented syntax (harness/_C09_ref.py):

  K1  tokenizer: the real TokenStream (the real shlex, reading through a pure-Python StringIO) - token
      strings, source slices, positions, remaining source, line ends, syntax-error state.  The whole
      source text is one symbolic string.
  K2  symbol-reference fragments: symbol_syntax.split, the three token forms of
      parse_string.parse_fragments_from_token, whole-token references.  Token text symbolic.
      K2:concat: tokens of TWO adjacent fragments, both quote forms symbolic, both texts masks (the Token
      is built as the tokenizer builds it: source_string = the written fragments).
  K3  denotation: the real string parsers (parse_string_from_token_parser, RichStringParser,
      SymbolReferenceOrStringParser) on tokens made of differently quoted adjacent fragments followed by a
      next token / end of line: fragments and references of the delivered StringSdv, its resolved value,
      and the token that follows.  K3:mix / K5:list:mix: tokens that mix hard-quoted fragments with other
      fragments and contain reference syntax, outside the region C09-concat-quote-type (e.g. `'@[A]@'.txt`).
  K4  here-document through the real RichStringParser: body, end marker, what follows, missing marker,
      superfluous arguments; after the end marker the SAME stream must deliver exactly the tokens of the
      text that follows (raw-line consumption and token look-ahead share one lexer).
  K5  lists through the real parse_list (elements, `)`, continuation backslash, list-valued symbols) and
      text-until-end-of-line (`:>`), again followed by the tokens of the next lines through the same stream.
  K6  a quoted token is a plain string, never syntax [selector]: catalogue of syntax words (options, `)`,
      `&&`, `||`, `!`, reserved words, `:>`, `<<EOF`, backslash) x quoting (naked / soft / hard) against every
      token matcher and TokenParser keyword / option method, and at the positions where the real parsers
      accept an option or marker (STRING-SOURCE, program arguments, program executable, string transformer
      options, RICH-STRING).  harness/_C09_k6.py.

Texts of K2-K5 are families given by a MASK: pinned characters are concrete, each hole is one symbolic
character over the hole's alphabet (alphabets contain quotes, separators and line ends, so token and line
structure is data).  Symbol values are 'x' / 'y z' except in the obligations named ...-symNM where they are
symbolic strings of the stated lengths.

Regions (known findings; switched on by known_findings.json):
  C09-hash-comment        `#` outside quotes starts a shlex comment
  C09-unicode-space       U+00A0 (and other str.isspace() characters that are no separators) as a token
  C09-concat-quote-type   a token of adjacent fragments whose first fragment is hard-quoted while a later fragment of
                          another form contains a reference, or whose first fragment is not hard-quoted while a later
                          hard-quoted fragment contains a reference (exactly the tokens on which "the first character
                          decides for the whole token" differs from the documentation; `'@[X]@'.txt`, `"@[X]@"'b'`,
                          `x"@[X]@"'b'` are NOT in the region and are checked)
  C09-shlex-eof-state     raw-line consumption (here-document, `:>`) where a look-ahead token that starts inside
                          the raw lines is closed by the very last character of the source: shlex stays in its
                          end-of-file state and the tokens after the raw lines are not seen
"""
from typing import List

from harness import _C09_ref as ref
from vsym import ob
from vsym.ob import Ob

PROPERTY = 'C09'

REGION_HASH = 'C09-hash-comment'  # `#` outside quotes starts a comment (shlex default commenters)
REGION_USPACE = 'C09-unicode-space'  # characters that are str.isspace() but no argument separator
REGION_MIXED = 'C09-concat-quote-type'  # quote type of a concatenated token = that of its first character
REGION_EOF = 'C09-shlex-eof-state'  # a look-ahead token read from inside raw lines that ends exactly at end of source

STUB_IO = ('io.StringIO as seen by token_stream -> harness._C09_io.CharsStringIO = vsym.stubs.SymStringIO (pure Python; '
           'read/readline/tell/seek on character offsets, no newline translation); read(1) on a text built by the harness '
           'returns the character object the text was built from')


def _in_alphabet(s: str, alphabet: str) -> bool:
    for ch in s:
        if ch not in alphabet:
            return False
    return True


def _install_io():
    from harness import _C09_io
    _C09_io.install()


# =========================================================================== K1  tokenizer

REAL_K1 = (
    'exactly_lib.section_document.element_parsers.token_stream.TokenStream.__init__',
    'exactly_lib.section_document.element_parsers.token_stream.TokenStream._new_lexer',
    'exactly_lib.section_document.element_parsers.token_stream.TokenStream.consume',
    'exactly_lib.section_document.element_parsers.token_stream.TokenStream._revert_reading_of_newline',
    'exactly_lib.section_document.element_parsers.token_stream.TokenStream.look_ahead_state',
    'exactly_lib.section_document.element_parsers.token_stream.TokenStream.remaining_source',
    'exactly_lib.section_document.element_parsers.token_stream.TokenStream.remaining_part_of_current_line',
    'exactly_lib.section_document.element_parsers.token_stream.TokenStream.remaining_source_after_head',
    'exactly_lib.section_document.element_parsers.token_stream.TokenStream.is_at_end',
    'exactly_lib.util.parse.token.Token',
)

K1_ALPHABET = 'a@ "\'#\n\\'
K1_ALPHABET_U = 'a "\'\n\xa0'


def _k1_alphabet() -> str:
    return ob.case().get('alphabet', K1_ALPHABET)


K1_CLASSES = (('ord', 'a@#\\'), ('sp', ' '), ('nl', '\n'), ('dq', '"'), ('sq', "'"))  # shlex's character classes


def _pre_k1(s: str) -> bool:
    c = ob.case()
    if len(s) != c['len'] or not _in_alphabet(s, _k1_alphabet()):
        return False
    prefix = c.get('prefix', ())  # the first characters' classes (case split)
    for i in range(len(prefix)):
        if s[i] not in prefix[i]:
            return False
    if ob.excluded(REGION_HASH) and ref.has_unquoted(s, '#'):
        return False
    if ob.excluded(REGION_USPACE) and '\xa0' in s:
        return False
    return True


def _suffix_offset(s: str, suffix: str) -> int:
    """offset p with s[p:] == suffix, or -1"""
    p = len(s) - len(suffix)
    if p < 0 or s[p:] != suffix:
        return -1
    return p


def _line_end(s: str, p: int) -> int:
    i = s.find('\n', p)
    return len(s) if i == -1 else i


def _k1_check(s: str) -> bool:
    from exactly_lib.section_document.element_parsers.token_stream import TokenStream, LookAheadState, \
        TokenSyntaxError
    from exactly_lib.util.parse.token import TokenType
    toks, err = ref.tokenize(s, bool(ob.case().get('oracle_bug')))
    ts = TokenStream(s)  # any exception here is a violation ("never another exception")
    if ts.source != s:
        return False
    k = 0
    prev_end = 0
    while True:
        st = ts.look_ahead_state
        pos = ts.position
        # the position never runs ahead of the text it has accounted for, and never over a line end
        if pos < prev_end or '\n' in s[prev_end:pos]:
            return False
        if ts.remaining_source != s[pos:]:
            return False
        if ts.remaining_part_of_current_line != s[pos:_line_end(s, pos)]:
            return False
        if ts.is_at_end != (pos == len(s)):
            return False
        if k < len(toks):
            t = toks[k]
            if st is not LookAheadState.HAS_TOKEN or ts.is_null:
                return False
            if pos > t.start:
                return False
            h = ts.head
            if h.string != t.string:
                return False
            if h.source_string != s[t.start:t.end]:
                return False
            if len(t.parts) == 1:
                want = TokenType.PLAIN if t.parts[0][0] == ref.NAKED else TokenType.QUOTED
                if h.type is not want:
                    return False
                if want is TokenType.QUOTED and h.is_hard_quote_type != (t.parts[0][0] == ref.HARD):
                    return False
            after = _suffix_offset(s, ts.remaining_source_after_head)
            if after < t.end or after > t.end + 1 or '\n' in s[t.end:after]:
                return False
            got = ts.consume()
            if got is not h:
                return False
            prev_end = t.end
            k += 1
        elif err is None:
            # end of tokens: only separators remain
            return st is LookAheadState.NULL and ts.is_null and ts.head is None
        else:
            # unterminated quote in the next token
            if st is not LookAheadState.SYNTAX_ERROR or not ts.is_null:
                return False
            if pos > err:
                return False
            if not ts.head_syntax_error_description:
                return False
            try:
                ts.consume()
            except TokenSyntaxError:
                return True
            return False


def k1_tokens(s: str) -> bool:
    """
    pre: _pre_k1(s)
    post: _
    """
    _install_io()
    return ob.post(_k1_check(s))


def _k1_obligations(tier: str) -> List[Ob]:
    import itertools
    obs = []
    maxlen = 4 if tier == 'quick' else 5
    for n in range(0, maxlen + 1):
        nsplit = 0 if n < 4 else n - 3  # case split on the classes of the first n-3 characters
        for combo in itertools.product(K1_CLASSES, repeat=nsplit):
            if tier == 'quick' and n == 4 and combo[0][0] not in ('dq', 'sq'):
                continue  # quick: length 4 only for texts that start with a quote
            obs.append(Ob(
                name='K1:len%d%s' % (n, ''.join('-' + nm for nm, _ in combo)),
                fn='k1_tokens', case=dict(len=n, prefix=tuple(al for _, al in combo)), kernel='K1',
                bound='every source text of exactly %d characters over {a, @, space, ", \', #, newline, backslash}%s: '
                      'all tokens consumed until null / syntax error' % (
                          n, ''.join(', character %d in %r' % (i + 1, al) for i, (_, al) in enumerate(combo))),
                timeout=900 if n < 5 else 1500, real=REAL_K1, stubs=(STUB_IO,),
                outside=('characters outside the stated alphabet (tab, CR and other separators; other letters are '
                         'equivalent to `a` for the tokenizer only by inspection of shlex)',),
                entry='TokenStream(source) / new_token_parser(source)'))
    # non-ASCII space: its own alphabet
    for n in range(1, (3 if tier == 'quick' else 4) + 1):
        obs.append(Ob(
            name='K1:uspace-len%d' % n, fn='k1_tokens', case=dict(len=n, alphabet=K1_ALPHABET_U), kernel='K1',
            bound='every source text of exactly %d characters over {a, space, ", \', newline, U+00A0 (no-break space)}' % n,
            timeout=600, real=REAL_K1, stubs=(STUB_IO,), entry='TokenStream(source)'))
    obs.append(Ob(name='K1:seeded-oracle-error', fn='k1_tokens', case=dict(len=3, oracle_bug=True), kernel='K1',
                  bound='seeded oracle error: any quote character closes a quotation', timeout=300,
                  expect=ob.REFUTE, real=REAL_K1, stubs=(STUB_IO,)))
    return obs


# =========================================================================== masks

# A bounded family of texts is given by a MASK: a string of the same length as the text in which
# every character is either itself (pinned) or one of the hole markers below (the character at that
# position ranges over the hole's alphabet).  One symbolic str per text; structure (quotes, line
# ends, separators) is data, not case, wherever a hole's alphabet contains those characters.
HOLES = {
    '?': 'a@ "\'#\n\\',  # K1 alphabet
    '%': 'a@[]_-',  # reference syntax
    '~': ' \n',  # separators
    '^': 'a "\'\n=',  # string characters, quotes, separators, a reserved word
    '&': 'a@]"\' ',  # inside / around a reference in a quoted token
    '$': 'aE \n#[\'"',  # here-document body
    '!': 'a \\\n)"',  # list syntax
    '*': 'a "\'#@ ',  # text until end of line
}
HOLE_NAMES = {
    '?': '{a, @, space, ", \', #, newline, backslash}',
    '%': '{a, @, [, ], _, -}',
    '~': '{space, newline}',
    '^': '{a, space, ", \', newline, =}',
    '&': '{a, @, ], ", \', space}',
    '$': '{a, E, space, newline, #, [, \', "}',
    '!': '{a, space, backslash, newline, ), "}',
    '*': '{a, space, ", \', #, @}',
}


def _holes_ok(h: str, mask: str) -> bool:
    """h: the characters that fill the holes of the mask, left to right"""
    k = 0
    for m in mask:
        al = HOLES.get(m)
        if al is not None:
            k += 1
    if len(h) != k:
        return False
    k = 0
    for m in mask:
        al = HOLES.get(m)
        if al is not None:
            if h[k] not in al:
                return False
            k += 1
    return True


def _fill(mask: str, h: str) -> str:
    """the text of the family `mask` selected by the hole characters h (pinned characters stay concrete)"""
    r = ''
    k = 0
    i = 0
    n = len(mask)
    while i < n:
        if mask[i] in HOLES:
            r = r + h[k]
            k += 1
            i += 1
        else:
            j = i
            while j < n and mask[j] not in HOLES:
                j += 1
            r = r + mask[i:j]
            i = j
    return r


def _text(mask: str, h: str) -> str:
    """_fill, and the characters of the text are registered with the StringIO stand-in"""
    from harness import _C09_io
    s = _fill(mask, h)
    chars = []
    k = 0
    for m in mask:
        if m in HOLES:
            chars.append(h[k])
            k += 1
        else:
            chars.append(m)
    _C09_io.register(s, chars)
    return s


def _mask_bound(mask: str) -> str:
    used = [h for h in HOLES if h in mask]
    return 'every text matching the mask %r where %s' % (
        mask, '; '.join('%s ranges over %s' % (h, HOLE_NAMES[h]) for h in used) if used else 'nothing is free')


def _mask_name(mask: str) -> str:
    """a file-name / glob safe rendering (holes -> x, " -> D, ' -> H, space -> _, newline -> ., backslash -> B)"""
    r = ''
    m = mask.replace('@[', 'r').replace(']@', '')
    for c in m:
        if c in HOLES:
            r += 'x'
        elif c.isalnum():
            r += c
        else:
            r += {'"': 'D', "'": 'H', ' ': '_', '\n': '.', '\\': 'B', '<': 'l', '>': 'g', ':': 'c', ')': 'p',
                  '=': 'e'}.get(c, '-')
    return r


def _mask_obs(tier: str, prefix: str, quick, thorough, fn: str, kernel: str, real, entry: str,
              stubs=(), outside=(), bound_suffix: str = '', timeout: float = 900) -> List[Ob]:
    """One obligation per mask; an entry is a mask or (mask, extra case parameters).  The numbering runs over
    quick + thorough, so the names of the quick obligations are the same in both tiers."""
    obs = []
    entries = list(quick) + list(thorough)
    n_quick = len(quick)
    for i, e in enumerate(entries):
        if tier == 'quick' and i >= n_quick:
            break
        m, extra = (e, {}) if isinstance(e, str) else e
        case = dict(mask=m)
        case.update(extra)
        tag = ''.join('-%s%s' % (k[:3], ''.join(str(x) for x in v) if isinstance(v, tuple) else v)
                      for k, v in sorted(extra.items()))
        if 'symvalues' in extra:
            b = _mask_bound(m) + _symvalues_bound(extra['symvalues'])
        else:
            b = _mask_bound(m) + bound_suffix
        if 'entry' in extra:
            b += '; parser entry: ' + extra['entry']
        obs.append(Ob(name='%s%02d-%s%s' % (prefix, i + 1, _mask_name(m) or 'empty', tag), fn=fn, case=case,
                      kernel=kernel, bound=b, timeout=timeout, real=real, stubs=stubs, outside=outside, entry=entry))
    return obs


# =========================================================================== K2  symbol-reference fragments

REAL_K2 = (
    'exactly_lib.symbol.symbol_syntax.split',
    'exactly_lib.symbol.symbol_syntax._extract_fragment',
    'exactly_lib.symbol.symbol_syntax._find_symbol_reference',
    'exactly_lib.symbol.symbol_syntax._extract_symbol_name',
    'exactly_lib.symbol.symbol_syntax._is_identifier',
)
REAL_K2F = (
    'exactly_lib.symbol.symbol_syntax.split',
    'exactly_lib.symbol.symbol_syntax.is_symbol_name',
    'exactly_lib.symbol.symbol_syntax.parse_symbol_reference__from_str',
    'exactly_lib.symbol.symbol_syntax.parse_maybe_symbol_reference',
    'exactly_lib.impls.types.string_.parse_string.parse_fragments_from_token',
    'exactly_lib.impls.types.string_.parse_string.parse_sym_ref_or_fragments_from_token',
    'exactly_lib.impls.types.string_.parse_string._is_single_sym_ref',
    'exactly_lib.util.parse.token.Token',
)

K2_ALPHABET_U = '@[]\xe9 1'


def _pre_k2(h: str) -> bool:
    c = ob.case()
    if 'mask' in c:
        return _holes_ok(h, c['mask'])
    return len(h) == c['len'] and _in_alphabet(h, c['alphabet'])


def _k2_text(h: str) -> str:
    c = ob.case()
    return _fill(c['mask'], h) if 'mask' in c else h


def _frag_list(frs):
    return [(bool(f.is_symbol), f.value) for f in frs]


def k2_split(h: str) -> bool:
    """
    pre: _pre_k2(h)
    post: _
    """
    from exactly_lib.symbol import symbol_syntax
    s = _k2_text(h)
    want = ref.split_refs(s)
    if ob.case().get('oracle_bug'):
        # seeded oracle error: `-` may be part of a symbol name
        want = [(True, '-')] if s == '@[-]@' else want
    return ob.post(_frag_list(symbol_syntax.split(s)) == want)


def _whole_reference(s: str):
    """-> (is whole-token reference syntax, name or None): `@[` + X + `]@`; name is None if X is no NAME"""
    if len(s) >= 4 and s[:2] == '@[' and s[len(s) - 2:] == ']@':
        inner = s[2:len(s) - 2]
        ok = len(inner) > 0
        for ch in inner:
            if not ref.is_name_char(ch):
                ok = False
        return True, (inner if ok else None)
    return False, None


def _k2_forms_check(s: str) -> bool:
    from exactly_lib.symbol import symbol_syntax
    from exactly_lib.impls.types.string_ import parse_string
    from exactly_lib.section_document.element_parsers.instruction_parser_exceptions import \
        SingleInstructionInvalidArgumentException
    from exactly_lib.util.parse.token import Token, TokenType
    bug = bool(ob.case().get('oracle_bug'))
    want = ref.split_refs(s)
    # the three token forms: hard quotes protect, the others are split
    naked = _frag_list(parse_string.parse_fragments_from_token(Token(TokenType.PLAIN, s, s)))
    soft = _frag_list(parse_string.parse_fragments_from_token(Token(TokenType.QUOTED, s, '"' + s + '"')))
    hard = _frag_list(parse_string.parse_fragments_from_token(Token(TokenType.QUOTED, s, "'" + s + "'")))
    want_hard = want if bug else [(False, s)]  # seeded oracle error: hard quotes do not protect
    if naked != want or soft != want or hard != want_hard:
        return False
    for is_sym, t in want:
        if is_sym and not symbol_syntax.is_symbol_name(t):
            return False
    # a token that is one naked reference is reported as the symbol's name
    e = parse_string.parse_sym_ref_or_fragments_from_token(Token(TokenType.PLAIN, s, s))
    single = len(want) == 1 and want[0][0]
    if e.is_left() != single:
        return False
    if single:
        if e.left() != want[0][1]:
            return False
    elif _frag_list(e.right()) != want:
        return False
    e = parse_string.parse_sym_ref_or_fragments_from_token(Token(TokenType.QUOTED, s, '"' + s + '"'))
    if e.is_left() or _frag_list(e.right()) != want:
        return False
    # whole-token reference syntax
    is_ref, name = _whole_reference(s)
    if symbol_syntax.parse_maybe_symbol_reference(s) != (name if is_ref else None):
        return False
    try:
        r = symbol_syntax.parse_symbol_reference__from_str(s)
        if is_ref:
            if name is None or r != name:
                return False
        elif r is not None:
            return False
    except SingleInstructionInvalidArgumentException:
        if not (is_ref and name is None):
            return False
    return True


def k2_forms(h: str) -> bool:
    """
    pre: _pre_k2(h)
    post: _
    """
    return ob.post(_k2_forms_check(_k2_text(h)))


def _form(f: int) -> str:
    return ref.NAKED if f == 0 else (ref.SOFT if f == 1 else ref.HARD)


def _pre_k2c(h: str, t: str, f1: int, f2: int) -> bool:
    c = ob.case()
    if not _holes_ok(h, c['mask']) or not _holes_ok(t, c['tmask']):
        return False
    if not (0 <= f1 <= 2 and 0 <= f2 <= 2):
        return False
    s = _fill(c['mask'], h)
    t = _fill(c['tmask'], t)
    if (f1 == 0 and s == '') or (f2 == 0 and t == '') or (f1 == 0 and f2 == 0):
        return False  # a naked fragment is not empty; two adjacent naked fragments are one fragment
    parts = [(_form(f1), s), (_form(f2), t)]
    if ref.reference_straddles(parts):
        return False  # a reference split over the two fragments: outside the claim (undocumented)
    if ob.excluded(REGION_MIXED) and ref.first_fragment_decides_wrongly(parts):
        return False
    return True


def _k2_concat_check(s: str, t: str, f1: int, f2: int) -> bool:
    from exactly_lib.impls.types.string_ import parse_string
    from exactly_lib.util.parse.token import Token, TokenType
    q1 = _form(f1)
    q2 = _form(f2)
    parts = [(q1, s), (q2, t)]
    # the token the tokenizer delivers for the two adjacent fragments (K1: string = the contents side by side,
    # source_string = the written text, QUOTED iff the text starts with a quote character)
    tok = Token(TokenType.PLAIN if f1 == 0 else TokenType.QUOTED, s + t, q1 + s + q1 + q2 + t + q2)
    if ob.case().get('oracle_bug'):
        # seeded oracle error: only the last fragment's quoting counts
        want = [(False, s + t)] if q2 == ref.HARD else _merge(ref.split_refs(s + t))
        want = [w for w in want if w[1] != '']
    else:
        want = _pieces_of_parts(parts)
    if _merge(_frag_list(parse_string.parse_fragments_from_token(tok))) != want:
        return False
    e = parse_string.parse_sym_ref_or_fragments_from_token(tok)
    if f1 == 0 and len(want) == 1 and want[0][0]:
        return True  # a naked whole reference with an (empty) quotation glued to it: undocumented (K3_OUTSIDE)
    return e.is_right() and _merge(_frag_list(e.right())) == want


def k2_concat(h: str, t: str, f1: int, f2: int) -> bool:
    """
    pre: _pre_k2c(h, t, f1, f2)
    post: _
    """
    return ob.post(_k2_concat_check(_fill(ob.case()['mask'], h), _fill(ob.case()['tmask'], t), f1, f2))


def _k2_obligations(tier: str) -> List[Ob]:
    obs = []
    obs += _mask_obs(tier, 'K2:split:',
                     ['', '%', '%%', '%%%', '%%%%', '%%%%%', '%@[%]@%', '@[%]@%@[%]@', '@[a]@%%@[a]@', '@[%%]@%',
                      '@[%@[%]@'],
                     ['%%%%%%', '%%%%%%%', '@[%%@[%%]@', '%@[%%]@%%', '@[%]@[%]@%', '%%@[a]@%%', '@[%]@@[%]@%'],
                     fn='k2_split', kernel='K2', real=REAL_K2, entry='symbol_syntax.split', timeout=2400)
    for n in ([4, 5] if tier == 'quick' else [4, 5, 6]):
        obs.append(Ob(
            name='K2:split:u-len%d' % n, fn='k2_split', case=dict(len=n, alphabet=K2_ALPHABET_U), kernel='K2',
            bound='every token text of exactly %d characters over {@, [, ], e-acute, space, 1}' % n,
            timeout=900, real=REAL_K2, entry='symbol_syntax.split'))
    obs += _mask_obs(tier, 'K2:forms:',
                     ['', '%', '%%', '%%%', '%%%%', '@[%]@', '@[%%]@', '%@[a]@', '@[a]@%'],
                     ['%%%%%', '@[%%%]@', '%@[%]@%'],
                     fn='k2_forms', kernel='K2', real=REAL_K2F, entry='parse_string.parse_fragments_from_token',
                     bound_suffix='; as naked, soft-quoted and hard-quoted token')
    # two adjacent fragments (form, text)(form, text): both forms symbolic, both texts given by masks
    k2c_quick = [('', '%'), ('%', '%'), ('%%', '%'), ('%', '%%'), ('@[%]@', '%'), ('%', '@[%]@'), ('%@[a]@', '%'),
                 ('@[a]@%', '%'), ('@[%]@', '@[a]@'), ('@[a]@', '')]
    k2c_thorough = [('%%', '%%'), ('%%%', '%'), ('@[%%]@', '%'), ('%', '@[%%]@'), ('%@[%]@', '%'), ('@[%]@', '@[%]@')]
    for m, tm in k2c_quick + (k2c_thorough if tier != 'quick' else []):
        obs.append(Ob(
            name='K2:concat:%s+%s' % (_mask_name(m) or 'empty', _mask_name(tm) or 'empty'), fn='k2_concat',
            case=dict(mask=m, tmask=tm), kernel='K2',
            bound='a token of two adjacent fragments: the first is ' + _mask_bound(m) + ', the second is ' + _mask_bound(tm) +
                  '; each written in each of the forms naked, soft-quoted, hard-quoted (forms symbolic): hard-quoted text '
                  'is constant, the other text is split into constants and references',
            timeout=300, real=REAL_K2F, entry='parse_string.parse_fragments_from_token(Token(type, string, source_string))',
            outside=('a reference split over the two fragments',
                     'a naked whole reference with a quotation glued to it (parse_sym_ref_or_fragments_from_token only)')))
    obs.append(Ob(name='K2:concat:seeded-oracle-error', fn='k2_concat',
                  case=dict(mask='@[%]@', tmask='%', oracle_bug=True),
                  kernel='K2', bound='seeded oracle error: the quoting of the last fragment decides for the whole token',
                  timeout=300, expect=ob.REFUTE, real=REAL_K2F))
    obs.append(Ob(name='K2:split:seeded-oracle-error', fn='k2_split', case=dict(mask='@[%]@', oracle_bug=True),
                  kernel='K2', bound='seeded oracle error: `-` may be part of a symbol name', timeout=300,
                  expect=ob.REFUTE, real=REAL_K2))
    obs.append(Ob(name='K2:forms:seeded-oracle-error', fn='k2_forms', case=dict(mask='@[%]@', oracle_bug=True),
                  kernel='K2', bound='seeded oracle error: hard quotes do not protect references', timeout=300,
                  expect=ob.REFUTE, real=REAL_K2F))
    return obs


# =========================================================================== symbols shared by K3-K5

def _symbol_table(va: str, vb: str):
    """A, B: string symbols with values va, vb;  L: list symbol [va, vb]"""
    from exactly_lib.symbol.sdv_structure import SymbolContainer
    from exactly_lib.symbol.value_type import ValueType
    from exactly_lib.type_val_deps.types.list_ import list_sdvs
    from exactly_lib.type_val_deps.types.string_ import string_sdvs
    from exactly_lib.util.symbol_table import SymbolTable
    return SymbolTable({
        'A': SymbolContainer(string_sdvs.str_constant(va), ValueType.STRING, None),
        'B': SymbolContainer(string_sdvs.str_constant(vb), ValueType.STRING, None),
        'L': SymbolContainer(list_sdvs.from_str_constants([va, vb]), ValueType.LIST, None),
    })


def _string_values(va: str, vb: str):
    """symbol name -> the string a reference in a string context denotes"""
    return {'A': va, 'B': vb, 'L': va + ' ' + vb}


def _names_defined(names) -> bool:
    for n in names:
        if n != 'A' and n != 'B' and n != 'L':
            return False
    return True


def _ref_names_of_parts(parts, soft_protects: bool = False):
    names = []
    for form, c in parts:
        if form == ref.HARD or (soft_protects and form == ref.SOFT):
            continue
        for is_sym, t in ref.split_refs(c):
            if is_sym:
                names.append(t)
    return names


def _merge(pieces):
    """[(is_symbol, text)] with adjacent constants merged and empty constants dropped"""
    out = []
    for is_sym, t in pieces:
        if is_sym:
            out.append((True, t))
        elif t != '':
            if out and not out[-1][0]:
                out[-1] = (False, out[-1][1] + t)
            else:
                out.append((False, t))
    return out


def _pieces_of_parts(parts, soft_protects: bool = False):
    """documented fragmentation of a token: hard-quoted contents are constants, the others are
    constants and references"""
    out = []
    for form, c in parts:
        if form == ref.HARD or (soft_protects and form == ref.SOFT):
            out.append((False, c))
        else:
            out = out + ref.split_refs(c)
    return _merge(out)


def _pieces_of_sdv(sdv):
    """the fragments of a real StringSdv as [(is_symbol, text)]"""
    out = []
    for f in sdv.fragments:
        if f.is_string_constant:
            out.append((False, f.string_constant))
        else:
            out.append((True, f.symbol_name))
    return _merge(out)


def _names_of_pieces(pieces):
    return [t for is_sym, t in pieces if is_sym]


def _value_of_pieces(pieces, values) -> str:
    r = ''
    for is_sym, t in pieces:
        r = r + (values[t] if is_sym else t)
    return r


def _sdv_agrees(sdv, pieces, va: str, vb: str) -> bool:
    """the real StringSdv has the documented fragments and reports exactly their references; with
    and, when only A, B, L are referenced, resolves to the documented value"""
    if _pieces_of_sdv(sdv) != pieces:
        return False
    names = _names_of_pieces(pieces)
    if [r.name for r in sdv.references] != names:
        return False
    if _names_defined(names):
        a, b = _values(va, vb)
        got = sdv.resolve(_symbol_table(a, b)).value_when_no_dir_dependencies()
        if got != _value_of_pieces(pieces, _string_values(a, b)):
            return False
    return True


CONCRETE_VALUES = ('x', 'y z')


def _values_ok(va: str, vb: str) -> bool:
    """case['symvalues'] = (len A, len B): the values of the symbols A and B are the symbolic strings va, vb of
    these lengths (every character free).  Otherwise A = 'x', B = 'y z' and va, vb are unused (empty)."""
    la, lb = ob.case().get('symvalues', (0, 0))
    return len(va) == la and len(vb) == lb


def _values(va: str, vb: str):
    if 'symvalues' in ob.case():
        return va, vb
    return CONCRETE_VALUES


def _values_bound() -> str:
    return '; symbols: A = \'x\', B = \'y z\', L = [A, B]'


def _symvalues_bound(lens) -> str:
    return '; symbols: A = every string of %d characters, B = every string of %d characters, L = [A, B]' % lens


def _after_token_ok(ts, s: str, toks, err, k: int, end_prev: int) -> bool:
    """The stream stands after a token that ended at end_prev; the k-th reference token (or the
    end / the syntax error) must be what follows: nothing swallowed, nothing split."""
    from exactly_lib.section_document.element_parsers.token_stream import LookAheadState
    pos = ts.position
    if pos < end_prev or '\n' in s[end_prev:pos]:
        return False
    if ts.remaining_source != s[pos:]:
        return False
    st = ts.look_ahead_state
    if k < len(toks):
        t = toks[k]
        if st is not LookAheadState.HAS_TOKEN or pos > t.start:
            return False
        h = ts.head
        return h.string == t.string and h.source_string == s[t.start:t.end]
    if err is None:
        return st is LookAheadState.NULL
    return st is LookAheadState.SYNTAX_ERROR and pos <= err


def _lookahead_runs_to_end(s: str, starts, base: int) -> bool:
    """Region C09-shlex-eof-state, stated on the input alone: text follows the raw lines (base < len(s)), and
    a token read from one of the offsets `starts` - the places inside the raw lines from which the stream
    reads its look-ahead token - begins before `base` and ends exactly at the end of the source."""
    if base >= len(s):
        return False
    for p in starts:
        if p < base:
            span = ref.first_token_span(s, p)
            if span is not None and span[0] < base and span[1] == len(s):
                return True
    return False


def _continues_ok(ts, s: str, base: int) -> bool:
    """The stream stands at offset `base` after a raw-line consumption (here-document, text until end of
    line): the look-ahead token and every token consumed from here on must be exactly the tokens of
    s[base:] - raw-line consumption and token look-ahead share one stream, nothing that follows may be
    swallowed, split or spoilt by what the look-ahead met inside the raw lines."""
    from exactly_lib.section_document.element_parsers.token_stream import LookAheadState, TokenSyntaxError
    toks, err = ref.tokenize(s[base:])
    end_prev = base
    for t in toks:
        pos = ts.position
        if pos < end_prev or pos > base + t.start or '\n' in s[end_prev:pos]:
            return False
        if ts.look_ahead_state is not LookAheadState.HAS_TOKEN:
            return False
        h = ts.head
        if h.string != t.string or h.source_string != s[base + t.start:base + t.end]:
            return False
        ts.consume()
        end_prev = base + t.end
    pos = ts.position
    if pos < end_prev or '\n' in s[end_prev:pos] or ts.remaining_source != s[pos:]:
        return False
    if err is None:
        return ts.look_ahead_state is LookAheadState.NULL
    if ts.look_ahead_state is not LookAheadState.SYNTAX_ERROR or pos > base + err:
        return False
    try:
        ts.consume()
    except TokenSyntaxError:
        return True
    return False


SPECIAL_WORDS = ref.RESERVED + ('\\', ':>')


def _glued_special(t) -> bool:
    """A keyword, reserved word or whole symbol reference written naked with an (empty) quotation glued to
    it, e.g. `)""`: whether that is "unquoted" is not documented -> outside the claim."""
    if len(t.parts) < 2 or t.parts[0][0] != ref.NAKED:
        return False
    w = t.string
    if w in SPECIAL_WORDS:
        return True
    frs = ref.split_refs(w)
    return len(frs) == 1 and frs[0][0]


def _is_reserved_word_token(t) -> bool:
    return len(t.parts) == 1 and t.parts[0][0] == ref.NAKED and t.parts[0][1] in ref.RESERVED


# =========================================================================== K3  denotation

REAL_K3 = (
    'exactly_lib.impls.types.string_.parse_string.parse_string_from_token_parser',
    'exactly_lib.impls.types.string_.parse_string.parse_string_sdv',
    'exactly_lib.impls.types.string_.parse_string.parse_fragments_from_tokens__w_is_plain',
    'exactly_lib.impls.types.string_.parse_string.parse_fragments_from_token',
    'exactly_lib.impls.types.string_.parse_string.string_sdv_from_fragments',
    'exactly_lib.impls.types.string_.parse_string.fragment_sdv_from_fragment',
    'exactly_lib.impls.types.string_.parse_string.SymbolReferenceOrStringParser.parse',
    'exactly_lib.impls.types.string_.parse_rich_string.RichStringParser.parse_from_token_parser',
    'exactly_lib.impls.types.string_.parse_rich_string.SymbolNameOrStringRichStringParser.parse_from_token_parser',
    'exactly_lib.symbol.symbol_syntax.split',
    'exactly_lib.section_document.element_parsers.misc_utils.new_token_stream',
    'exactly_lib.section_document.element_parsers.token_stream_parser.new_token_parser',
    'exactly_lib.section_document.element_parsers.token_stream.TokenStream.consume',
    'exactly_lib.util.parse.token.Token',
    'exactly_lib.definitions.test_case.reserved_words',
    'exactly_lib.type_val_deps.types.string_.string_sdv.StringSdv.resolve',
    'exactly_lib.type_val_deps.types.string_.string_sdv_impls.SymbolStringFragmentSdv.resolve',
    'exactly_lib.type_val_deps.types.string_.string_ddv.StringDdv.value_when_no_dir_dependencies',
)


def _pre_text(h: str, va: str, vb: str) -> bool:
    c = ob.case()
    if not _holes_ok(h, c['mask']) or not _values_ok(va, vb):
        return False
    if ob.excluded(REGION_HASH) and ref.has_unquoted(_fill(c['mask'], h), '#'):
        return False
    return True


def _pre_k3(h: str, va: str, vb: str) -> bool:
    if not _pre_text(h, va, vb):
        return False
    s = _fill(ob.case()['mask'], h)
    toks, err = ref.tokenize(s)
    if len(toks) > 0:
        parts = toks[0].parts
        # a reference that is split over two adjacent fragments: outside the claim (undocumented)
        if ref.reference_straddles(parts) or _glued_special(toks[0]):
            return False
        if ob.excluded(REGION_MIXED) and ref.first_fragment_decides_wrongly(parts):
            return False
    return True


def _k3_check(s: str, va: str, vb: str) -> bool:
    from exactly_lib.impls.types.string_ import parse_string, parse_rich_string
    from exactly_lib.section_document.element_parsers.instruction_parser_exceptions import \
        SingleInstructionInvalidArgumentException
    from exactly_lib.section_document.element_parsers.token_stream_parser import new_token_parser
    c = ob.case()
    bug = bool(c.get('oracle_bug'))
    toks, err = ref.tokenize(s)
    tp = new_token_parser(s)
    ts = tp.token_stream
    entry = c.get('entry', 'string')
    want_error = len(toks) == 0 or _is_reserved_word_token(toks[0])
    try:
        if entry == 'string':
            sdv = parse_string.parse_string_from_token_parser(tp)
        elif entry == 'rich':
            sdv = parse_rich_string.RichStringParser().parse_from_token_parser(tp)
        else:
            e = parse_string.SymbolReferenceOrStringParser(parse_string.DEFAULT_CONFIGURATION).parse(tp)
            t0 = toks[0] if toks else None
            single = (t0 is not None and len(t0.parts) == 1 and t0.parts[0][0] == ref.NAKED
                      and len(ref.split_refs(t0.parts[0][1])) == 1 and ref.split_refs(t0.parts[0][1])[0][0])
            if e.is_left() != bool(single):
                return False
            if e.is_left():
                if e.left() != t0.parts[0][1][2:len(t0.parts[0][1]) - 2]:
                    return False
                return _after_token_ok(ts, s, toks, err, 1, t0.end)
            sdv = e.right()
    except SingleInstructionInvalidArgumentException:
        # no string (end of text, unterminated quote) or an unquoted reserved word: a syntax error
        return want_error
    if want_error:
        return False
    t0 = toks[0]
    if c.get('oracle_bug') == 'any-hard-protects-all':
        # seeded oracle error (K3:mix): a hard-quoted fragment anywhere protects the whole token
        pieces = (_merge([(False, t0.string)]) if ref.is_mixed_hard(t0.parts) else _pieces_of_parts(t0.parts))
    else:
        pieces = _pieces_of_parts(t0.parts, soft_protects=bug)  # seeded oracle error: soft quotes protect too
    if not _sdv_agrees(sdv, pieces, va, vb):
        return False
    return _after_token_ok(ts, s, toks, err, 1, t0.end)


def k3_denote(h: str, va: str, vb: str) -> bool:
    """
    pre: _pre_k3(h, va, vb)
    post: _
    """
    _install_io()
    return ob.post(_k3_check(_text(ob.case()['mask'], h), va, vb))


K3_OUTSIDE = ('tokens in which a symbol reference is split over two adjacent fragments (e.g. `@[A"]@"`): undocumented',
              'a reserved word, `)`, backslash, `:>` or a whole symbol reference written naked with a quotation glued to '
              'it (e.g. `)""`, `=\'\'`, `@[A]@""`): whether it counts as unquoted is undocumented',
              'symbols of type path; symbol values other than the stated ones (values are only concatenated)')


K3_QUICK = [
    # one fragment of each form, holes inside and a following token
    '^^^', '"^^" ^', "'^^' ^",
    # references in each form, with neighbours
    '&@[A]@& a', '"&@[A]@&" a', "'&@[A]@&' a",
    # adjacent fragments of different forms (quote characters pinned, contents free)
    'a"^"^ ^', '"^"^\'^\'', "'^'\"^\"^", '^\'^\'"^"',
    '@[A]@"&@[B]@"&', '"@[A]@"&@[B]@&', "'@[A]@'&\"@[B]@\"", "&'@[A]@'@[B]@",
    'a&@[A]@\'&\' a', '"&"@[A]@\'&@[B]@\'',
    # the other parser entries
    ('"&@[A]@&"a ^', dict(entry='rich')), ("^'^'@[A]@ ^", dict(entry='rich')),
    ('@[A]@& ^', dict(entry='either')), ('"@[A]@"^^', dict(entry='either')), ('&@[A]@ ^', dict(entry='either')),
    # symbolic symbol values
    ('@[A]@"&@[B]@"', dict(symvalues=(1, 1))), ('"@[A]@"@[B]@&', dict(symvalues=(0, 2))),
]
K3_THOROUGH = [
    '^^^ ^', '^^^^', '"^^^" ^', "'^^^' ^", '^"^^"^', "^'^^'^",
    '&&@[A]@&& a', '"&@[A]@&@[B]@&"', '@[A]@&@[B]@& a',
    '^"^"\'^\' ^', "'^'^\"^\"'^'", '"@[A]@"&&\'@[B]@\'&', "&'@[A]@'&\"@[B]@\"&",
    ('@[A]@&"@[B]@"&@[L]@', dict(symvalues=(2, 1))),
]


# Tokens that mix hard-quoted fragments with fragments of the other forms AND contain reference syntax, where
# the references stand only in fragments of the first fragment's kind (so the tokens are outside the region
# C09-concat-quote-type whatever the holes are, except where a hole closes / opens a quotation): reference-like
# text inside leading hard quotes followed by naked / soft-quoted / empty fragments, references in leading soft
# or naked fragments followed by hard-quoted fragments, three fragments, each parser entry, symbolic values.
K3MIX_QUICK = [
    # hard-quoted reference text first; what follows has no reference
    "'@[A]@'&& a", "'&@[A]@'\"&\"&", "'@[A]@'&'@[B]@'", "'@[A]@&'\"&\"'@[B]@'", "'@[%]@'&&",
    # references in soft-quoted / naked fragments; the hard-quoted fragments have none
    "\"@[A]@\"'&'&", "@[A]@'&'\"@[B]@\"", "&@[A]@'&'@[B]@", "\"&@[A]@\"&'&'",
    # the other parser entries
    ("'@[A]@'&& ^", dict(entry='rich')), ("'@[A]@'& ^", dict(entry='either')),
    ("a@[A]@'&' ^", dict(entry='either')), ("\"@[A]@\"'&'^", dict(entry='rich')),
    # symbolic symbol values
    ("'@[A]@'&\"&\"", dict(symvalues=(1, 0))), ("@[A]@'&'\"@[B]@\"", dict(symvalues=(1, 1))),
]
K3MIX_THOROUGH = [
    "'&@[A]@&'&& a", "'@[A]@'&\"&\"&'@[B]@'", "&&@[A]@'&&'\"@[B]@\"&", "'@[%%]@'&&", "'%@[%]@%'&",
    ("'@[A]@@[B]@'&&", dict(symvalues=(2, 1))),
]


def _k3_obligations(tier: str) -> List[Ob]:
    obs = _mask_obs(tier, 'K3:', K3_QUICK, K3_THOROUGH, fn='k3_denote', kernel='K3', real=REAL_K3,
                    entry='parse_string.parse_string_from_token_parser(new_token_parser(source)) '
                          '[entry=rich: RichStringParser, entry=either: SymbolReferenceOrStringParser]',
                    stubs=(STUB_IO,), outside=K3_OUTSIDE, bound_suffix=_values_bound())
    obs += _mask_obs(tier, 'K3:mix:', K3MIX_QUICK, K3MIX_THOROUGH, fn='k3_denote', kernel='K3', real=REAL_K3,
                     entry='parse_string.parse_string_from_token_parser(new_token_parser(source)) '
                           '[entry=rich: RichStringParser, entry=either: SymbolReferenceOrStringParser]',
                     stubs=(STUB_IO,), outside=K3_OUTSIDE, bound_suffix=_values_bound(), timeout=600)
    obs.append(Ob(name='K3:mix:seeded-oracle-error', fn='k3_denote',
                  case=dict(mask="\"@[A]@\"'&'&", oracle_bug='any-hard-protects-all'), kernel='K3',
                  bound='seeded oracle error: a hard-quoted fragment anywhere in a token protects the whole token',
                  timeout=300, expect=ob.REFUTE, real=REAL_K3, stubs=(STUB_IO,)))
    obs.append(Ob(name='K3:seeded-oracle-error', fn='k3_denote', case=dict(mask='"@[A]@"&', oracle_bug=True),
                  kernel='K3', bound='seeded oracle error: soft quotes protect references too', timeout=300,
                  expect=ob.REFUTE, real=REAL_K3, stubs=(STUB_IO,)))
    return obs


# =========================================================================== K4  here-document

REAL_K4 = (
    'exactly_lib.impls.types.string_.parse_rich_string.RichStringParser.parse_from_token_parser',
    'exactly_lib.impls.types.string_.parse_rich_string.SymbolNameOrStringRichStringParser.parse_from_token_parser',
    'exactly_lib.impls.types.string_.parse_rich_string.HereDocParser.parse_from_token_parser',
    'exactly_lib.impls.types.string_.parse_rich_string.HereDocParser._parse_from_start_str',
    'exactly_lib.impls.types.string_.parse_rich_string.HereDocParser._parse_contents',
    'exactly_lib.impls.types.string_.parse_rich_string._sdv_from_lines',
    'exactly_lib.impls.types.string_.parse_string.string_sdv_from_string',
    'exactly_lib.definitions.primitives.string',
    'exactly_lib.util.str_.misc_formatting.lines_content',
    'exactly_lib.section_document.element_parsers.token_stream.TokenStream._consume_remaining_part_of_current_line',
    'exactly_lib.section_document.element_parsers.token_stream.TokenStream.consume',
    'exactly_lib.section_document.element_parsers.token_stream_parser.TokenParser.report_superfluous_arguments_if_not_at_eol',
    'exactly_lib.section_document.element_parsers.token_stream_parser.TokenParser.has_current_line',
    'exactly_lib.section_document.element_parsers.token_stream_parser.TokenParser.require_has_valid_head_token',
)

K4_MARKER = 'E'
K4_START = '<<E'


def _pre_k4(h: str, va: str, vb: str) -> bool:
    c = ob.case()
    if not _holes_ok(h, c['mask']) or not _values_ok(va, vb):
        return False
    s = _fill(c['mask'], h)
    # region: a `#` outside quotes on the line of the start marker
    if ob.excluded(REGION_HASH) and ref.has_unquoted(s[:_line_end(s, 0)], '#'):
        return False
    if ob.excluded(REGION_EOF):
        # the look-ahead is read after the start marker and at the end of every non-blank raw line
        e0 = _line_end(s, 0)
        starts = [e0]
        base = -1
        p = e0 + 1
        while p < len(s) and base == -1:
            e = _line_end(s, p)
            line = s[p:e]
            if line == K4_MARKER:
                base = e
            elif line.strip(ref.WS) != '':
                starts.append(e)
            p = e + 1
        if base != -1 and _lookahead_runs_to_end(s, starts, base):
            return False
    return True


def _k4_check(s: str, va: str, vb: str) -> bool:
    from exactly_lib.impls.types.string_ import parse_rich_string
    from exactly_lib.section_document.element_parsers.instruction_parser_exceptions import \
        SingleInstructionInvalidArgumentException
    from exactly_lib.section_document.element_parsers.token_stream_parser import new_token_parser
    bug = bool(ob.case().get('oracle_bug'))
    # --- documented reading: `<<E` alone on its line, then lines until the first line equal to `E`
    e0 = _line_end(s, 0)
    first = s[:e0]
    start_ok = first.strip(ref.WS) == K4_START
    lines = []
    offs = []
    if e0 < len(s):
        p = e0 + 1
        while p < len(s):
            e = _line_end(s, p)
            lines.append(s[p:e])
            offs.append(e)
            p = e + 1
    if bug:
        # seeded oracle error: surrounding space of the end marker line is ignored
        idx = -1
        for i in range(len(lines)):
            if lines[i].strip(' ') == K4_MARKER:
                idx = i
                break
    else:
        idx = ref.heredoc(lines, K4_MARKER)
    tp = new_token_parser(s)
    ts = tp.token_stream
    try:
        sdv = parse_rich_string.RichStringParser().parse_from_token_parser(tp)
    except parse_rich_string.HereDocumentContentsParsingException:
        # "end of file reached without finding MARKER"
        return start_ok and idx == -1
    except SingleInstructionInvalidArgumentException:
        return not start_ok
    if not start_ok or idx == -1:
        return False
    text = ref.lines_text(lines[:idx])
    if not _sdv_agrees(sdv, _merge(ref.split_refs(text)), va, vb):
        return False
    # the parser stops at the end of the line with the end marker; what follows is untouched
    if ts.position != offs[idx] or ts.remaining_source != s[offs[idx]:]:
        return False
    if ts.remaining_part_of_current_line != '':
        return False
    # ... and is still read correctly through the same stream (`)`, `&&`, options, the next line)
    return _continues_ok(ts, s, offs[idx])


def k4_heredoc(h: str, va: str, vb: str) -> bool:
    """
    pre: _pre_k4(h, va, vb)
    post: _
    """
    _install_io()
    return ob.post(_k4_check(_text(ob.case()['mask'], h), va, vb))


K4_QUICK = [
    '<<E', '<<E~~', '<<E\n$', '<<E\n$$', '<<E\n$$$',
    '<<E\n$$\nE\n$', '<<E\n$\n$\nE', '<<E\n$@[A]@\nE',
    '<<E~\n$\nE~$', '<<E \n"$\n$"\nE\n', '<<E\n$\n \nE\n\na', '<<E $$\nE\n',
    ('<<E\n@[A]@$\nE', dict(symvalues=(1, 1))),
    # a fixed continuation of the instruction after the end marker, read through the same stream
    '<<E\n$$\nE\n) || -x\nb',
]
K4_THOROUGH = [
    '<<E\n$$$$', '<<E\n@[A]@$\n$E\n$', '<<E\n$$\n$\nE\n', '<<E\n$\n$\n$E\n',
    "<<E\n'$\n$'$\nE\n", '<<E\n$@[A]@\n$@[B]@\nE$\nE',
]


def _k4_obligations(tier: str) -> List[Ob]:
    obs = _mask_obs(tier, 'K4:', K4_QUICK, K4_THOROUGH, fn='k4_heredoc', kernel='K4', real=REAL_K4,
                    entry='RichStringParser().parse_from_token_parser(new_token_parser(source))',
                    stubs=(STUB_IO,), outside=('markers other than `E`; a quoted start marker',),
                    bound_suffix=_values_bound())
    obs.append(Ob(name='K4:seeded-oracle-error', fn='k4_heredoc', case=dict(mask='<<E\n$$\nE', oracle_bug=True),
                  kernel='K4', bound='seeded oracle error: space around the end marker is ignored', timeout=300,
                  expect=ob.REFUTE, real=REAL_K4, stubs=(STUB_IO,)))
    return obs


# =========================================================================== K5  lists, text until end of line

REAL_K5L = (
    'exactly_lib.impls.types.list_.parse_list.parse_list_from_token_parser',
    'exactly_lib.impls.types.list_.parse_list._MkElement',
    'exactly_lib.impls.types.list_.generic_parser.ElementsUntilEndOfLineParser2.parse',
    'exactly_lib.impls.types.string_.parse_string.SymbolReferenceOrStringParser.parse',
    'exactly_lib.impls.types.string_.parse_string.parse_fragments_from_tokens__w_is_plain',
    'exactly_lib.type_val_deps.types.list_.defs',
    'exactly_lib.type_val_deps.types.list_.list_sdv.ListSdv.resolve',
    'exactly_lib.type_val_deps.types.list_.list_sdv.SymbolReferenceElementSdv.resolve',
    'exactly_lib.section_document.element_parsers.token_stream_parser.TokenParser.is_at_eol',
    'exactly_lib.section_document.element_parsers.token_stream_parser.TokenParser.has_valid_head_matching',
    'exactly_lib.section_document.element_parsers.token_stream.TokenStream._consume_remaining_part_of_current_line',
    'exactly_lib.section_document.element_parsers.token_stream.TokenStream.consume',
)
REAL_K5T = (
    'exactly_lib.impls.types.string_.parse_rich_string.RichStringParser.parse_from_token_parser',
    'exactly_lib.impls.types.string_.parse_rich_string.SymbolNameOrStringRichStringParser.parse_from_token_parser',
    'exactly_lib.impls.types.string_.parse_string.parse_rest_of_line_as_single_string',
    'exactly_lib.impls.types.string_.syntax_elements',
    'exactly_lib.section_document.element_parsers.token_stream.TokenStream._consume_remaining_part_of_current_line',
    'exactly_lib.section_document.element_parsers.token_stream.TokenStream.consume',
)


def _is_naked_word(t, word: str) -> bool:
    return len(t.parts) == 1 and t.parts[0][0] == ref.NAKED and t.parts[0][1] == word


def _ref_list(s: str, values, list_values, bug: bool):
    """Documented reading of a list: elements until end of line or an unquoted `)`; an unquoted
    backslash at the end of a line continues the list on the next line.
    -> ('error',) | ('ok', element strings or None if an undefined name is referenced, names, k, end)
       k: index of the reference token that follows the list, end: offset where the list's text ends"""
    toks, err = ref.tokenize(s)
    elements = []
    names = []
    defined = True
    k = 0
    line_end = _line_end(s, 0)
    end_prev = 0
    while True:
        if k >= len(toks):
            if err is not None and err <= line_end:
                return ('error',)
            return ('ok', elements if defined else None, names, k, line_end, True)
        t = toks[k]
        if t.start >= line_end:
            return ('ok', elements if defined else None, names, k, line_end, True)
        if _is_naked_word(t, '\\') and s[t.end:_line_end(s, t.end)].strip(ref.WS) == '' and not bug:
            # continuation (seeded oracle error: a backslash is an ordinary element)
            e = _line_end(s, t.end)
            k += 1
            if e >= len(s):
                return ('ok', elements if defined else None, names, k, e, True)
            end_prev = e + 1  # the list goes on at the start of the next line
            line_end = _line_end(s, e + 1)
            continue
        if _is_naked_word(t, ')'):
            return ('ok', elements if defined else None, names, k, end_prev, False)
        if _is_reserved_word_token(t):
            return ('error',)
        frs = ref.split_refs(t.parts[0][1]) if (len(t.parts) == 1 and t.parts[0][0] == ref.NAKED) else []
        if len(frs) == 1 and frs[0][0]:
            # an element that is a reference: a list is spliced in
            n = frs[0][1]
            names.append(n)
            if n in list_values:
                elements = elements + list_values[n]
            elif n in values:
                elements = elements + [values[n]]
            else:
                defined = False
        else:
            ns = _ref_names_of_parts(t.parts)
            names = names + ns
            if _names_defined(ns):
                elements = elements + [ref.denotation(t.parts, values)]
            else:
                defined = False
        k += 1
        end_prev = t.end
        line_end = _line_end(s, t.end)


def _pre_k5l(h: str, va: str, vb: str) -> bool:
    if not _pre_text(h, va, vb):
        return False
    s = _fill(ob.case()['mask'], h)
    toks, err = ref.tokenize(s)
    for t in toks:
        if ref.reference_straddles(t.parts) or _glued_special(t):
            return False
        if ob.excluded(REGION_MIXED) and ref.first_fragment_decides_wrongly(t.parts):
            return False
    return True


def _k5_list_check(s: str, va: str, vb: str) -> bool:
    from exactly_lib.impls.types.list_ import parse_list
    from exactly_lib.section_document.element_parsers.instruction_parser_exceptions import \
        SingleInstructionInvalidArgumentException
    from exactly_lib.section_document.element_parsers.token_stream_parser import new_token_parser
    bug = bool(ob.case().get('oracle_bug'))
    va, vb = _values(va, vb)
    want = _ref_list(s, _string_values(va, vb), {'L': [va, vb]}, bug)
    toks, err = ref.tokenize(s)
    tp = new_token_parser(s)
    ts = tp.token_stream
    try:
        sdv = parse_list.parse_list_from_token_parser(tp)
    except SingleInstructionInvalidArgumentException:
        return want[0] == 'error'
    if want[0] == 'error':
        return False
    _, elements, names, k, end, at_eol = want
    if [r.name for r in sdv.references] != names:
        return False
    if at_eol:
        # the list's line(s) are used up; the stream stands at the end of the last line of the list
        if ts.position != end or ts.remaining_source != s[end:]:
            return False
    elif not _after_token_ok(ts, s, toks, err, k, end):
        return False
    if elements is not None:
        got = sdv.resolve(_symbol_table(va, vb)).value_when_no_dir_dependencies()
        if got != elements:
            return False
    return True


def k5_list(h: str, va: str, vb: str) -> bool:
    """
    pre: _pre_k5l(h, va, vb)
    post: _
    """
    _install_io()
    return ob.post(_k5_list_check(_text(ob.case()['mask'], h), va, vb))


def _k5_text_check(s: str, va: str, vb: str) -> bool:
    from exactly_lib.impls.types.string_ import parse_rich_string
    from exactly_lib.section_document.element_parsers.token_stream_parser import new_token_parser
    bug = bool(ob.case().get('oracle_bug'))
    toks, err = ref.tokenize(s)
    if not (len(toks) > 0 and _is_naked_word(toks[0], ':>')):
        return True  # not a text-until-end-of-line (K3)
    e0 = _line_end(s, toks[0].end)
    text = s[toks[0].end:e0]
    text = text if bug else text.strip(ref.WS)  # seeded oracle error: surrounding space is kept
    tp = new_token_parser(s)
    ts = tp.token_stream
    sdv = parse_rich_string.RichStringParser().parse_from_token_parser(tp)
    if not _sdv_agrees(sdv, _merge(ref.split_refs(text)), va, vb):
        return False
    if not (ts.position == e0 and ts.remaining_source == s[e0:]):
        return False
    return _continues_ok(ts, s, e0)


def _pre_k5t(h: str, va: str, vb: str) -> bool:
    c = ob.case()
    if not _holes_ok(h, c['mask']) or not _values_ok(va, vb):
        return False
    s = _fill(c['mask'], h)
    # region: only a `#` glued to the `:>` marker matters (the text itself is not tokenized)
    if ob.excluded(REGION_HASH) and ref.has_unquoted(s[:s.find(':>') + 3], '#'):
        return False
    if ob.excluded(REGION_EOF):
        i = s.find(':>')
        if _lookahead_runs_to_end(s, [i + 2], _line_end(s, i + 2)):
            return False
    return True


def k5_text(h: str, va: str, vb: str) -> bool:
    """
    pre: _pre_k5t(h, va, vb)
    post: _
    """
    _install_io()
    return ob.post(_k5_text_check(_text(ob.case()['mask'], h), va, vb))


K5L_QUICK = [
    '!!!', 'a !\n!', 'a \\~!!', '!! )!', '"a!"!!',
    '@[L]@ !\n!', 'a @[A]@!\\\n@[L]@ !', '~= a', '!\\!\n!', '"@[L]@"!@[L]@',
    ('@[L]@ @[A]@!', dict(symvalues=(1, 1))),
]
K5L_THOROUGH = ['!!!!', 'a \\\n!!~!', 'a !!\n!!', '! \\\n!! !', '@[L]@ "!@[A]@" !!']
# list elements that mix hard-quoted fragments with other fragments and contain reference syntax (outside the
# region C09-concat-quote-type, see K3MIX_QUICK): the element is one element, hard-quoted text is literal
K5LMIX_QUICK = [
    "'@[A]@'!! a", "a '@[L]@'!!", "\"@[A]@\"'!'!", "@[L]@ '@[A]@'!\\\n'@[B]@'!", "a@[A]@'!' !",
    ("'@[A]@'! @[A]@", dict(symvalues=(1, 1))),
]
K5LMIX_THOROUGH = ["'@[A]@'!!! a", "'@[L]@'! \"@[L]@\"'!'!", "! '@[A]@@[B]@'!!"]
K5T_QUICK = [
    ':>***', ':> *\n*', ':>~@[A]@*~', ':>*"*\n"', ' :> *a* \na',
    (':> @[A]@*', dict(symvalues=(2, 0))),
    ':> **\n) || -x',
]
K5T_THOROUGH = [':> **\n*', ':>~@[A]@*~*', ':>*****', ':> *@[A]@*@[B]@\n*']


def _k5_obligations(tier: str) -> List[Ob]:
    obs = _mask_obs(tier, 'K5:list:', K5L_QUICK, K5L_THOROUGH, fn='k5_list', kernel='K5', real=REAL_K5L,
                    entry='parse_list.parse_list_from_token_parser(new_token_parser(source))', stubs=(STUB_IO,),
                    outside=K3_OUTSIDE + ('a list-valued symbol referenced from a token that also has quoted fragments',),
                    bound_suffix=_values_bound())
    obs += _mask_obs(tier, 'K5:list:mix:', K5LMIX_QUICK, K5LMIX_THOROUGH, fn='k5_list', kernel='K5', real=REAL_K5L,
                     entry='parse_list.parse_list_from_token_parser(new_token_parser(source))', stubs=(STUB_IO,),
                     outside=K3_OUTSIDE + ('a list-valued symbol referenced from a token that also has quoted fragments',),
                     bound_suffix=_values_bound(), timeout=300)
    obs += _mask_obs(tier, 'K5:text:', K5T_QUICK, K5T_THOROUGH, fn='k5_text', kernel='K5', real=REAL_K5T,
                     entry='RichStringParser().parse_from_token_parser(new_token_parser(source))', stubs=(STUB_IO,),
                     bound_suffix=_values_bound())
    obs.append(Ob(name='K5:list:seeded-oracle-error', fn='k5_list', case=dict(mask='a \\\n!', oracle_bug=True),
                  kernel='K5', bound='seeded oracle error: a backslash at end of line is an ordinary element',
                  timeout=300, expect=ob.REFUTE, real=REAL_K5L, stubs=(STUB_IO,)))
    obs.append(Ob(name='K5:text:seeded-oracle-error', fn='k5_text', case=dict(mask=':> *', oracle_bug=True),
                  kernel='K5', bound='seeded oracle error: space around the text is kept',
                  timeout=300, expect=ob.REFUTE, real=REAL_K5T, stubs=(STUB_IO,)))
    return obs


# =========================================================================== K6  quoted words are never syntax

REAL_K6W = (
    'exactly_lib.util.parse.token_matchers.is_option',
    'exactly_lib.util.parse.token_matchers.is_unquoted_and_equals',
    'exactly_lib.util.parse.token_matchers.is_unquoted_and_equals_any',
    'exactly_lib.util.parse.token_matchers._Equals.matches',
    'exactly_lib.util.parse.token_matchers._IsUnquotedAndEqualsAny.matches',
    'exactly_lib.util.parse.token.Token',
    'exactly_lib.util.cli_syntax.option_parsing.matches',
    'exactly_lib.definitions.test_case.reserved_tokens',
    'exactly_lib.section_document.element_parsers.misc_utils.is_option_token',
    'exactly_lib.impls.types.string_.parse_rich_string.HereDocArgTokenMatcher.matches',
    'exactly_lib.section_document.element_parsers.token_stream_parser.TokenParser.head_is_unquoted_and_equals',
    'exactly_lib.section_document.element_parsers.token_stream_parser.TokenParser.has_valid_head_matching',
    'exactly_lib.section_document.element_parsers.token_stream_parser.TokenParser.has_valid_head_matching__consume',
    'exactly_lib.section_document.element_parsers.token_stream_parser.TokenParser.'
    'consume_and_return_true_if_first_argument_is_unquoted_and_equals',
    'exactly_lib.section_document.element_parsers.token_stream_parser.TokenParser.'
    'consume_optional_constant_string_that_must_be_unquoted_and_equal',
    'exactly_lib.section_document.element_parsers.token_stream_parser.TokenParser.'
    'consume_mandatory_constant_string_that_must_be_unquoted_and_equal',
    'exactly_lib.section_document.element_parsers.token_stream_parser.TokenParser.consume_mandatory_unquoted_string',
    'exactly_lib.section_document.element_parsers.token_stream_parser.TokenParser.consume_mandatory_keyword',
    'exactly_lib.section_document.element_parsers.token_stream_parser.TokenParser.parse_optional_command',
    'exactly_lib.section_document.element_parsers.token_stream_parser.TokenParser.parse_mandatory_command',
    'exactly_lib.section_document.element_parsers.token_stream_parser.TokenParser.head_matches',
    'exactly_lib.section_document.element_parsers.token_stream_parser.TokenParser.consume_optional_option',
    'exactly_lib.section_document.element_parsers.token_stream_parser.TokenParser.consume_and_handle_first_matching_option',
    'exactly_lib.section_document.element_parsers.token_stream_parser.TokenParser.consume_and_handle_first_matching_option_2',
    'exactly_lib.section_document.element_parsers.token_stream_parser.TokenParser.parse_mandatory_option',
    'exactly_lib.section_document.element_parsers.token_stream_parser.TokenParser.'
    'consume_optional_option_with_mandatory_argument',
)
REAL_K6P = (
    'exactly_lib.util.parse.token_matchers.is_option',
    'exactly_lib.util.parse.token_matchers._Equals.matches',
    'exactly_lib.section_document.element_parsers.token_stream_parsing.parse_mandatory_choice_with_default',
    'exactly_lib.section_document.element_parsers.token_stream_parsing.parse_mandatory_choice_with_default2',
    'exactly_lib.section_document.element_parsers.token_stream_parsing.parse_mandatory_choice',
    'exactly_lib.section_document.element_parsers.token_stream_parsing.parse_optional_choice_with_default',
    'exactly_lib.impls.types.string_source.parse._StringSourceParserWoParens',
    'exactly_lib.impls.types.program.parse.parse_arguments._ElementParser',
    'exactly_lib.impls.types.program.parse.parse_executable_file_path._Parser',
    'exactly_lib.impls.types.string_transformer.impl.case_converters',
    'exactly_lib.impls.types.string_transformer.impl.strip_space',
    'exactly_lib.impls.types.string_transformer.impl.filter.parse',
    'exactly_lib.impls.types.string_.parse_rich_string.SymbolNameOrStringRichStringParser.parse_from_token_parser',
)


def _pre_k6w(w: int, q: int) -> bool:
    from harness import _C09_k6 as k6
    return 0 <= w < len(k6.WORDS) and 0 <= q <= 2


def k6_words(w: int, q: int) -> bool:
    """
    pre: _pre_k6w(w, q)
    post: _
    """
    from harness import _C09_k6 as k6
    wi = ob.concrete_int(w, 0, len(k6.WORDS) - 1)
    qi = ob.concrete_int(q, 0, 2)
    with k6.untraced():
        r = k6.recognizers_ok(k6.WORDS[wi], qi, bool(ob.case().get('oracle_bug')))
    return ob.post(r)


def _pre_k6p(w: int, q: int) -> bool:
    from harness import _C09_k6 as k6
    return 0 <= w < k6.N_WORDS[ob.case()['position']] and 0 <= q <= 2


def k6_position(w: int, q: int) -> bool:
    """
    pre: _pre_k6p(w, q)
    post: _
    """
    from harness import _C09_k6 as k6
    name = ob.case()['position']
    wi = ob.concrete_int(w, 0, k6.N_WORDS[name] - 1)
    qi = ob.concrete_int(q, 0, 2)
    with k6.untraced():
        r = k6.position_ok(name, wi, qi, bool(ob.case().get('oracle_bug')))
    return ob.post(r)


def _k6_obligations(tier: str) -> List[Ob]:
    from harness import _C09_k6 as k6
    quotings = 'quoting in {naked, soft-quoted, hard-quoted}'
    obs = [Ob(name='K6:words', fn='k6_words', case=dict(), kernel='K6', selector=True,
              bound='every word of the catalogue %s x %s, followed by a token `t`: every token matcher / TokenParser '
                    'keyword and option method' % (', '.join('`%s`' % x for x in k6.WORDS), quotings),
              timeout=300, real=REAL_K6W, entry='new_token_parser(source) + TokenParser / token_matchers',
              outside=('a syntax word written partly quoted (`-contents"-of"`): whether it is unquoted is undocumented',))]
    for name in k6.POSITION_NAMES:
        obs.append(Ob(name='K6:pos:' + name, fn='k6_position', case=dict(position=name), kernel='K6', selector=True,
                      bound='position %s: every word of {%s} x %s; the quoted word is parsed like any other quoted word, '
                            'denotes the word itself and leaves what follows untouched; the naked word is not read as a '
                            'string' % (name, ', '.join(k6.position_words(name)), quotings),
                      timeout=300, real=REAL_K6P, entry='the real parser of the position on new_token_parser(source)',
                      outside=('values that need a directory structure or a process (only their parse is observed)',)))
    obs.append(Ob(name='K6:words:seeded-oracle-error', fn='k6_words', case=dict(oracle_bug=True), kernel='K6',
                  bound='seeded oracle error: soft quotes do not protect a syntax word', timeout=300,
                  expect=ob.REFUTE, real=REAL_K6W, selector=True))
    obs.append(Ob(name='K6:pos:seeded-oracle-error', fn='k6_position',
                  case=dict(position='string-source', oracle_bug=True), kernel='K6',
                  bound='seeded oracle error: the naked option is read like any other word', timeout=300,
                  expect=ob.REFUTE, real=REAL_K6P, selector=True))
    return obs


# =========================================================================== obligations

def obligations(tier: str) -> List[Ob]:
    obs = []
    obs += _k1_obligations(tier)
    obs += _k2_obligations(tier)
    obs += _k3_obligations(tier)
    obs += _k4_obligations(tier)
    obs += _k5_obligations(tier)
    obs += _k6_obligations(tier)
    return obs


# =========================================================================== self-test (concrete; not the deciding step)

def selftest(tier: str) -> int:
    """Concrete comparison of the stand-ins and reference oracles with the real thing (real io.StringIO):
    raises on mismatch, returns the number of cases compared."""
    import itertools
    import re
    from vsym import stubs
    from harness import _C09_io
    from exactly_lib.section_document.element_parsers.token_stream import TokenStream, LookAheadState
    from exactly_lib.symbol import symbol_syntax
    n = stubs.selftest_sym_string_io()
    n += _C09_io.selftest()
    # every character of every alphabet: the finite name-character set agrees with str.isalnum
    chars = set(K1_ALPHABET + K1_ALPHABET_U + K2_ALPHABET_U + 'ABLEx<>:)=' + ''.join(HOLES.values()))
    for c in sorted(chars):
        if ref.is_name_char(c) != (c.isalnum() or c == '_'):
            raise AssertionError('NAME_CHARS disagrees with str.isalnum on %r' % c)
        n += 1
    # hole alphabets and their descriptions are in step
    assert set(HOLES) == set(HOLE_NAMES)

    # reference tokenizer vs the real TokenStream, outside the `#` region
    def real_tokens(src):
        ts = TokenStream(src)
        out = []
        while ts.look_ahead_state is LookAheadState.HAS_TOKEN:
            out.append((ts.head.string, ts.head.source_string))
            ts.consume()
        return out, ts.look_ahead_state is LookAheadState.SYNTAX_ERROR

    for alphabet, maxlen in (('a "\'\n', 5), (K1_ALPHABET, 4 if tier == 'quick' else 5)):
        for ln in range(maxlen + 1):
            for tup in itertools.product(alphabet, repeat=ln):
                src = ''.join(tup)
                if ref.has_unquoted(src, '#'):
                    continue
                toks, err = ref.tokenize(src)
                want = ([(t.string, src[t.start:t.end]) for t in toks], err is not None)
                got = real_tokens(src)
                if got != want:
                    raise AssertionError('reference tokenizer differs from TokenStream on %r: %r vs %r' % (src, want, got))
                n += 1
                span = ref.first_token_span(src, 0)
                want_span = ((toks[0].start, toks[0].end) if toks else
                             None if err is None else (err, -1))
                if span != want_span:
                    raise AssertionError('first_token_span differs from tokenize on %r: %r vs %r' % (src, span, want_span))
    # reference splitter vs symbol_syntax.split, and the properties the fragmentation must have
    ref_re = re.compile(r'@\[[A-Za-z0-9_\xe9]+\]@')
    for alphabet, maxlen in (('@[]a_-', 6 if tier == 'quick' else 7), (K2_ALPHABET_U, 5)):
        for ln in range(maxlen + 1):
            for tup in itertools.product(alphabet, repeat=ln):
                t = ''.join(tup)
                frs = ref.split_refs(t)
                if frs != _frag_list(symbol_syntax.split(t)):
                    raise AssertionError('reference splitter differs from symbol_syntax.split on %r' % t)
                if ref.render_refs(frs) != t:
                    raise AssertionError('split_refs does not round-trip on %r' % t)
                prev_const = False
                for is_sym, x in frs:
                    if is_sym:
                        assert x != '' and all(ref.is_name_char(c) for c in x), t
                    else:
                        assert x != '' and not prev_const and not ref_re.search(x), t
                    prev_const = not is_sym
                n += 1
    # documented examples
    vals = {'S': 'VAL'}
    for src, want in (('a', 'a'), ('"a b"', 'a b'), ("'a b'", 'a b'), ('a"b c"\'d\'', 'ab cd'), ('@[S]@', 'VAL'),
                      ('"x @[S]@"', 'x VAL'), ("'@[S]@'", '@[S]@'), ('a#b', 'a#b'), ('\\a', '\\a'),
                      ('pre@[S]@\'@[S]@\'"@[S]@"', 'preVAL@[S]@VAL')):
        toks, err = ref.tokenize(src)
        assert err is None and len(toks) == 1, src
        if ref.denotation(toks[0].parts, vals) != want:
            raise AssertionError('reference denotation of %r: %r' % (src, ref.denotation(toks[0].parts, vals)))
        n += 1
    assert ref.tokenize('a "b')[1] == 2 and ref.tokenize("a 'b c")[1] == 2
    assert ref.heredoc(['a', ' E', 'E', 'E'], 'E') == 2 and ref.heredoc(['a'], 'E') == -1
    return n


ASSUMPTIONS = [
    'io.StringIO is replaced (inside token_stream only) by a pure-Python StringIO with character offsets and no newline '
    'translation; shlex itself is the real stdlib module and is executed symbolically',
    'the symbols A, B (strings) and L (list [A, B]) are defined; references to other names are checked up to the '
    'reported reference list only (resolution of undefined names is C08)',
]

OUTSIDE = [
    'texts longer than the stated masks; characters outside the stated alphabets (tab, CR, other Unicode)',
    'a symbol reference that is split over two adjacent fragments of one token',
    'quoted here-document start markers and markers other than `E`',
]
