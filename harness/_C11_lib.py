"""Helpers of the C11 harness.  Nothing here models exactly_lib.

* `Recorder`: stands in for the `subprocess` module at exactly_lib's process-starting sites
  (`process_executor.subprocess`, `preprocessor.subprocess`).  It starts nothing and records, for
  every process exactly_lib asks for: the command line, the environment the child would see
  (`env=`; None = the child inherits the environment of the calling process, so os.environ AT
  THAT MOMENT is recorded), `timeout=`, and the current directory the child would start in
  (`cwd=` if given, otherwise os.getcwd() at that moment), and the text on its stdin.  The recorded processes are the
  probe programs of the property.
* `run_main_program`: the REAL `MainProgram.execute([FILE])` in process, with a deterministic
  sandbox resolver and in-memory stdout / stderr.
* `parse_case` / `instruction_environment`: real parser, and the arguments of `main` of an
  instruction, for the kernels that drive single instructions.
"""
import os
import pathlib
import subprocess as _real_subprocess
from typing import Dict, List, Optional

from vsym import scratch


class Call:
    def __init__(self, tag: str, env: Dict[str, str], env_was_none: bool, timeout, cwd: str, shell: bool, stdin_text=None):
        self.tag = tag
        self.stdin_text = stdin_text  # what the child could read from its stdin (None: nothing given)
        self.env = env
        self.env_was_none = env_was_none
        self.timeout = timeout
        self.cwd = cwd
        self.shell = shell

    def __repr__(self):
        return 'Call(%r, env=%r, timeout=%r, cwd=%r)' % (self.tag, self.env, self.timeout, self.cwd)


class Recorder:
    DEVNULL = _real_subprocess.DEVNULL
    PIPE = _real_subprocess.PIPE
    STDOUT = _real_subprocess.STDOUT
    TimeoutExpired = _real_subprocess.TimeoutExpired
    SubprocessError = _real_subprocess.SubprocessError
    CalledProcessError = _real_subprocess.CalledProcessError

    def __init__(self, inherited_environ=None, stdout_of=None):
        """inherited_environ: callable giving the environment a child inherits when env=None
        (default: the real os.environ)."""
        self.calls: List[Call] = []
        self._inherited = inherited_environ if inherited_environ is not None else (lambda: dict(os.environ))
        self._stdout_of = stdout_of

    def call(self, args, stdin=None, stdout=None, stderr=None, env=None, timeout=None, shell=False, cwd=None, **extra):
        if extra:
            raise ValueError('subprocess stand-in: keyword arguments outside the assumed contract: %r' % sorted(extra))
        tag = args if isinstance(args, str) else ' '.join(str(a) for a in args)
        seen = dict(self._inherited()) if env is None else dict(env)
        stdin_text = stdin.read() if stdin is not None and hasattr(stdin, 'read') else None
        self.calls.append(Call(tag, seen, env is None, timeout, os.getcwd() if cwd is None else str(cwd), shell, stdin_text))
        if self._stdout_of is not None and stdout is not None and hasattr(stdout, 'write'):
            stdout.write(self._stdout_of(tag))
        return 0

    def __getattr__(self, name):
        raise AttributeError('subprocess stand-in: %s is outside the assumed contract' % name)


def install(recorder):
    from exactly_lib.util.process_execution import process_executor
    from exactly_lib.processing import preprocessor
    process_executor.subprocess = recorder
    preprocessor.subprocess = recorder


def uninstall():
    install(_real_subprocess)


class Sink:
    def __init__(self):
        self.parts = []

    def write(self, s):
        self.parts.append(s)
        return len(s)

    def flush(self):
        pass

    def isatty(self):
        return False

    def value(self) -> str:
        return ''.join(self.parts)


class _Null:
    def __enter__(self):
        return self

    def __exit__(self, *a):
        return False


def untraced():
    """Suspends CrossHair's byte-code tracer (no-op on plain CPython).  Used ONLY by the [selector]
    kernel, after every symbolic selector has been made a concrete int: the real code then runs
    natively on concrete data and CrossHair's role is the exhaustive enumeration of the selectors."""
    try:
        from crosshair.tracers import NoTracing, is_tracing
    except ImportError:
        return _Null()
    if not is_tracing():
        return _Null()
    return NoTracing()


# ----------------------------------------------------------------------------- whole program

_MAIN_PROGRAM = {}


def _main_program(resolver_box):
    import io
    from exactly_lib.cli import main_program
    from exactly_lib.cli_default import default_main_program_setup as d
    if 'mp' not in _MAIN_PROGRAM:
        _MAIN_PROGRAM['mp'] = main_program.MainProgram(
            d.test_case_handling_setup.setup(), lambda: resolver_box[0](),
            d.TestCaseDefinitionForMainProgram(
                d.TestCaseParsingSetup(d.instruction_name_and_argument_splitter.splitter,
                                       d.default_instructions_setup.INSTRUCTIONS_SETUP, d.ActPhaseParser()),
                d.builtin_symbols.ALL),
            d.test_suite.test_suite_definition(), io.DEFAULT_BUFFER_SIZE)
        _MAIN_PROGRAM['box'] = resolver_box
    return _MAIN_PROGRAM['mp'], _MAIN_PROGRAM['box']


class ProgramRun:
    def __init__(self):
        self.rc = None
        self.exception = None
        self.stdout = ''
        self.stderr = ''
        self.calls: List[Call] = []
        self.sandbox_roots: List[str] = []
        self.cwd_before = None
        self.cwd_after = None
        self.environ_before = None
        self.environ_after = None

    @property
    def ident(self) -> str:
        return self.stdout.split('\n')[0]

    @property
    def act_dir(self) -> str:
        return os.path.join(os.path.realpath(self.sandbox_roots[0]), 'act')


def run_main_program(text: str, recorder: Recorder, files_in_home=()) -> ProgramRun:
    """Writes `text` to a test-case file in a fresh scratch directory (the home directory of the case,
    with the files `files_in_home`: (name, contents)) and runs the REAL main program on it, in process."""
    from exactly_lib.util.file_utils.std import StdOutputFiles
    run = ProgramRun()
    work = scratch.new_dir('c11')
    case_dir = os.path.join(work, 'case')
    os.mkdir(case_dir)
    path = os.path.join(case_dir, 't.case')
    with open(path, 'w') as f:
        f.write(text)
    for name, contents in files_in_home:
        with open(os.path.join(case_dir, name), 'w') as f:
            f.write(contents)

    def resolver() -> str:
        p = os.path.join(work, 'sandbox-%d' % (len(run.sandbox_roots) + 1))
        os.mkdir(p)
        run.sandbox_roots.append(p)
        return p

    mp, box = _main_program([resolver])
    box[0] = resolver
    out, err = Sink(), Sink()
    run.cwd_before = os.getcwd()
    run.environ_before = dict(os.environ)
    install(recorder)
    try:
        try:
            run.rc = mp.execute([path], StdOutputFiles(out, err))
        except Exception as e:  # noqa
            run.exception = e
        run.cwd_after = os.getcwd()
        run.environ_after = dict(os.environ)
    finally:
        uninstall()
        try:
            os.chdir(run.cwd_before)
        except OSError:
            pass
        scratch.remove(work)
    run.stdout, run.stderr = out.value(), err.value()
    run.calls = list(recorder.calls)
    return run


# ----------------------------------------------------------------------------- single instructions

_PARSER = None
_CASES: Dict[str, object] = {}


def _parser():
    global _PARSER
    if _PARSER is None:
        from exactly_lib.cli_default.program_modes.test_case import default_instructions_setup
        from exactly_lib.common import instruction_name_and_argument_splitter
        from exactly_lib.processing.instruction_setup import TestCaseParsingSetup
        from exactly_lib.processing.parse import test_case_parser
        from exactly_lib.processing.parse.act_phase_source_parser import ActPhaseParser
        _PARSER = test_case_parser.new_parser(TestCaseParsingSetup(
            instruction_name_and_argument_splitter.splitter,
            default_instructions_setup.INSTRUCTIONS_SETUP,
            ActPhaseParser()))
    return _PARSER


def parse_case(text: str):
    """The REAL test-case parser with the default instruction set; cached per (concrete) text: the
    parsed document is immutable (instructions hold SDVs)."""
    if text not in _CASES:
        from exactly_lib.processing.test_case_processing import TestCaseFileReference
        from exactly_lib.section_document.parse_source import ParseSource
        _CASES[text] = _parser().apply(
            TestCaseFileReference(pathlib.Path('/vsym/case.case'), pathlib.Path('/vsym')), ParseSource(text))
    return _CASES[text]


HDS = '/vsym/c11-home'
SDS = '/vsym/c11-sandbox'


def instruction_environment(symbols, timeout: Optional[int], environ):
    """The environment argument of `main` (what _PartialExecutor._post_sds_environment builds), on
    directories that do not exist: nothing in the kernels that use it touches the file system."""
    from types import MappingProxyType
    from exactly_lib.tcfs.hds import HomeDs
    from exactly_lib.tcfs.sds import SandboxDs
    from exactly_lib.test_case.phases.instruction_environment import InstructionEnvironmentForPostSdsStep, TmpFileStorage
    from exactly_lib.util.file_utils.dir_file_spaces import DirFileSpaceThatMustNoBeUsed
    from exactly_lib.util.process_execution.execution_elements import ProcessExecutionSettings
    hds = HomeDs(pathlib.Path(HDS), pathlib.Path(HDS))
    return InstructionEnvironmentForPostSdsStep(
        hds, ProcessExecutionSettings(timeout, None if environ is None else MappingProxyType(environ)), SandboxDs(SDS),
        TmpFileStorage(pathlib.Path(SDS) / 'tmp-unused', lambda p: DirFileSpaceThatMustNoBeUsed('C11')),
        symbols, 2 ** 10)


def pre_sds_environment(symbols, timeout: Optional[int] = None):
    from exactly_lib.tcfs.hds import HomeDs
    from exactly_lib.test_case.phases.instruction_environment import InstructionEnvironmentForPreSdsStep
    from exactly_lib.util.process_execution.execution_elements import ProcessExecutionSettings
    hds = HomeDs(pathlib.Path(HDS), pathlib.Path(HDS))
    return InstructionEnvironmentForPreSdsStep(hds, ProcessExecutionSettings(timeout, None), symbols, 2 ** 10)


def string_symbol(value: str):
    """The container `def string NAME = ...` would have put into the symbol table (value may be symbolic)."""
    from exactly_lib.symbol.sdv_structure import SymbolContainer
    from exactly_lib.symbol.value_type import ValueType
    from exactly_lib.type_val_deps.types.string_ import string_sdvs
    return SymbolContainer(string_sdvs.str_constant(value), ValueType.STRING, None)
