"""C07  Test-case file structure: phases, merging, inclusion, source locations.

Kernels (DESIGN.md section 4, C07; K6 and K7 were added while building the harness):
  K1  ParseSource: line / column / remaining-source bookkeeping under sequences of consume operations
      (text and counts symbolic) against a position-based model.
  K2  header / comment / empty line syntax (line symbolic) against regex-free predicates.
  K5  act-phase un-escaping (line symbolic), through the real ActPhaseParser.
  K3  document level, character-symbolic: the real DocumentParserForSectionsConfiguration over a
      two-section configuration with the real standard element parser.
  K4  the program's own parsing glue (processors._Parser -> test_case_parser.new_parser) on files of symbolic
      line kinds: A one file, all line kinds; B permutation of phase blocks (metamorphic: real vs real, plus
      the reference reader); C inclusion graphs (one / two levels, sub-directory, cycles of length 1-3,
      missing files, empty files) on a real scratch directory.  [selector]
  K6  one instruction element, character-symbolic, through the same entry as K4: description, blank and comment
      lines before the instruction, instruction name / argument split, error lines; and (form-feed family) lines
      of white space other than space and tab.
  K7  the same entry with the instruction set of the program itself (default INSTRUCTIONS_SETUP): a header line
      always begins a new block - the file reads as its header-delimited blocks read one by one (metamorphic,
      real vs real).  [selector]   Known finding region: C07-header-swallowed-by-instruction.

Reference oracles: harness/_C07_ref.py (no exactly_lib import, no regular expressions).
Notes on oracle choices that are not obvious from the property statement:
  * the source lines of an act-phase element are the UN-ESCAPED lines (the same LineSequence is the act source);
  * the source of an instruction element begins at the instruction name (description and leading space are not
    part of it) and ends with its last line;
  * a `description without instruction` error is reported on the last blank / comment line that follows the
    description (or the description's first line if there is none);
  * an error of an instruction's arguments is reported from the instruction name on, or as the whole first line.
"""
from typing import List

from harness import _C07_ref as ref
from harness import _C07_k4 as _k4
from harness import _C07_k8 as _k8
from harness import _C07_k9 as _k9
from vsym import ob
from vsym.ob import Ob

PROPERTY = 'C07'

# =========================================================================== K1  ParseSource

REAL_K1 = (
    'exactly_lib.section_document.parse_source.ParseSource.__init__',
    'exactly_lib.section_document.parse_source.ParseSource.consume',
    'exactly_lib.section_document.parse_source.ParseSource.consume_current_line',
    'exactly_lib.section_document.parse_source.ParseSource.consume_part_of_current_line',
    'exactly_lib.section_document.parse_source.ParseSource.consume_initial_space_on_current_line',
    'exactly_lib.section_document.parse_source.ParseSource.is_at_eof',
    'exactly_lib.section_document.parse_source.ParseSource.is_at_eol',
    'exactly_lib.section_document.parse_source.ParseSource.remaining_source',
    'exactly_lib.section_document.parse_source.ParseSource.remaining_part_of_current_line',
    'exactly_lib.section_document.parse_source.ParseSource.current_line',
    'exactly_lib.section_document.parse_source.ParseSource.catch_up_with',
    'exactly_lib.section_document.parse_source._index_of_1st_char_on_new_current_line',
)

K1_OPS = ('consume', 'line', 'part', 'space')
K1_N_NOTE = ('counts n > (longest text) + 1: every count greater than the remaining length takes the same first-line guard of '
             'consume / consume_part_of_current_line; the guard formats n into the ValueError message, which makes an '
             'unbounded symbolic n enumerate, so n is bounded')
K1_ALPHABET = 'a \n'


def _in_alphabet(s: str, alphabet: str) -> bool:
    for ch in s:
        if ch not in alphabet:
            return False
    return True


def _pre_k1(t: str, n1: int, n2: int) -> bool:
    c = ob.case()
    tl = c['maxlen'] - len(c.get('prefix', ''))
    if c.get('exact'):
        if len(t) != tl:
            return False
    elif len(t) > tl:
        return False
    if not _in_alphabet(t, K1_ALPHABET):
        return False
    ops = c['ops']
    ns = (n1, n2)
    for i in range(2):
        takes_n = i < len(ops) and ops[i] in ('consume', 'part')
        if takes_n:
            # upper bound: see K1_N_NOTE
            if ns[i] < 0 or ns[i] > c['maxlen'] + 1:
                return False
        elif ns[i] != 0:
            return False
    return True


def _k1_obs_real(ps):
    if not ps.has_current_line:
        return (False, ps.is_at_eof, ps.remaining_source)
    ln = ps.current_line
    return (True, ps.is_at_eof, ps.remaining_source, ps.current_line_number, ps.current_line_text,
            ps.column_index, ps.remaining_part_of_current_line, ps.is_at_eol, ln.line_number, ln.text)


def _k1_obs_model(m, bug: bool):
    if not m.alive:
        return (False, m.is_at_eof(), m.remaining_source())
    num = m.line_number()
    if bug and m.column() == 0 and m.p > 0:
        num -= 1  # seeded oracle error: a position just after a newline still belongs to the line before
    return (True, m.is_at_eof(), m.remaining_source(), num, m.line_text(),
            m.column(), m.remaining_part_of_line(), m.is_at_eol(), num, m.line_text())


def _k1_apply(op: str, n: int, ps, m):
    """-> (applicable, real_ok, model_ok)"""
    if op in ('part', 'space') and not m.alive:
        return False, True, True  # documented pre-condition of the operation: has_current_line
    if op == 'consume':
        mok = m.consume(n)
        f = lambda: ps.consume(n)
    elif op == 'line':
        mok = m.consume_current_line()
        f = ps.consume_current_line
    elif op == 'part':
        mok = m.consume_part_of_current_line(n)
        f = lambda: ps.consume_part_of_current_line(n)
    else:
        mok = m.consume_initial_space()
        f = ps.consume_initial_space_on_current_line
    try:
        f()
        rok = True
    except ValueError:
        rok = False
    return True, rok, mok


def k1_parse_source(t: str, n1: int, n2: int) -> bool:
    """
    pre: _pre_k1(t, n1, n2)
    post: _
    """
    from exactly_lib.section_document.parse_source import ParseSource
    c = ob.case()
    s = c.get('prefix', '') + t
    bug = bool(c.get('oracle_bug'))
    ps = ParseSource(s)
    m = ref.PosModel(s)
    via_copy = bool(c.get('via_copy'))
    target = ps.copy if via_copy else ps
    good = _k1_obs_real(target) == _k1_obs_model(m, bug)
    ns = (n1, n2)
    i = 0
    for op in c['ops']:
        if not good:
            break
        applicable, rok, mok = _k1_apply(op, ns[i], target, m)
        i += 1
        if not applicable:
            break
        if rok != mok:
            good = False
            break
        if not rok:
            break
        good = _k1_obs_real(target) == _k1_obs_model(m, bug)
    if via_copy and good:
        # the original is untouched by operations on the copy, and catch_up_with makes it identical
        good = _k1_obs_real(ps) == _k1_obs_model(ref.PosModel(s), False)
        ps.catch_up_with(target)
        good = good and _k1_obs_real(ps) == _k1_obs_model(m, bug)
    return ob.post(good)


def _k1_obligations(tier: str) -> List[Ob]:
    import itertools
    len1, len2 = (3, 3) if tier == 'quick' else (5, 4)
    obs = []
    seqs = [((a,), len1) for a in K1_OPS] + [(ops, len2) for ops in itertools.product(K1_OPS, repeat=2)]
    seqs += [(('copy',) + ops, len2) for ops in ((('consume', 'line'),) if tier == 'quick' else (('line', 'consume'), ('consume', 'line')))]

    def add(name, ops, maxlen, **extra):
        via_copy = ops[0] == 'copy'
        if via_copy:
            ops = ops[1:]
        case = dict(ops=ops, maxlen=maxlen, via_copy=via_copy)
        case.update(extra)
        prefix = extra.get('prefix', '')
        which = ('every text of exactly %d characters that begins with %r' % (maxlen, prefix) if extra.get('exact')
                 else 'every text of <= %d characters' % maxlen)
        obs.append(Ob(
            name=name, fn='k1_parse_source', case=case, kernel='K1',
            bound='%s over {a, space, newline}; operations %s%s with every count 0 <= n <= %d; all observers '
                  '(has_current_line, is_at_eof, remaining_source, current_line_number, current_line_text, column_index, '
                  'remaining_part_of_current_line, is_at_eol, current_line) compared with the position model after every '
                  'operation' % (which, ' then '.join(ops),
                                 ' on ParseSource.copy (original unchanged), then catch_up_with' if via_copy else '',
                                 maxlen + 1),
            timeout=600 if tier == 'quick' else 2400, real=REAL_K1,
            outside=('negative counts (no documented meaning)', K1_N_NOTE,
                     'consume_part_of_current_line / consume_initial_space_on_current_line without a current line '
                     '(documented pre-condition has_current_line)'),
            entry='ParseSource(s).<operations>'))

    for ops, maxlen in seqs:
        name = 'K1:' + '+'.join(ops)
        expensive = 'consume' in ops and len(ops) > 1
        if not expensive:
            add(name, ops, maxlen)
        else:
            # partition: shorter texts | texts of full length by first character
            # (quick tier: two-operation sequences with `consume` only on the shorter texts)
            add(name + ':shorter', ops, maxlen - 1)
            if tier != 'quick':
                for ch in K1_ALPHABET:
                    add(name + ':first=%r' % ch, ops, maxlen, prefix=ch, exact=True)
    obs.append(Ob(name='K1:seeded-oracle-error', fn='k1_parse_source',
                  case=dict(ops=('consume',), maxlen=3, oracle_bug=True), kernel='K1',
                  bound='seeded oracle error: line number not advanced at column 0', timeout=300,
                  expect=ob.REFUTE, real=REAL_K1))
    return obs


# =========================================================================== K2  line syntax

REAL_K2 = (
    'exactly_lib.section_document.syntax.is_empty_line',
    'exactly_lib.section_document.syntax.is_comment_line',
    'exactly_lib.section_document.syntax.is_empty_or_comment_line',
    'exactly_lib.section_document.syntax.is_section_header_line',
    'exactly_lib.section_document.syntax.extract_section_name_from_section_line',
    'exactly_lib.section_document.syntax.section_header',
)

K2_ALPHABET = '[]a -#\t/'


def _pre_k2(t: str) -> bool:
    c = ob.case()
    return len(t) == c['n'] and _in_alphabet(t, c.get('alphabet', K2_ALPHABET))


def k2_line_syntax(t: str) -> bool:
    """
    pre: _pre_k2(t)
    post: _
    """
    from exactly_lib.section_document import syntax
    bug = bool(ob.case().get('oracle_bug'))
    line = ob.case()['prefix'] + t
    e = ref.is_empty_line(line)
    cm = ref.is_comment_line(line)
    h = ref.is_header_line(line)
    good = (syntax.is_empty_line(line) == e and syntax.is_comment_line(line) == cm
            and syntax.is_empty_or_comment_line(line) == (e or cm)
            and syntax.is_section_header_line(line) == h)
    if good and h:
        expected = ref.header_name(line)
        if bug and expected is None and line.endswith(' ]'):
            expected = 'a'  # seeded oracle error: space allowed before the closing bracket
        try:
            actual = syntax.extract_section_name_from_section_line(line)
        except ValueError:
            actual = None
        good = actual == expected
        if good and actual is not None:
            # a header built from the extracted name is a header of that name
            hdr = syntax.section_header(actual)
            good = syntax.is_section_header_line(hdr) and syntax.extract_section_name_from_section_line(hdr) == actual
    return ob.post(good)


K2_CAP = 3  # at most this many symbolic characters where the line can still be a well-formed header


def _k2_needs_split(prefix: str, n_sym: int) -> bool:
    """The three anchored regexes decide on the first non-space character; only lines that can still be a
    header with a name are expensive (regex back-tracking over the name) and are split by one more character."""
    rest = prefix[ref.skip_space(prefix):]
    if rest == '':
        return n_sym > K2_CAP
    if rest[0] != '[':
        return False
    body = rest[1:]
    if body != '' and not ref._is_word(body[0]):
        return False
    return n_sym > K2_CAP


def _k2_partition(total_len: int) -> List[str]:
    """Concrete prefixes p such that {p + t : |t| = total_len - |p|} partition the lines of length total_len."""
    out = []
    todo = ['']
    while todo:
        p = todo.pop()
        if _k2_needs_split(p, total_len - len(p)):
            todo += [p + ch for ch in K2_ALPHABET]
        else:
            out.append(p)
    return sorted(out)


K2_HEADER_ALPHABET = '[]a -'
_K2_NAMES = {'[': '[', ']': ']', 'a': 'a', ' ': 'space', '-': '-', '#': '#', '\t': 'tab', '/': '/'}


def _k2_obligations(tier: str) -> List[Ob]:
    maxlen = 4 if tier == 'quick' else 5
    obs = []

    def add(total, prefix, alphabet):
        n = total - len(prefix)
        reduced = alphabet != K2_ALPHABET
        obs.append(Ob(
            name='K2:len%d:%r%s' % (total, prefix, ':header-alphabet' if reduced else ''), fn='k2_line_syntax',
            case=dict(prefix=prefix, n=n, alphabet=alphabet), kernel='K2',
            bound='every line that consists of %r followed by exactly %d characters of {%s}'
                  % (prefix, n, ', '.join(_K2_NAMES[ch] for ch in alphabet)),
            timeout=900, real=REAL_K2,
            outside=('word characters other than ASCII letters (the regex \\w is Unicode aware; the alphabet has one letter)',),
            entry='syntax.is_*_line / extract_section_name_from_section_line'))

    for total in range(0, maxlen + 1):
        for prefix in _k2_partition(total):
            if tier == 'quick' and total == 4 and prefix in ('[', ' ', '\t'):
                # the expensive part of length 4 (regex back-tracking over the name): quick tier takes the
                # characters that matter inside a header; the thorough tier takes the full alphabet
                add(total, prefix, K2_HEADER_ALPHABET)
            else:
                add(total, prefix, K2_ALPHABET)
    obs.append(Ob(name='K2:seeded-oracle-error', fn='k2_line_syntax',
                  case=dict(prefix='[', n=3, oracle_bug=True, alphabet=K2_HEADER_ALPHABET),
                  kernel='K2', bound='seeded oracle error: `[a ]` accepted', timeout=300, expect=ob.REFUTE, real=REAL_K2))
    return obs


# =========================================================================== K5  act un-escaping

REAL_K5 = (
    'exactly_lib.processing.parse.act_phase_source_parser._un_escape',
    'exactly_lib.processing.parse.act_phase_source_parser._un_escape_at_beginning_of_line',
    'exactly_lib.processing.parse.act_phase_source_parser._split_space',
    'exactly_lib.processing.parse.act_phase_source_parser.ActPhaseParser.parse',
)

K5_ALPHABET = '\\[a '


def _pre_k5(line: str) -> bool:
    c = ob.case()
    return len(line) <= c['maxlen'] and _in_alphabet(line, K5_ALPHABET)


def k5_act_unescape(line: str) -> bool:
    """
    pre: _pre_k5(line)
    post: _
    """
    from exactly_lib.processing.parse.act_phase_source_parser import ActPhaseParser
    from exactly_lib.section_document.parse_source import ParseSource
    from exactly_lib.section_document import syntax
    bug = bool(ob.case().get('oracle_bug'))
    # the line is the second line of an act phase; the first one is a fixed source line
    src = ParseSource('x\n' + line + '\n[setup]\n')
    src_lines = ['x', line]
    parsed = ActPhaseParser().parse(None, src)
    got = list(parsed.source.lines)
    instr_lines = list(parsed.instruction_info.instruction.source_code().lines)
    if ref.is_header_line(line):
        # an un-escaped header line ends the act phase: it is not part of the source
        good = (got == ['x'] and instr_lines == ['x'] and src.current_line_number == 2
                and src.current_line_text == line and syntax.is_section_header_line(line))
    else:
        exp = ref.un_escape(line)
        if bug and line[:2] == '\\\\':
            exp = line  # seeded oracle error: escaped backslash kept
        good = (got == ['x', exp] and instr_lines == got and src.current_line_number == 3
                and src.current_line_text == '[setup]')
    good = good and parsed.source.first_line_number == 1
    return ob.post(good)


def _k5_obligations(tier: str) -> List[Ob]:
    maxlen = 4 if tier == 'quick' else 5
    return [
        Ob(name='K5:unescape', fn='k5_act_unescape', case=dict(maxlen=maxlen), kernel='K5',
           bound='every act-phase line of <= %d characters over {backslash, [, a, space}, as second line of an act phase '
                 'that is followed by a [setup] header' % maxlen,
           timeout=900 if tier == 'quick' else 3000, real=REAL_K5, entry='ActPhaseParser().parse'),
        Ob(name='K5:seeded-oracle-error', fn='k5_act_unescape', case=dict(maxlen=3, oracle_bug=True), kernel='K5',
           bound='seeded oracle error: `\\\\\\\\` not un-escaped', timeout=300, expect=ob.REFUTE, real=REAL_K5),
    ]


# =========================================================================== K3  document level, characters symbolic

REAL_K3 = (
    'exactly_lib.section_document.impl.document_parser.DocumentParserForSectionsConfiguration',
    'exactly_lib.section_document.impl.document_parser._Impl',
    'exactly_lib.section_document.impl.document_parser._parse_source',
    'exactly_lib.section_document.impl.document_parser.build_document',
    'exactly_lib.section_document.impl.document_parser._SectionElementParseResultHandler',
    'exactly_lib.section_document.document_parser.DocumentParser.parse_source',
    'exactly_lib.section_document.element_parsers.section_element_parsers.standard_syntax_element_parser',
    'exactly_lib.section_document.element_parsers.section_element_parsers.StandardSyntaxCommentAndEmptyLineParser',
    'exactly_lib.section_document.element_parsers.section_element_parsers.ParserFromSequenceOfParsers',
    'exactly_lib.section_document.element_parsers.section_element_parsers.InstructionWithoutDescriptionParser',
    'exactly_lib.section_document.element_parsers.section_element_parsers.parse_and_compute_source',
    'exactly_lib.section_document.element_builder.SectionContentElementBuilder',
    'exactly_lib.section_document.source_location.FileLocationInfo',
    'exactly_lib.section_document.exceptions.FileSourceError',
    'exactly_lib.section_document.parse_source.ParseSource',
    'exactly_lib.section_document.syntax',
)

STUB_ONE_LINE = ('instruction parser of the two-section configuration: a subclass of the public '
                 'InstructionParserWithoutSourceFileLocationInfo that consumes exactly the current line '
                 '(a "program" the property quantifies over, not a model of exactly_lib)')

K3_ALPHABET = '[]ab\n# '
K3_SECTIONS = ('a', 'b')
K3_FILE = 'k3.case'

_K3_PARSER = []


def _k3_parser():
    if not _K3_PARSER:
        from exactly_lib.section_document import document_parsers, section_parsing, model
        from exactly_lib.section_document.element_parsers import section_element_parsers as sep

        class OneLineInstruction(model.Instruction):
            def __init__(self, text):
                self.text = text

        class OneLineParser(sep.InstructionParserWithoutSourceFileLocationInfo):
            def parse_from_source(self, source):
                text = source.current_line_text
                source.consume_current_line()
                return OneLineInstruction(text)

        def element_parser():
            return sep.standard_syntax_element_parser(sep.InstructionWithoutDescriptionParser(OneLineParser()))

        conf = section_parsing.SectionsConfiguration(
            [section_parsing.SectionConfiguration(n, element_parser()) for n in K3_SECTIONS],
            default_section_name=K3_SECTIONS[0])
        _K3_PARSER.append(document_parsers.new_parser_for(conf))
    return _K3_PARSER[0]


def _pre_k3(t: str) -> bool:
    c = ob.case()
    return len(t) == c['n'] and _in_alphabet(t, c.get('alphabet', K3_ALPHABET))


def _k3_location_ok(sli, path, first_line: int, lines) -> bool:
    """the source-location record names the file, has an empty inclusion chain and carries the lines"""
    slp = sli.source_location_path
    loc = slp.location
    return (loc.file_path_rel_referrer == path and len(slp.file_inclusion_chain) == 0
            and loc.source.first_line_number == first_line and tuple(loc.source.lines) == tuple(lines))


def k3_document(t: str) -> bool:
    """
    pre: _pre_k3(t)
    post: _
    """
    import pathlib
    from exactly_lib.section_document.parse_source import ParseSource
    from exactly_lib.section_document.exceptions import FileSourceError
    from exactly_lib.section_document.model import ElementType
    c = ob.case()
    bug = bool(c.get('oracle_bug'))
    text = c['prefix'] + t
    path = pathlib.Path(K3_FILE)
    try:
        expected = ref.read_sections(text, K3_SECTIONS, K3_SECTIONS[0])
        exp_err = None
    except ref.RefError as e:
        expected = None
        exp_err = e
    try:
        doc = _k3_parser().parse_source(path, ParseSource(text))
        err = None
    except FileSourceError as e:
        doc = None
        err = e
    # any exception of another class propagates: the obligation fails
    if exp_err is not None or err is not None:
        if exp_err is None or err is None:
            return ob.post(False)
        good = (err.source.first_line_number == exp_err.line_number
                and tuple(err.source.lines) == (exp_err.text,)
                and err.maybe_section_name is None
                and _k3_location_ok(err.source_location_info, path, exp_err.line_number, (exp_err.text,))
                and len(err.location_path) == 1
                and err.location_path[0].source.first_line_number == exp_err.line_number)
        return ob.post(good)
    good = set(doc.section) == set(expected.keys())
    type_name = {ElementType.EMPTY: ref.EMPTY, ElementType.COMMENT: ref.COMMENT, ElementType.INSTRUCTION: ref.INSTRUCTION}
    for name in K3_SECTIONS:
        if not good:
            break
        exp_elems = expected.get(name, [])
        if bug:
            # seeded oracle error: comment lines are instructions too
            exp_elems = [((ref.INSTRUCTION if k == ref.COMMENT and len(ls) == 1 else k), n, ls) for (k, n, ls) in exp_elems]
        elems = doc.elements_for_section_or_empty_if_phase_not_present(name).elements
        if len(elems) != len(exp_elems):
            good = False
            break
        for el, (kind, first, lines) in zip(elems, exp_elems):
            if not (type_name[el.element_type] == kind
                    and el.source.first_line_number == first and tuple(el.source.lines) == lines
                    and _k3_location_ok(el.source_location_info, path, first, lines)):
                good = False
                break
            if kind == ref.INSTRUCTION:
                if not (el.instruction_info.instruction.text == lines[0] and el.instruction_info.description is None):
                    good = False
                    break
            elif el.instruction_info is not None:
                good = False
                break
    return ob.post(good)


K3_HEADER_ALPHABET = ']ab\n'
K3_QUICK_ALPHABET = '[]a\n#'
_K3_NAMES = {'[': '[', ']': ']', 'a': 'a', 'b': 'b', ' ': 'space', '#': '#', '\n': 'newline'}


def _k3_obligations(tier: str) -> List[Ob]:
    maxlen = 4 if tier == 'quick' else 5
    obs = []

    def add(total, prefix, alphabet=K3_ALPHABET, timeout=900):
        reduced = alphabet != K3_ALPHABET
        obs.append(Ob(
            name='K3:len%d:%r%s' % (total, prefix, ':reduced-alphabet' if reduced else ''), fn='k3_document',
            case=dict(prefix=prefix, n=total - len(prefix), alphabet=alphabet), kernel='K3',
            bound='every document text that consists of %r followed by exactly %d characters of {%s}; '
                  'sections a, b; default section a; every element (also comment and blank runs) and every error compared '
                  'with the reference line reader: type, line number, lines, file, empty inclusion chain'
                  % (prefix, total - len(prefix), ', '.join(_K3_NAMES[ch] for ch in alphabet)),
            timeout=timeout, real=REAL_K3, stubs=(STUB_ONE_LINE,),
            outside=('instructions that span several lines, descriptions, inclusion (K4)',),
            entry='DocumentParserForSectionsConfiguration.parse_source'))

    for total in range(0, maxlen + 1):
        if total < 4:
            # len2 is the cheapest non-trivial obligation: it becomes the reachability twin
            add(total, '', timeout=890 if total == 2 else 900)
        elif total == 4:
            for ch in K3_ALPHABET:
                if tier == 'quick':
                    add(total, ch, K3_HEADER_ALPHABET if ch == '[' else K3_QUICK_ALPHABET)
                else:
                    add(total, ch)
        else:
            for a in K3_ALPHABET:
                for b in K3_ALPHABET:
                    add(total, a + b, timeout=2400)
    obs.append(Ob(name='K3:seeded-oracle-error', fn='k3_document', case=dict(prefix='', n=2, oracle_bug=True), kernel='K3',
                  bound='seeded oracle error: a comment line is an instruction', timeout=300, expect=ob.REFUTE,
                  real=REAL_K3, stubs=(STUB_ONE_LINE,)))
    return obs


# =========================================================================== K4  real test-case parser, line kinds

REAL_K4 = (
    'exactly_lib.processing.processors._Parser.apply',
    'exactly_lib.processing.processors._ParseErrorHandler',
    'exactly_lib.processing.parse.test_case_parser.new_parser',
    'exactly_lib.processing.parse.test_case_parser.Parser.apply',
    'exactly_lib.processing.parse.instruction_section_element_parser.section_element_parser',
    'exactly_lib.processing.parse.instruction_section_element_parser.section_element_parser_of',
    'exactly_lib.processing.parse.file_inclusion_directive_parser.FileInclusionDirectiveParser.parse',
    'exactly_lib.processing.parse.act_phase_source_parser.ActPhaseParser.parse',
    'exactly_lib.processing.parse.act_phase_source_parser._un_escape',
    'exactly_lib.common.instruction_name_and_argument_splitter.splitter',
    'exactly_lib.section_document.document_parser.DocumentParser.parse_source',
    'exactly_lib.section_document.impl.document_parser.DocumentParserForSectionsConfiguration',
    'exactly_lib.section_document.impl.document_parser._Impl',
    'exactly_lib.section_document.impl.document_parser.parse_file',
    'exactly_lib.section_document.impl.document_parser._add_raw_doc',
    'exactly_lib.section_document.impl.document_parser.build_document',
    'exactly_lib.section_document.impl.file_access.read_source_file',
    'exactly_lib.section_document.element_parsers.section_element_parsers.ParserFromSequenceOfParsers',
    'exactly_lib.section_document.element_parsers.section_element_parsers.StandardSyntaxCommentAndEmptyLineParser',
    'exactly_lib.section_document.element_parsers.section_element_parsers.parse_and_compute_source',
    'exactly_lib.section_document.element_parsers.optional_description_and_instruction_parser.InstructionWithOptionalDescriptionParser',
    'exactly_lib.section_document.element_parsers.optional_description_and_instruction_parser._DescriptionExtractor',
    'exactly_lib.section_document.element_parsers.parser_for_dictionary_of_instructions.InstructionParserForDictionaryOfInstructions',
    'exactly_lib.section_document.element_parsers.parser_for_dictionary_of_instructions._ErrMsgSourceConstructor',
    'exactly_lib.section_document.element_builder.SectionContentElementBuilder',
    'exactly_lib.section_document.source_location.FileLocationInfo',
    'exactly_lib.section_document.source_location.source_location_path_of_non_empty_location_path',
    'exactly_lib.section_document.exceptions.FileSourceError',
    'exactly_lib.section_document.exceptions.FileAccessError',
    'exactly_lib.section_document.parse_source.ParseSource',
    'exactly_lib.section_document.syntax',
    'exactly_lib.test_case.test_case_doc.TestCase',
)


def _pre_k4(k0: int, k1: int, k2: int, k3: int, k4: int, k5: int, k6: int, k7: int) -> bool:
    return _k4.pre(ob.case(), (k0, k1, k2, k3, k4, k5, k6, k7))


def k4_test_case(k0: int, k1: int, k2: int, k3: int, k4: int, k5: int, k6: int, k7: int) -> bool:
    """
    pre: _pre_k4(k0, k1, k2, k3, k4, k5, k6, k7)
    post: _
    """
    case = ob.case()
    kinds = _k4.kinds_of(case, (k0, k1, k2, k3, k4, k5, k6, k7))
    nl = case.get('nl', True)
    texts = {f: _k4.text_of(kinds[f], nl) for f in kinds}
    d = _k4.write_files(texts)
    exp = _k4.expected_outcome(texts, d, case.get('oracle_bug'))
    real = _k4.real_outcome(d, texts[_k4.ROOT])
    return ob.post(_k4.outcomes_agree(real, exp))


def k4_permutation(k0: int, k1: int, k2: int, k3: int, k4: int, k5: int, k6: int, k7: int) -> bool:
    """
    pre: _pre_k4(k0, k1, k2, k3, k4, k5, k6, k7)
    post: _
    """
    case = ob.case()
    ks = (k0, k1, k2, k3, k4, k5, k6, k7)
    kinds = _k4.kinds_of(case, ks)[_k4.ROOT]
    sizes = case['block_sizes']
    blocks = []
    at = 0
    for n in sizes:
        blocks.append(kinds[at:at + n])
        at += n
    perm = case['perms'][int(ks[len(_k4.slots_of(case))])]
    nl = case.get('nl', True)
    bug = case.get('oracle_bug')

    def parse(block_order, drop_first_line=False):
        lines = []
        for b in block_order:
            lines += blocks[b]
        if drop_first_line:
            lines = lines[1:]
        texts = {_k4.ROOT: _k4.text_of(lines, nl)}
        d = _k4.write_files(texts)
        return texts, d, _k4.real_outcome(d, texts[_k4.ROOT])

    _, _, base = parse(range(len(blocks)))
    texts, d, permuted = parse(perm)
    good = _k4.outcomes_agree(permuted, _k4.expected_outcome(texts, d))
    good = good and (base[0] == 'ok') == (permuted[0] == 'ok')
    if good and base[0] == 'ok':
        cb = _k4.contents_by_phase(base[1])
        cp = _k4.contents_by_phase(permuted[1])
        for phase in ref.PHASES:
            order = [b for b in perm if blocks[b][0] == phase]
            if order == sorted(order) or bug == 'order-of-same-phase-irrelevant':
                good = good and cb[phase] == cp[phase]
        if good and blocks[perm[0]][0] == ref.DEFAULT_PHASE:
            # before any header the phase is act: dropping a leading [act] header changes nothing
            _, _, dropped = parse(perm, drop_first_line=True)
            good = dropped[0] == 'ok' and _k4.contents_by_phase(dropped[1]) == cp
    return ob.post(good)


K4_OUTSIDE = ('a root file given by a relative path (the harness passes an absolute path)',
              'unreadable files, directories in place of files, symbolic links',
              'instructions of exactly_lib itself (the five instruction phases have the stub instructions i and m)',
              'documents longer than the stated number of lines; characters inside the lines (K1-K3, K5)')


def _k4_ob(name, fn, case, bound, timeout, expect=ob.CONFIRM) -> Ob:
    return Ob(name=name, fn=fn, case=case, kernel='K4', bound=bound, timeout=timeout, expect=expect, real=REAL_K4,
              stubs=(_k4.STUB_INSTRUCTIONS,), outside=K4_OUTSIDE, selector=True,
              entry='processors._Parser(parsing_setup).apply(TestCaseFileReference(file), text of file)')


K4_ALL = _k4.HEADERS + ('unknown', 'malformed', 'comment', 'blank', 'i', 'i-ind', 'm', 'eof', 'di', 'd', 'dopen', 'dclose',
                        'src', 'esc', 'esc-ind', 'inc-noarg', 'inc-2args', 'inc:missing', 'inc:main')


def _kinds(alts) -> str:
    return '{' + ', '.join(alts) + '}'


def _describe(files) -> str:
    parts = []
    for f in _k4.FILE_ORDER:
        if f in files:
            parts.append('%s = [%s]' % (f, '; '.join(x if isinstance(x, str) else 'any of ' + _kinds(x) for x in files[f])))
    return ' / '.join(parts)


def _count(files) -> int:
    n = 1
    for f in files:
        for x in files[f]:
            if not isinstance(x, str):
                n *= len(x)
    return n


K4_SECONDS_PER_DOCUMENT = 1.0  # measured 0.15 s (idle) - 0.3 s (heavily loaded machine) cpu per document (path)


def _k4_case_ob(name, files, nl=True, **extra) -> Ob:
    case = dict(files=files, nl=nl)
    case.update(extra)
    return _k4_ob(name, 'k4_test_case', case,
                  'every choice of line kinds in %s (%d documents / file sets), %s final newline; line texts: %s'
                  % (_describe(files), _count(files), 'with' if nl else 'without',
                     'see _C07_k4.LINE'),
                  120 + K4_SECONDS_PER_DOCUMENT * _count(files),
                  expect=ob.REFUTE if extra.get('oracle_bug') else ob.CONFIRM)


# third line of the three-line documents of the thorough tier: one header of an instruction phase and [act] stand for the six
K4_THIRD = ('setup', 'act', 'unknown', 'malformed', 'comment', 'blank', 'i', 'm', 'eof', 'di', 'd', 'dclose', 'src', 'esc',
            'inc:missing', 'inc:main')


def _k4_obligations(tier: str) -> List[Ob]:
    import itertools
    R = _k4.ROOT
    F1 = _k4.F1
    F2 = _k4.F2
    thorough = tier != 'quick'
    obs = []
    # ---- A: one file, every line kind
    for n in (0, 1):
        obs.append(_k4_case_ob('K4:A:%d-lines' % n, {R: [K4_ALL] * n}))
    chunks = [K4_ALL[i:i + 5] for i in range(0, len(K4_ALL), 5)]
    for i, chunk in enumerate(chunks):
        obs.append(_k4_case_ob('K4:A:2-lines:%d' % i, {R: [chunk, K4_ALL]}))
    if not thorough:
        second = ('setup', 'act', 'comment', 'blank', 'i', 'eof', 'dclose', 'src')
        for i, chunk in enumerate(chunks):
            obs.append(_k4_case_ob('K4:A:setup+2-lines:%d' % i, {R: ['setup', chunk, second]}))
    else:
        obs.append(_k4_case_ob('K4:A:1-lines:no-final-newline', {R: [K4_ALL]}, nl=False))
        for i, chunk in enumerate(chunks):
            obs.append(_k4_case_ob('K4:A:2-lines:no-final-newline:%d' % i, {R: [chunk, K4_ALL]}, nl=False))
        obs.append(_k4_case_ob('K4:A:setup+2-lines:no-final-newline', {R: ['setup', K4_ALL, K4_ALL]}, nl=False))
        for first in K4_ALL:
            obs.append(_k4_case_ob('K4:A:3-lines:%s' % first, {R: [first, K4_ALL, K4_THIRD]}))
        sub = ('setup', 'act', 'unknown', 'comment', 'blank', 'i', 'm', 'eof', 'di', 'dclose', 'src', 'inc:missing')
        for second in K4_ALL:
            obs.append(_k4_case_ob('K4:A:setup+3-lines:%s' % second, {R: ['setup', second, sub, sub]}))
    x = ('comment', 'blank', 'i', 'dclose', 'eof', 'assert')
    obs.append(_k4_case_ob('K4:A:description', {R: ['setup', ('d', 'dopen', 'di'), x, x]}))
    y = ('src', 'eof', 'assert', 'i', 'blank', 'comment')
    obs.append(_k4_case_ob('K4:A:multi-line', {R: ['setup', 'm', y, y]}))
    obs.append(_k4_case_ob('K4:A:seeded-oracle-error', {R: [('comment', 'src'), ('comment', 'src')]},
                           oracle_bug='act-comment-dropped'))

    # ---- B: permutation of phase blocks
    phases = _k4.HEADERS if thorough else ('setup', 'act', 'assert')
    body = ('i', 'di', 'src')
    if thorough:
        blocks = [[phases, 'comment', body], [('setup', 'act', 'assert', 'conf'), 'm', 'src', 'eof'], [('setup', 'act', 'cleanup'), 'i', 'blank']]
    else:
        blocks = [[phases, 'comment', body], [phases, 'm', 'src', 'eof']]
    perms = list(itertools.permutations(range(len(blocks))))
    flat = [x for b in blocks for x in b]

    def perm_ob(name, flat_, expect=ob.CONFIRM, **extra):
        case = dict(files={R: flat_}, block_sizes=[len(b) for b in blocks], perms=perms)
        case.update(extra)
        n = _count({R: flat_}) * len(perms)
        return _k4_ob(name, 'k4_permutation', case,
                      'blocks %s of %s in every one of the %d orders (%d documents): the permuted document agrees with the '
                      'reference reading; per phase the instructions are those of the unpermuted document whenever the '
                      'blocks of that phase keep their relative order; a leading [act] header can be dropped'
                      % (' | '.join('[%s]' % '; '.join(x if isinstance(x, str) else 'any of ' + _kinds(x) for x in b)
                                    for b in blocks), R, len(perms), n),
                      120 + 3 * K4_SECONDS_PER_DOCUMENT * n, expect=expect)

    if thorough:
        for first in phases:
            obs.append(perm_ob('K4:B:permutation:%s' % first, [first] + flat[1:]))
    else:
        obs.append(perm_ob('K4:B:permutation', flat))
    obs.append(perm_ob('K4:B:seeded-oracle-error', [('setup',)] + flat[1:len(blocks[0])] + [('setup',)] + flat[len(blocks[0]) + 1:],
                       expect=ob.REFUTE, oracle_bug='order-of-same-phase-irrelevant'))

    # ---- C: inclusion
    if not thorough:
        rq = ('i', 'assert', 'inc:f1', 'comment')
        fq = ('i', 'assert', 'act', 'unknown', 'inc:main', 'inc:missing')
        g = ('i', 'cleanup', 'act', 'malformed', 'inc:up-f1', 'inc:up-main', 'inc:f2-self', 'inc:missing')
        obs.append(_k4_case_ob('K4:C:one-level', {R: ['setup', 'inc:f1', rq], F1: [fq, fq]}))
        obs.append(_k4_case_ob('K4:C:two-levels', {R: ['setup', 'inc:f1', 'i'], F1: [('i', 'assert'), 'inc:f2', 'i'],
                                                   F2: [g, ('i', 'src')]}))
        obs.append(_k4_case_ob('K4:C:two-levels-up', {R: ['assert', 'inc:f2', 'i'], F2: ['inc:up-f1', g], F1: [fq]}))
        obs.append(_k4_case_ob('K4:C:empty-included-file', {R: [('setup', 'i'), 'inc:f1', ('i', 'blank')], F1: []}))
    else:
        rt = ('i', 'setup', 'assert', 'act', 'comment', 'inc:f1', 'inc:f2', 'inc:main', 'inc:missing', 'm', 'd')
        ft = ('i', 'assert', 'act', 'src', 'unknown', 'm', 'eof', 'inc:main', 'inc:f1', 'inc:f2', 'inc:missing')
        f1 = ('i', 'assert', 'act', 'src', 'unknown', 'comment', 'inc:main', 'inc:f1', 'inc:f2')
        g = ('i', 'cleanup', 'act', 'malformed', 'inc:up-f1', 'inc:up-main', 'inc:f2-self', 'inc:missing')
        for r0 in rt:
            obs.append(_k4_case_ob('K4:C:one-level:%s' % r0, {R: [r0, 'inc:f1', ('i', 'assert', 'comment', 'inc:f1', 'inc:f2', 'm')],
                                                              F1: [f1, f1], F2: ['i']}))
        g2 = ('i', 'src', 'cleanup', 'inc:up-f1')
        # (split by one selector so that no obligation has more than ~400 file sets)
        for x in ft:
            obs.append(_k4_case_ob('K4:C:one-level:3-lines:%s' % x,
                                   {R: ['setup', 'inc:f1', ('i', 'inc:f1')], F1: [x, ft, f1]}))
            obs.append(_k4_case_ob('K4:C:two-levels:%s' % x,
                                   {R: [('setup', 'assert'), 'inc:f1', ('i', 'inc:f2')],
                                    F1: [x, 'inc:f2', ('i', 'cleanup', 'inc:f2')], F2: [g, g2]}))
        for x in g:
            obs.append(_k4_case_ob('K4:C:two-levels-up:%s' % x,
                                   {R: [('setup', 'assert'), 'inc:f2', ('i', 'inc:f1')], F2: [x, 'inc:up-f1', g], F1: [ft]}))
        obs.append(_k4_case_ob('K4:C:two-levels-up:no-final-newline',
                               {R: ['setup', 'inc:f2', ('i', 'inc:f1')], F2: [('i', 'act'), 'inc:up-f1', g], F1: [ft]}, nl=False))
        for nl in (True, False):
            sfx = '' if nl else ':no-final-newline'
            obs.append(_k4_case_ob('K4:C:empty-included-file' + sfx,
                                   {R: [('setup', 'i'), 'inc:f1', ('i', 'blank', 'inc:f1')], F1: []}, nl=nl))
    # a header of a phase that the file already has an entry for (repeated declaration, or a phase first brought in by
    # an earlier included file), then - in that phase - an inclusion of a file that begins without a header, and an
    # erroneous instruction (`src` = unknown instruction): the included instructions and the phase named by the error
    # report belong to the phase of the LAST header
    second = ('assert', 'act', 'cleanup') if thorough else ('assert', 'act')
    again = ('setup', 'assert', 'act') if thorough else ('setup', 'assert')
    obs.append(_k4_case_ob('K4:C:repeated-header-then-include',
                           {R: ['setup', 'i', second, ('i', 'src'), again, 'inc:f1', ('i', 'src')],
                            F1: [('i', 'src', 'assert', 'comment') if thorough else ('i', 'src', 'assert'), 'i']}))
    obs.append(_k4_case_ob('K4:C:phase-from-included-file-then-include',
                           {R: ['setup', 'inc:f1', ('cleanup', 'assert'), 'inc:f2', ('i', 'src')],
                            F1: [('cleanup', 'i'), 'i'], F2: [('i', 'src', 'setup') if thorough else ('i', 'src')]}))
    obs.append(_k4_case_ob('K4:C:error-after-repeated-header',
                           {R: [('setup', 'assert'), ('i', 'd'), ('act', 'cleanup'), 'i', ('setup', 'assert'),
                                ('src', 'm', 'inc-noarg', 'd')]}))
    obs.append(_k4_case_ob('K4:C:seeded-oracle-error', {R: ['setup', 'inc:f1', ('i', 'comment')], F1: [('i', 'comment')]},
                           oracle_bug='include-at-end'))
    return obs


# =========================================================================== K6  instruction element, characters symbolic

K6_ALPHABET = '`i x\n#'
K6_ALPHABET_FF = K6_ALPHABET + '\f'
K6_ALPHABET_FF_QUICK = '`i \n\f'
K6_HEAD = '[setup]\n'
_K6_NAMES = {'`': 'back-tick', 'i': 'i', ' ': 'space', 'x': 'x', '\n': 'newline', '#': '#', '\f': 'form-feed'}


def _is_odd_space_line(line: str) -> bool:
    """consists of white space only, but is not an empty line of the file syntax (space and tab only)"""
    return line.strip() == '' and not ref.is_empty_line(line)


def _has_odd_space_line(text: str) -> bool:
    for line in text.split('\n'):
        if _is_odd_space_line(line):
            return True
    return False


def _blank_odd_space_lines(text: str) -> str:
    """the text with every line of odd white space replaced by an empty line"""
    return '\n'.join('' if _is_odd_space_line(line) else line for line in text.split('\n'))


def _instructions_only(outcome_ok):
    return {ph: [e for e in els if e[0] == ref.INSTRUCTION] for ph, els in outcome_ok.items()}


def _pre_k6(t: str) -> bool:
    c = ob.case()
    if not (len(t) == c['n'] and _in_alphabet(t, c.get('alphabet', K6_ALPHABET))):
        return False
    if c.get('need_ff') and '\f' not in t:
        return False
    return True


def k6_instruction_element(t: str) -> bool:
    """
    pre: _pre_k6(t)
    post: _
    """
    c = ob.case()
    text = K6_HEAD + c['prefix'] + t
    texts = {_k4.ROOT: text}
    d = _k4.write_files({})
    # any exception other than the two documented error reports propagates: the obligation fails
    real = _k4.real_outcome(d, text)
    if _has_odd_space_line(text):
        # A line of white space other than space and tab is not an empty line of the file syntax and not an
        # instruction either.  Documented behaviour (fix 7cbb248 in /repo): it is ignored, or reported as a syntax
        # error naming that line; never an exception of an undocumented class.
        blanked = _blank_odd_space_lines(text)
        exp = _k4.expected_outcome({_k4.ROOT: blanked}, d)
        if real[0] == 'ok':
            # ignored: the instructions are those of the text with these lines emptied
            return ob.post(exp[0] == 'ok' and _instructions_only(real[1]) == _instructions_only(exp[1]))
        if real[0] != 'syntax':
            return ob.post(False)
        first, lines = real[1][0], real[1][1]
        all_lines = text.split('\n')
        # the report carries the true text of the line it names, and that line is the (first) odd line or a later
        # one: the odd line begins an element whose reading the syntax does not define (e.g. a description on the
        # next line is then taken for an instruction name)
        first_odd = min(i for i, x in enumerate(all_lines) if _is_odd_space_line(x)) + 1
        names_odd_line = (len(lines) >= 1 and first_odd <= first <= len(all_lines)
                          and all_lines[first - 1].endswith(lines[0]))
        return ob.post(names_odd_line or _k4.outcomes_agree(real, exp))
    exp = _k4.expected_outcome(texts, d, c.get('oracle_bug'))
    if c.get('oracle_bug') == 'description-is-instruction-text' and exp[0] == 'ok':
        exp = ('ok', {ph: [e[:5] + (None,) + e[6:] for e in els] for ph, els in exp[1].items()}, None, None)
    return ob.post(_k4.outcomes_agree(real, exp))


def _k6_obligations(tier: str) -> List[Ob]:
    maxlen = 3 if tier == 'quick' else 5
    obs = []

    def add(total, prefix, timeout=900, ff=False):
        alphabet = (K6_ALPHABET_FF_QUICK if tier == 'quick' else K6_ALPHABET_FF) if ff else K6_ALPHABET
        what = ('elements and errors as read by the reference reader (description, blank / comment lines before the '
                'instruction, instruction name and argument, line numbers, texts)')
        if ff:
            what = ('at least one form-feed in the text; texts with a line that consists of white space other than space and '
                    'tab: no exception of an undocumented class; other texts: ' + what)
        obs.append(Ob(
            name=('K6:form-feed:len%d' % total) if ff else 'K6:len%d:%r' % (total, prefix), fn='k6_instruction_element',
            case=dict(prefix=prefix, n=total - len(prefix), alphabet=alphabet, need_ff=ff), kernel='K6',
            bound='every test-case text `[setup]` newline %r followed by exactly %d characters of {%s}: %s'
                  % (prefix, total - len(prefix), ', '.join(_K6_NAMES[ch] for ch in alphabet), what),
            timeout=timeout, real=REAL_K4, stubs=(_k4.STUB_INSTRUCTIONS,),
            outside=('the meaning of lines that consist of white space other than space and tab (only the absence of '
                     'undocumented exceptions is claimed for texts that have one)',),
            entry='processors._Parser(parsing_setup).apply(TestCaseFileReference(file), text)'))

    for total in range(0, maxlen + 1):
        if total < 3:
            add(total, '', timeout=890 if total == 2 else 900)
        elif total == 3:
            for ch in K6_ALPHABET:
                add(total, ch)
        else:
            for a in K6_ALPHABET:
                for b in K6_ALPHABET:
                    add(total, a + b, timeout=2400 if total > 4 else 900)
    for total in range(1, (3 if tier == 'quick' else 4) + 1):
        add(total, '', ff=True, timeout=1200)
    obs.append(Ob(name='K6:seeded-oracle-error', fn='k6_instruction_element',
                  case=dict(prefix='`', n=3, alphabet='`i x', oracle_bug='description-is-instruction-text'), kernel='K6',
                  bound='seeded oracle error: a description is not recorded', timeout=300, expect=ob.REFUTE,
                  real=REAL_K4, stubs=(_k4.STUB_INSTRUCTIONS,)))
    return obs


# =========================================================================== K7  header lines delimit, real instructions

REGION_HEADER_SWALLOWED = 'C07-header-swallowed-by-instruction'
REGIONS = (REGION_HEADER_SWALLOWED,)
REAL_K7 = REAL_K4 + (
    'exactly_lib.cli_default.program_modes.test_case.default_instructions_setup.INSTRUCTIONS_SETUP',
    'exactly_lib.section_document.element_parsers.token_stream_parser.TokenParser',
    'exactly_lib.section_document.element_parsers.token_stream.TokenStream',
)


def _k7_blocks(case, ks):
    kinds = _k4.kinds_of(case, ks)[_k4.ROOT]
    blocks = []
    at = 0
    for n in case['block_sizes']:
        blocks.append(kinds[at:at + n])
        at += n
    return blocks


def _pre_k7(k0: int, k1: int, k2: int, k3: int, k4: int, k5: int, k6: int, k7: int) -> bool:
    case = ob.case()
    ks = (k0, k1, k2, k3, k4, k5, k6, k7)
    if not _k4.pre(case, ks):
        return False
    if ob.excluded(REGION_HEADER_SWALLOWED) and _k4.in_region_header_swallowed(_k7_blocks(case, ks)):
        return False
    return True


def k7_header_delimits(k0: int, k1: int, k2: int, k3: int, k4: int, k5: int, k6: int, k7: int) -> bool:
    """
    pre: _pre_k7(k0, k1, k2, k3, k4, k5, k6, k7)
    post: _
    """
    case = ob.case()
    blocks = _k7_blocks(case, (k0, k1, k2, k3, k4, k5, k6, k7))
    parser = _k4.default_parser()
    d = _k4.write_files({})

    def read(kinds):
        text = '\n'.join(_k4.LINE7[k] for k in kinds) + '\n'
        return _k4.instructions_of(_k4.real_outcome(d, text, parser))

    whole = read([k for b in blocks for k in b])
    parts = []
    offset = 0
    for b in blocks:
        parts.append(_k4.shift(read(b), offset))
        offset += len(b)
        if case.get('oracle_bug') == 'no-line-shift':
            offset = 0
    return ob.post(whole == _k4.compose(parts))


def _k7_obligations(tier: str) -> List[Ob]:
    R = _k4.ROOT
    thorough = tier != 'quick'
    obs = []

    def add(name, blocks, expect=ob.CONFIRM, **extra):
        flat = [x for b in blocks for x in b]
        case = dict(files={R: flat}, block_sizes=[len(b) for b in blocks])
        case.update(extra)
        n = _count({R: flat})
        obs.append(Ob(
            name=name, fn='k7_header_delimits', case=case, kernel='K7',
            bound='test-case files made of the blocks %s (%d files; line texts: _C07_k4.LINE7), read by the parser with the '
                  'instruction set of the program itself: per phase the instructions (line numbers, source lines, class) and '
                  'the error report are those of the blocks read one by one - a header line always begins a new block'
                  % (' | '.join('[%s]' % '; '.join(x if isinstance(x, str) else 'any of ' + _kinds(x) for x in b) for b in blocks), n),
            timeout=180 + 3.0 * n, expect=expect, real=REAL_K7, selector=True,
            outside=('here-documents and parenthesised expressions that contain a line with header syntax',
                     'a root file given by a relative path', 'what the instructions do (only where they begin and end)'),
            entry='processors._Parser(TestCaseParsingSetup(splitter, default INSTRUCTIONS_SETUP, ActPhaseParser())).apply'))

    body = ('blank', 'comment', 'dir-ok', 'env-ok', 'shell', 'nosuch') + _k4.OPEN_ENDED
    if not thorough:
        add('K7:two-blocks', [[('setup', 'assert'), body, ('blank', 'dir-ok')], ['act', 'shell']])
        add('K7:two-blocks:act-first', [['act', ('shell', 'file', 'blank')], [('cleanup', 'conf'), ('dir-ok', 'cd', 'timeout')]])
    else:
        for h in _k4.HEADERS:
            add('K7:two-blocks:%s' % h, [[h, body, ('blank', 'comment', 'dir-ok', 'file')],
                                         [('act', 'cleanup', 'setup'), ('shell', 'dir-ok', 'cd')]])
        add('K7:three-blocks', [[('setup', 'before-assert'), ('dir-ok', 'file', 'env=')], [('act', 'assert'), ('shell', 'cd', 'blank')],
                                [('cleanup', 'setup'), ('dir-ok', 'copy')]])
    add('K7:seeded-oracle-error', [['setup', ('dir-ok', 'blank')], ['cleanup', 'dir-ok']], expect=ob.REFUTE,
        oracle_bug='no-line-shift')
    return obs


# =========================================================================== K8  rendered location reports

REAL_K8 = (
    'exactly_lib.common.report_rendering.parts.source_location.file_inclusion_chain',
    'exactly_lib.common.report_rendering.parts.source_location.source_location_path',
    'exactly_lib.common.report_rendering.parts.source_location._line_in_optional_file',
    'exactly_lib.common.report_rendering.parts.source_location._files_and_source_path_leading_to_final_source',
    'exactly_lib.common.report_rendering.parts.source_location.location_blocks_renderer',
    'exactly_lib.common.report_rendering.parts.error_info.ErrorInfoRenderer',
    'exactly_lib.common.report_rendering.parts.failure_info.FailureInfoRenderer',
    'exactly_lib.common.report_rendering.print_.print_to_str',
    'exactly_lib.processing.processors._Parser.apply',
    'exactly_lib.processing.processors._ParseErrorHandler',
    'exactly_lib.section_document.impl.document_parser.parse_file',
    'exactly_lib.section_document.impl.document_parser._Impl',
    'exactly_lib.section_document.impl.file_access.read_source_file',
    'exactly_lib.section_document.document_parser.DocumentParser._resolve_initial_file_location_info',
    'exactly_lib.section_document.source_location.FileLocationInfo',
    'exactly_lib.section_document.source_location.source_location_path_of_non_empty_location_path',
)


def _k8_alts(case):
    d = case['depth']
    alts = [case['levels'][i] for i in range(d)] + [()] * (3 - d)
    return alts + [case['forms'], case['kinds'], case['pads']]


def _pre_k8(k0: int, k1: int, k2: int, k3: int, k4: int, k5: int) -> bool:
    case = ob.case()
    ks = (k0, k1, k2, k3, k4, k5)
    for k, alts in zip(ks, _k8_alts(case)):
        if len(alts) == 0:
            if k != 0:
                return False
        elif not (0 <= k < len(alts)):
            return False
    return True


def k8_rendered_report(k0: int, k1: int, k2: int, k3: int, k4: int, k5: int) -> bool:
    """
    pre: _pre_k8(k0, k1, k2, k3, k4, k5)
    post: _
    """
    case = ob.case()
    ks = (k0, k1, k2, k3, k4, k5)
    alts = _k8_alts(case)
    depth = case['depth']
    choice = [alts[i][int(ks[i])] for i in range(depth)]
    form = _k8.FORMS[alts[3][int(k3)]]
    kind = _k8.KINDS[alts[4][int(k4)]]
    pad = _k8.PADS[alts[5][int(k5)]]
    files, chain = _k8.build(depth, choice, kind, pad)
    root = _k8.write_tree(files)
    cwd, tag, report = _k8.run_and_render(root, form, kind, depth)
    expected_tag = {'syntax': 'syntax', 'failure': 'ok', 'missing': 'file-access', 'non-utf8': 'file-access'}[kind]
    good = tag == expected_tag and _k8.report_is_right(root, cwd, report, chain, files, case.get('oracle_bug'))
    return ob.post(good)


def _k8_obligations(tier: str) -> List[Ob]:
    obs = []
    thorough = tier != 'quick'

    def add(name, depth, levels, forms, kinds, pads, expect=ob.CONFIRM, **extra):
        case = dict(depth=depth, levels=levels, forms=forms, kinds=kinds, pads=pads)
        case.update(extra)
        n = len(forms) * len(kinds) * len(pads)
        for i in range(depth):
            n *= len(levels[i])
        obs.append(Ob(
            name=name, fn='k8_rendered_report', case=case, kernel='K8',
            bound='case file cases/a.case named %s; chain of %d including files, level i chosen from %s (the paths as '
                  'written in the directives); in the last file: %s; %s comment lines before the directive / instruction of every file '
                  '(%d trees): every `PATH, line N` of the printed report is, relative to the current directory, the file of '
                  'that link, N and the displayed text are the line of the including directive resp. of the instruction'
                  % (_kinds([_k8.FORMS[f] for f in forms]), depth,
                     [[_k8.LEVEL_PATHS[i][j] for j in levels[i]] for i in range(depth)],
                     _kinds([_k8.KINDS[k] for k in kinds]), _kinds([str(_k8.PADS[p]) for p in pads]), n),
            timeout=120 + 2.0 * n, expect=expect, real=REAL_K8, stubs=(_k4.STUB_INSTRUCTIONS,), selector=True,
            outside=('the texts of the report other than the location part and the phase line',
                     'a failing instruction is rendered from an InstructionFailureInfo built by the harness from the parsed '
                     "element's location (as the executor does); the instruction is not executed",
                     'a case file that is itself not UTF-8 (read by processors._SourceReader, not by the parser)'),
            entry='processors._Parser.apply -> ErrorInfoRenderer / FailureInfoRenderer -> print_to_str'))

    all_levels = [tuple(range(len(x))) for x in _k8.LEVEL_PATHS]
    if not thorough:
        add('K8:depth0', 0, all_levels, (0, 1, 2), (0, 1), (0,))
        add('K8:depth1', 1, [(1,), (), ()], (0, 1, 2), (0, 1, 2, 3), (1,))
        add('K8:depth2', 2, [(0, 1), (1, 2), ()], (0, 1, 2), (0, 2, 3), (0,))
        add('K8:depth3', 3, [(0, 1), (1, 2), (1,)], (1, 2), (0, 1), (1,))
    else:
        add('K8:depth0', 0, all_levels, (0, 1, 2), (0, 1), (0, 1))
        add('K8:depth1', 1, all_levels, (0, 1, 2), (0, 1, 2, 3), (0, 1))
        add('K8:depth2', 2, all_levels, (0, 1, 2), (0, 1, 2, 3), (0, 1))
        for f in (0, 1, 2):
            add('K8:depth3:%s' % _k8.FORMS[f], 3, all_levels, (f,), (0, 1, 2, 3), (0, 1))
    add('K8:seeded-oracle-error', 1, [(0, 1), (), ()], (0,), (0,), (0,), expect=ob.REFUTE, oracle_bug='line-numbers-from-zero')
    return obs


# =========================================================================== registry

# =========================================================================== K9: source lines of an instruction error

K9_HEAD = '[setup]\n'
REAL_K9 = REAL_K4 + (
    'exactly_lib.section_document.element_parsers.parser_for_dictionary_of_instructions._ErrMsgSourceConstructor',
    'exactly_lib.section_document.element_parsers.parser_for_dictionary_of_instructions.InstructionParserForDictionaryOfInstructions.parse',
    'exactly_lib.section_document.element_parsers.optional_description_and_instruction_parser.InstructionWithOptionalDescriptionParser',
)


def _pre_k9(ind: str, c: int) -> bool:
    case = ob.case()
    if not (len(ind) == case['n'] and _in_alphabet(ind, case['alphabet'])):
        return False
    return 0 <= c <= len(case['body']) + 1


def k9_error_source_lines(ind: str, c: int) -> bool:
    """
    pre: _pre_k9(ind, c)
    post: _
    """
    case = ob.case()
    text = K9_HEAD + case['before'] + ind + case['body']
    start = len(K9_HEAD) + len(case['before']) + len(ind)
    _k9.K9['c'] = c
    err = _k9.real_error(text)
    if err is None:
        return ob.post(False)
    end = _k9.K9['end']
    return ob.post(end is not None and _k9.report_is_right(text, start, end, err[0], err[1], case.get('oracle_bug')))


K9_BODIES = (
    'f a\n b c\n\n  d\nf\n',
    'f\n\t== 72 73\n',
    'f <<E\nx\nE\n[act]\n',
)


def _k9_obligations(tier: str) -> List[Ob]:
    obs = []
    sym = (0, 1, 2) if tier == 'quick' else (0, 1, 2, 3, 4, 5)
    wide = (8, 30) if tier == 'quick' else (6, 9, 12, 20, 30, 60)
    bodies = K9_BODIES[:2] if tier == 'quick' else K9_BODIES

    def add(name, n, alphabet, body, before='', timeout=600, **kw):
        obs.append(Ob(
            name=name, fn='k9_error_source_lines', kernel='K9',
            case=dict(n=n, alphabet=alphabet, body=body, before=before, **kw),
            bound='test-case text `[setup]` newline %r, an indentation of exactly %d characters of {%s}, then %r, where the '
                  'instruction `f` reports an invalid argument after having consumed c characters of what follows its name, '
                  'every 0 <= c <= %d (= everything): the error report begins at the line of `f`, has every line from which '
                  'a character other than white space was consumed, no line beyond the last one touched, and their texts'
                  % (before, n, ', '.join(_K6_NAMES.get(ch, repr(ch)) for ch in alphabet), body, len(body) + 1),
            timeout=timeout, real=REAL_K9, stubs=(_k9.STUB,),
            outside=('parsers that report the error after having consumed text that they then give back '
                     '(none exists: ParseSource cannot move backwards)',),
            entry='processors._Parser(parsing_setup).apply(TestCaseFileReference(file), text)',
            **({'expect': ob.REFUTE} if kw.get('oracle_bug') else {})))

    for bi, body in enumerate(bodies):
        for n in sym:
            add('K9:body%d:indent%d' % (bi, n), n, ' \t', body)
        for n in wide:
            add('K9:body%d:indent%d:spaces' % (bi, n), n, ' ', body)
    add('K9:after-comment:indent2', 2, ' \t', K9_BODIES[0], before='# c\n\n')
    add('K9:seeded-oracle-error', 2, ' ', K9_BODIES[0], oracle_bug='first-line-only', timeout=300)
    return obs


def obligations(tier: str) -> List[Ob]:
    obs = []
    obs += _k1_obligations(tier)
    obs += _k2_obligations(tier)
    obs += _k5_obligations(tier)
    obs += _k3_obligations(tier)
    obs += _k4_obligations(tier)
    obs += _k6_obligations(tier)
    obs += _k7_obligations(tier)
    obs += _k8_obligations(tier)
    obs += _k9_obligations(tier)
    return obs


# =========================================================================== concrete self-test

def _enumerate_inputs(o: Ob, budget: int):
    """Concrete inputs of an obligation (all of them where the space is small, else a stride sample)."""
    import itertools
    c = o.case
    if o.fn == 'k1_parse_source':
        ml = min(c['maxlen'], 3)
        tl = ml - len(c.get('prefix', ''))
        texts = [''.join(t) for n in range(tl + 1) for t in itertools.product(K1_ALPHABET, repeat=n)]
        rng = range(0, ml + 3)
        n1s = rng if c['ops'][0] in ('consume', 'part') else [0]
        n2s = rng if len(c['ops']) > 1 and c['ops'][1] in ('consume', 'part') else [0]
        return ((t, a, b) for t in texts for a in n1s for b in n2s)
    if o.fn == 'k2_line_syntax':
        return ((''.join(t),) for t in itertools.product(c.get('alphabet', K2_ALPHABET), repeat=c['n']))
    if o.fn == 'k3_document':
        return ((''.join(t),) for t in itertools.product(c.get('alphabet', K3_ALPHABET), repeat=c['n']))
    if o.fn == 'k5_act_unescape':
        return ((''.join(t),) for n in range(c['maxlen'] + 1) for t in itertools.product(K5_ALPHABET, repeat=n))
    if o.fn == 'k6_instruction_element':
        return ((''.join(t),) for t in itertools.product(c.get('alphabet', K6_ALPHABET), repeat=c['n']))
    if o.fn in ('k4_test_case', 'k4_permutation', 'k7_header_delimits'):
        sizes = [len(alts) for (_, _, alts) in _k4.slots_of(c)]
        if c.get('perms'):
            sizes.append(len(c['perms']))
        pad = [0] * (8 - len(sizes))
        return (tuple(list(t) + pad) for t in itertools.product(*[range(n) for n in sizes]))
    if o.fn == 'k8_rendered_report':
        return itertools.product(*[range(max(1, len(a))) for a in _k8_alts(c)])
    if o.fn == 'k9_error_source_lines':
        inds = [''.join(t) for t in itertools.product(c['alphabet'], repeat=c['n'])] if c['n'] <= 3 else [c['alphabet'][0] * c['n']]
        return ((ind, k) for ind in inds for k in range(0, len(c['body']) + 2))
    raise ValueError(o.fn)


def selftest(tier: str) -> int:
    """Every harness function is run on plain CPython on (a stride sample of) the concrete inputs of its
    obligations: the reference oracles agree with the real code there, and every seeded oracle error has a
    concrete witness.  This compares oracles and stubs with the real thing; it is not the deciding step."""
    import itertools
    import sys
    mod = sys.modules[__name__]
    n = 0
    per_ob = 4000 if tier == 'quick' else 8000
    for o in obligations(tier):
        # the regions of known findings are left out: the self-test is about the harness, not about exactly_lib
        ob.set_context(o.case, REGIONS, False)
        fn = getattr(mod, o.fn)
        pre = {'k1_parse_source': _pre_k1, 'k2_line_syntax': _pre_k2, 'k3_document': _pre_k3,
               'k5_act_unescape': _pre_k5, 'k4_test_case': _pre_k4, 'k4_permutation': _pre_k4,
               'k6_instruction_element': _pre_k6, 'k7_header_delimits': _pre_k7, 'k8_rendered_report': _pre_k8,
               'k9_error_source_lines': _pre_k9}[o.fn]
        witnessed = False
        for args in itertools.islice(_enumerate_inputs(o, per_ob), per_ob):
            if not pre(*args):
                continue
            r = fn(*args)
            n += 1
            if o.expect == ob.REFUTE:
                witnessed = witnessed or not r
            elif not r:
                raise AssertionError('self-test: %s%r is false for obligation %s' % (o.fn, args, o.name))
        if o.expect == ob.REFUTE and not witnessed:
            raise AssertionError('self-test: seeded oracle error %s has no concrete witness' % o.name)
    ob.set_context(None)
    return n


ASSUMPTIONS = [
    'K4 / K6: the instructions i and m of the five instruction phases are stand-ins written against the public '
    'InstructionParser interface (the "programs" the property quantifies over); the element parsers, the dictionary '
    'look-up, the description parser, the act-phase parser and the document parser are the real ones',
    'K4 / K7: files are real files in a scratch directory written with open(..., "w"); the root file is named by an absolute path',
    'K7: the oracle is the real parser itself on each header-delimited block (metamorphic); it presupposes only that a header '
    'line begins a new block',
    'K1: counts are bounded by (longest text) + 1 because the ValueError message formats the count',
]

OUTSIDE = [
    'preprocessing of the test-case file',
    'encodings other than what open() defaults to',
    'documents longer than the stated numbers of characters / lines (no induction over the length)',
]
