"""C07  Test-case file structure: phases, merging, inclusion, source locations.

Kernels (DESIGN.md section 4, C07):
  K1  ParseSource: line / column / remaining-source bookkeeping under sequences of consume operations
      (text and counts symbolic) against a position-based model.
  K2  header / comment / empty line syntax (line symbolic) against regex-free predicates.
  K5  act-phase un-escaping (line symbolic).
  K3  document level, character-symbolic: the real DocumentParserForSectionsConfiguration over a
      two-section configuration with the real standard element parser.
  K4  the real test-case parser (test_case_parser.new_parser) on documents of symbolic line kinds
      with inclusion fixtures on a real scratch directory  [selector].
"""
from typing import List

from harness import _C07_ref as ref
from vsym import ob
from vsym.ob import Ob

PROPERTY = 'C07'

# =========================================================================== K1  ParseSource

REAL_K1 = (
    'exactly_lib.section_document.parse_source.ParseSource.__init__',
    'exactly_lib.section_document.parse_source.ParseSource.consume',
    'exactly_lib.section_document.parse_source.ParseSource.consume_current_line',
    'exactly_lib.section_document.parse_source.ParseSource.consume_part_of_current_line',
    'exactly_lib.section_document.parse_source.ParseSource.consume_initial_space_on_current_line',
    'exactly_lib.section_document.parse_source.ParseSource.is_at_eof',
    'exactly_lib.section_document.parse_source.ParseSource.is_at_eol',
    'exactly_lib.section_document.parse_source.ParseSource.remaining_source',
    'exactly_lib.section_document.parse_source.ParseSource.remaining_part_of_current_line',
    'exactly_lib.section_document.parse_source.ParseSource.current_line',
    'exactly_lib.section_document.parse_source.ParseSource.catch_up_with',
    'exactly_lib.section_document.parse_source._index_of_1st_char_on_new_current_line',
)

K1_OPS = ('consume', 'line', 'part', 'space')
K1_ALPHABET = 'a \n'


def _in_alphabet(s: str, alphabet: str) -> bool:
    for ch in s:
        if ch not in alphabet:
            return False
    return True


def _pre_k1(s: str, n1: int, n2: int) -> bool:
    c = ob.case()
    if len(s) > c['maxlen'] or not _in_alphabet(s, K1_ALPHABET):
        return False
    ops = c['ops']
    ns = (n1, n2)
    for i in range(2):
        takes_n = i < len(ops) and ops[i] in ('consume', 'part')
        if takes_n:
            if ns[i] < 0:
                return False
        elif ns[i] != 0:
            return False
    return True


def _k1_obs_real(ps):
    if not ps.has_current_line:
        return (False, ps.is_at_eof, ps.remaining_source)
    ln = ps.current_line
    return (True, ps.is_at_eof, ps.remaining_source, ps.current_line_number, ps.current_line_text,
            ps.column_index, ps.remaining_part_of_current_line, ps.is_at_eol, ln.line_number, ln.text)


def _k1_obs_model(m, bug: bool):
    if not m.alive:
        return (False, m.is_at_eof(), m.remaining_source())
    num = m.line_number()
    if bug and m.column() == 0 and m.p > 0:
        num -= 1  # seeded oracle error: a position just after a newline still belongs to the line before
    return (True, m.is_at_eof(), m.remaining_source(), num, m.line_text(),
            m.column(), m.remaining_part_of_line(), m.is_at_eol(), num, m.line_text())


def _k1_apply(op: str, n: int, ps, m):
    """-> (applicable, real_ok, model_ok)"""
    if op in ('part', 'space') and not m.alive:
        return False, True, True  # documented pre-condition of the operation: has_current_line
    if op == 'consume':
        mok = m.consume(n)
        f = lambda: ps.consume(n)
    elif op == 'line':
        mok = m.consume_current_line()
        f = ps.consume_current_line
    elif op == 'part':
        mok = m.consume_part_of_current_line(n)
        f = lambda: ps.consume_part_of_current_line(n)
    else:
        mok = m.consume_initial_space()
        f = ps.consume_initial_space_on_current_line
    try:
        f()
        rok = True
    except ValueError:
        rok = False
    return True, rok, mok


def k1_parse_source(s: str, n1: int, n2: int) -> bool:
    """
    pre: _pre_k1(s, n1, n2)
    post: _
    """
    from exactly_lib.section_document.parse_source import ParseSource
    c = ob.case()
    bug = bool(c.get('oracle_bug'))
    ps = ParseSource(s)
    m = ref.PosModel(s)
    via_copy = bool(c.get('via_copy'))
    target = ps.copy if via_copy else ps
    good = _k1_obs_real(target) == _k1_obs_model(m, bug)
    ns = (n1, n2)
    i = 0
    for op in c['ops']:
        if not good:
            break
        applicable, rok, mok = _k1_apply(op, ns[i], target, m)
        i += 1
        if not applicable:
            break
        if rok != mok:
            good = False
            break
        if not rok:
            break
        good = _k1_obs_real(target) == _k1_obs_model(m, bug)
    if via_copy and good:
        # the original is untouched by operations on the copy, and catch_up_with makes it identical
        good = _k1_obs_real(ps) == _k1_obs_model(ref.PosModel(s), False)
        ps.catch_up_with(target)
        good = good and _k1_obs_real(ps) == _k1_obs_model(m, bug)
    return ob.post(good)


def _k1_obligations(tier: str) -> List[Ob]:
    import itertools
    len1, len2 = (4, 3) if tier == 'quick' else (5, 4)
    obs = []
    seqs = [((a,), len1) for a in K1_OPS] + [(ops, len2) for ops in itertools.product(K1_OPS, repeat=2)]
    for ops, maxlen in seqs:
        obs.append(Ob(
            name='K1:' + '+'.join(ops), fn='k1_parse_source', case=dict(ops=ops, maxlen=maxlen), kernel='K1',
            bound='every text of <= %d characters over {a, space, newline}; operations %s with every count n >= 0; '
                  'all observers compared after every operation' % (maxlen, ' then '.join(ops)),
            timeout=600 if tier == 'quick' else 3000, real=REAL_K1,
            outside=('negative counts (no documented meaning)',
                     'consume_part_of_current_line / consume_initial_space_on_current_line without a current line '
                     '(documented pre-condition has_current_line)'),
            entry='ParseSource(s).<operations>'))
    for ops in (('line', 'consume'), ('consume', 'line')):
        obs.append(Ob(
            name='K1:copy:' + '+'.join(ops), fn='k1_parse_source',
            case=dict(ops=ops, maxlen=len2, via_copy=True), kernel='K1',
            bound='every text of <= %d characters over {a, space, newline}; %s on ParseSource.copy, original unchanged, '
                  'then catch_up_with' % (len2, ' then '.join(ops)),
            timeout=600 if tier == 'quick' else 3000, real=REAL_K1, entry='ParseSource(s).copy'))
    obs.append(Ob(name='K1:seeded-oracle-error', fn='k1_parse_source',
                  case=dict(ops=('consume',), maxlen=3, oracle_bug=True), kernel='K1',
                  bound='seeded oracle error: line number not advanced at column 0', timeout=300,
                  expect=ob.REFUTE, real=REAL_K1))
    return obs


# =========================================================================== K2  line syntax

REAL_K2 = (
    'exactly_lib.section_document.syntax.is_empty_line',
    'exactly_lib.section_document.syntax.is_comment_line',
    'exactly_lib.section_document.syntax.is_empty_or_comment_line',
    'exactly_lib.section_document.syntax.is_section_header_line',
    'exactly_lib.section_document.syntax.extract_section_name_from_section_line',
    'exactly_lib.section_document.syntax.section_header',
)

K2_ALPHABET = '[]a -#\t/'


def _pre_k2(t: str) -> bool:
    c = ob.case()
    return len(t) == c['n'] and _in_alphabet(t, K2_ALPHABET)


def k2_line_syntax(t: str) -> bool:
    """
    pre: _pre_k2(t)
    post: _
    """
    from exactly_lib.section_document import syntax
    bug = bool(ob.case().get('oracle_bug'))
    line = ob.case()['prefix'] + t
    e = ref.is_empty_line(line)
    cm = ref.is_comment_line(line)
    h = ref.is_header_line(line)
    good = (syntax.is_empty_line(line) == e and syntax.is_comment_line(line) == cm
            and syntax.is_empty_or_comment_line(line) == (e or cm)
            and syntax.is_section_header_line(line) == h)
    if good and h:
        expected = ref.header_name(line)
        if bug and expected is None and line.endswith(' ]'):
            expected = 'a'  # seeded oracle error: space allowed before the closing bracket
        try:
            actual = syntax.extract_section_name_from_section_line(line)
        except ValueError:
            actual = None
        good = actual == expected
        if good and actual is not None:
            # a header built from the extracted name is a header of that name
            hdr = syntax.section_header(actual)
            good = syntax.is_section_header_line(hdr) and syntax.extract_section_name_from_section_line(hdr) == actual
    return ob.post(good)


K2_CAP = 3  # at most this many symbolic characters where the line can still be a well-formed header


def _k2_needs_split(prefix: str, n_sym: int) -> bool:
    """The three anchored regexes decide on the first non-space character; only lines that can still be a
    header with a name are expensive (regex back-tracking over the name) and are split by one more character."""
    rest = prefix[ref.skip_space(prefix):]
    if rest == '':
        return n_sym > K2_CAP
    if rest[0] != '[':
        return False
    body = rest[1:]
    if body != '' and not ref._is_word(body[0]):
        return False
    return n_sym > K2_CAP


def _k2_partition(total_len: int) -> List[str]:
    """Concrete prefixes p such that {p + t : |t| = total_len - |p|} partition the lines of length total_len."""
    out = []
    todo = ['']
    while todo:
        p = todo.pop()
        if _k2_needs_split(p, total_len - len(p)):
            todo += [p + ch for ch in K2_ALPHABET]
        else:
            out.append(p)
    return sorted(out)


def _k2_obligations(tier: str) -> List[Ob]:
    maxlen = 4 if tier == 'quick' else 6
    obs = []
    for total in range(0, maxlen + 1):
        for prefix in _k2_partition(total):
            n = total - len(prefix)
            obs.append(Ob(
                name='K2:len%d:%r' % (total, prefix), fn='k2_line_syntax', case=dict(prefix=prefix, n=n), kernel='K2',
                bound='every line of exactly %d characters over {[, ], a, space, -, #, tab, /} that begins with %r '
                      '(the prefixes of the obligations partition all lines of <= %d characters)' % (total, prefix, maxlen),
                timeout=900, real=REAL_K2,
                outside=('word characters other than ASCII letters (the regex \\w is Unicode aware; the alphabet has one letter)',),
                entry='syntax.is_*_line / extract_section_name_from_section_line'))
    obs.append(Ob(name='K2:seeded-oracle-error', fn='k2_line_syntax', case=dict(prefix='[', n=3, oracle_bug=True),
                  kernel='K2', bound='seeded oracle error: `[a ]` accepted', timeout=300, expect=ob.REFUTE, real=REAL_K2))
    return obs


# =========================================================================== K5  act un-escaping

REAL_K5 = (
    'exactly_lib.processing.parse.act_phase_source_parser._un_escape',
    'exactly_lib.processing.parse.act_phase_source_parser._un_escape_at_beginning_of_line',
    'exactly_lib.processing.parse.act_phase_source_parser._split_space',
    'exactly_lib.processing.parse.act_phase_source_parser.ActPhaseParser.parse',
)

K5_ALPHABET = '\\[a '


def _pre_k5(line: str) -> bool:
    c = ob.case()
    return len(line) <= c['maxlen'] and _in_alphabet(line, K5_ALPHABET)


def k5_act_unescape(line: str) -> bool:
    """
    pre: _pre_k5(line)
    post: _
    """
    from exactly_lib.processing.parse.act_phase_source_parser import ActPhaseParser
    from exactly_lib.section_document.parse_source import ParseSource
    from exactly_lib.section_document import syntax
    bug = bool(ob.case().get('oracle_bug'))
    # the line is the second line of an act phase; the first one is a fixed source line
    src = ParseSource('x\n' + line + '\n[setup]\n')
    src_lines = ['x', line]
    parsed = ActPhaseParser().parse(None, src)
    got = list(parsed.source.lines)
    instr_lines = list(parsed.instruction_info.instruction.source_code().lines)
    if ref.is_header_line(line):
        # an un-escaped header line ends the act phase: it is not part of the source
        good = (got == ['x'] and instr_lines == ['x'] and src.current_line_number == 2
                and src.current_line_text == line and syntax.is_section_header_line(line))
    else:
        exp = ref.un_escape(line)
        if bug and line[:2] == '\\\\':
            exp = line  # seeded oracle error: escaped backslash kept
        good = (got == ['x', exp] and instr_lines == got and src.current_line_number == 3
                and src.current_line_text == '[setup]')
    good = good and parsed.source.first_line_number == 1
    return ob.post(good)


def _k5_obligations(tier: str) -> List[Ob]:
    maxlen = 4 if tier == 'quick' else 5
    return [
        Ob(name='K5:unescape', fn='k5_act_unescape', case=dict(maxlen=maxlen), kernel='K5',
           bound='every act-phase line of <= %d characters over {backslash, [, a, space}, as second line of an act phase '
                 'that is followed by a [setup] header' % maxlen,
           timeout=900 if tier == 'quick' else 3000, real=REAL_K5, entry='ActPhaseParser().parse'),
        Ob(name='K5:seeded-oracle-error', fn='k5_act_unescape', case=dict(maxlen=3, oracle_bug=True), kernel='K5',
           bound='seeded oracle error: `\\\\\\\\` not un-escaped', timeout=300, expect=ob.REFUTE, real=REAL_K5),
    ]


# =========================================================================== K3  document level, characters symbolic

REAL_K3 = (
    'exactly_lib.section_document.impl.document_parser.DocumentParserForSectionsConfiguration',
    'exactly_lib.section_document.impl.document_parser._Impl',
    'exactly_lib.section_document.impl.document_parser._parse_source',
    'exactly_lib.section_document.impl.document_parser.build_document',
    'exactly_lib.section_document.impl.document_parser._SectionElementParseResultHandler',
    'exactly_lib.section_document.document_parser.DocumentParser.parse_source',
    'exactly_lib.section_document.element_parsers.section_element_parsers.standard_syntax_element_parser',
    'exactly_lib.section_document.element_parsers.section_element_parsers.StandardSyntaxCommentAndEmptyLineParser',
    'exactly_lib.section_document.element_parsers.section_element_parsers.ParserFromSequenceOfParsers',
    'exactly_lib.section_document.element_parsers.section_element_parsers.InstructionWithoutDescriptionParser',
    'exactly_lib.section_document.element_parsers.section_element_parsers.parse_and_compute_source',
    'exactly_lib.section_document.element_builder.SectionContentElementBuilder',
    'exactly_lib.section_document.source_location.FileLocationInfo',
    'exactly_lib.section_document.exceptions.FileSourceError',
    'exactly_lib.section_document.parse_source.ParseSource',
    'exactly_lib.section_document.syntax',
)

STUB_ONE_LINE = ('instruction parser of the two-section configuration: a subclass of the public '
                 'InstructionParserWithoutSourceFileLocationInfo that consumes exactly the current line '
                 '(a "program" the property quantifies over, not a model of exactly_lib)')

K3_ALPHABET = '[]ab\n# '
K3_SECTIONS = ('a', 'b')
K3_FILE = 'k3.case'

_K3_PARSER = []


def _k3_parser():
    if not _K3_PARSER:
        from exactly_lib.section_document import document_parsers, section_parsing, model
        from exactly_lib.section_document.element_parsers import section_element_parsers as sep

        class OneLineInstruction(model.Instruction):
            def __init__(self, text):
                self.text = text

        class OneLineParser(sep.InstructionParserWithoutSourceFileLocationInfo):
            def parse_from_source(self, source):
                text = source.current_line_text
                source.consume_current_line()
                return OneLineInstruction(text)

        def element_parser():
            return sep.standard_syntax_element_parser(sep.InstructionWithoutDescriptionParser(OneLineParser()))

        conf = section_parsing.SectionsConfiguration(
            [section_parsing.SectionConfiguration(n, element_parser()) for n in K3_SECTIONS],
            default_section_name=K3_SECTIONS[0])
        _K3_PARSER.append(document_parsers.new_parser_for(conf))
    return _K3_PARSER[0]


def _pre_k3(t: str) -> bool:
    c = ob.case()
    return len(t) == c['n'] and _in_alphabet(t, K3_ALPHABET)


def _k3_location_ok(sli, path, first_line: int, lines) -> bool:
    """the source-location record names the file, has an empty inclusion chain and carries the lines"""
    slp = sli.source_location_path
    loc = slp.location
    return (loc.file_path_rel_referrer == path and len(slp.file_inclusion_chain) == 0
            and loc.source.first_line_number == first_line and tuple(loc.source.lines) == tuple(lines))


def k3_document(t: str) -> bool:
    """
    pre: _pre_k3(t)
    post: _
    """
    import pathlib
    from exactly_lib.section_document.parse_source import ParseSource
    from exactly_lib.section_document.exceptions import FileSourceError
    from exactly_lib.section_document.model import ElementType
    c = ob.case()
    bug = bool(c.get('oracle_bug'))
    text = c['prefix'] + t
    path = pathlib.Path(K3_FILE)
    try:
        expected = ref.read_sections(text, K3_SECTIONS, K3_SECTIONS[0])
        exp_err = None
    except ref.RefError as e:
        expected = None
        exp_err = e
    try:
        doc = _k3_parser().parse_source(path, ParseSource(text))
        err = None
    except FileSourceError as e:
        doc = None
        err = e
    # any exception of another class propagates: the obligation fails
    if exp_err is not None or err is not None:
        if exp_err is None or err is None:
            return ob.post(False)
        good = (err.source.first_line_number == exp_err.line_number
                and tuple(err.source.lines) == (exp_err.text,)
                and err.maybe_section_name is None
                and _k3_location_ok(err.source_location_info, path, exp_err.line_number, (exp_err.text,))
                and len(err.location_path) == 1
                and err.location_path[0].source.first_line_number == exp_err.line_number)
        return ob.post(good)
    good = set(doc.section) == set(expected.keys())
    type_name = {ElementType.EMPTY: ref.EMPTY, ElementType.COMMENT: ref.COMMENT, ElementType.INSTRUCTION: ref.INSTRUCTION}
    for name in K3_SECTIONS:
        if not good:
            break
        exp_elems = expected.get(name, [])
        if bug:
            # seeded oracle error: comment lines are instructions too
            exp_elems = [((ref.INSTRUCTION if k == ref.COMMENT and len(ls) == 1 else k), n, ls) for (k, n, ls) in exp_elems]
        elems = doc.elements_for_section_or_empty_if_phase_not_present(name).elements
        if len(elems) != len(exp_elems):
            good = False
            break
        for el, (kind, first, lines) in zip(elems, exp_elems):
            if not (type_name[el.element_type] == kind
                    and el.source.first_line_number == first and tuple(el.source.lines) == lines
                    and _k3_location_ok(el.source_location_info, path, first, lines)):
                good = False
                break
            if kind == ref.INSTRUCTION:
                if not (el.instruction_info.instruction.text == lines[0] and el.instruction_info.description is None):
                    good = False
                    break
            elif el.instruction_info is not None:
                good = False
                break
    return ob.post(good)


def _k3_obligations(tier: str) -> List[Ob]:
    maxlen = 4 if tier == 'quick' else 5
    split_from = 4
    obs = []
    for total in range(0, maxlen + 1):
        prefixes = [''] if total < split_from else list(K3_ALPHABET)
        if total >= 5:
            prefixes = [a + b for a in K3_ALPHABET for b in K3_ALPHABET]
        for prefix in prefixes:
            obs.append(Ob(
                name='K3:len%d:%r' % (total, prefix), fn='k3_document', case=dict(prefix=prefix, n=total - len(prefix)),
                kernel='K3',
                bound='every document text of exactly %d characters over {[, ], a, b, newline, #, space} that begins with %r '
                      '(the prefixes partition all texts of <= %d characters); sections a, b; default section a'
                      % (total, prefix, maxlen),
                timeout=900 if tier == 'quick' else 2400, real=REAL_K3, stubs=(STUB_ONE_LINE,),
                outside=('instructions that span several lines, descriptions, inclusion (K4)',),
                entry='DocumentParserForSectionsConfiguration.parse_source'))
    obs.append(Ob(name='K3:seeded-oracle-error', fn='k3_document', case=dict(prefix='', n=2, oracle_bug=True), kernel='K3',
                  bound='seeded oracle error: a comment line is an instruction', timeout=300, expect=ob.REFUTE,
                  real=REAL_K3, stubs=(STUB_ONE_LINE,)))
    return obs


# =========================================================================== registry

def obligations(tier: str) -> List[Ob]:
    obs = []
    obs += _k1_obligations(tier)
    obs += _k2_obligations(tier)
    obs += _k5_obligations(tier)
    obs += _k3_obligations(tier)
    return obs


ASSUMPTIONS = []

OUTSIDE = [
    'preprocessing of the test-case file',
    'encodings other than what open() defaults to',
]
