"""C10  The action to check gets the denoted argv / stdin / cwd; its outcome is captured.

The OS is replaced at the single choke point `process_executor.subprocess` by a recorder
(harness/_C10_lib.py) that records what `subprocess.call` is given and plays the child.

K1  Command -> OS call.  A REAL `Command` (shell / system program / executable file driver,
    0..3 arguments) through the REAL `CommandExecutorFromProcessExecutor` -> `_CommandTranslator`
    -> `ProcessExecutor.execute`.  Symbolic: the program / command line string, every argument
    string (no alphabet restriction: the code must not look at them), the timeout, the exit
    code the child returns (all of Z), the kind of OS failure.
K2  Text -> denotation.  Program texts (catalogue: program forms x argument forms x
    program-symbol chains x -stdin / -transformed-by) through the REAL test-case parser, the
    REAL `def` / `stdin` instructions, the REAL command-line actor parser, REAL
    sdv -> ddv -> adv -> primitive resolution, the REAL `Executor._resolve_stdin` and executable
    factory.  Symbolic: the values of the string symbols S0, S1, S2 referenced by arguments,
    list elements, shell command lines and stdin texts.
K3  Whole program.  Test-case text -> REAL parser -> REAL `full_execution.execute` with the
    real actors, the real `run` / `$` / `%` / `stdin` / `def` / `cd` instructions, a real
    sandbox; the recorder sees every process.  Symbolic: S0, S1 (values of predefined string
    symbols; they travel from the symbol table to argv).
K4  Outcome.  (a) the verdict of a program run as an instruction for every exit code in Z
    (REAL result translators selected by the REAL option parser); (b) whole program: the exit
    code / stdout / stderr the child produces are what `exit-code`, `stdout`, `stderr` see -
    child behaviour is a symbolic selector, the operand of `exit-code ==` a symbolic integer;
    `run` in every phase: non-zero => FAIL in [assert], HARD_ERROR elsewhere, unless
    -ignore-exit-code.
    (c) the child writes BYTES: byte sequences that are not valid UTF-8 (and every single byte value) on stderr /
    stdout of a program run as an instruction, used as a text source, or looked at by `exit-code`: the verdict
    depends on the exit code only - never INTERNAL_ERROR.
K2/K3 quoted words.  Every option-like / reserved word of the program-argument, program, text-source and path
    syntax - in hard quotes, in soft quotes, as the value of a referenced string symbol, as an element of a
    referenced list symbol - at every position of every argument list (program forms, program symbols and
    references, run / % in every phase, -from PROGRAM, programs as text sources, the three actors) and as the text
    of -stdin / `stdin =`: the process gets the plain word.  K2:option-token: the option matchers of the real
    parsers on a token with a symbolic string: selected iff not quoted and equal to the option.
"""
from typing import List, Optional

from vsym import ob
from vsym.ob import Ob

from harness import _C10_lib as L
from harness import _C10_spec as sp
from harness._C10_spec import Pgm

PROPERTY = 'C10'


def _is_here_doc_atom(name: str) -> bool:
    """atoms hd0.. are the here-document bodies of the kernel K3:here-doc (registered in sp.A for that kernel only)"""
    return name.startswith('hd') and name[2:].isdigit()

STUB_SUBPROCESS = ('process_executor.subprocess -> recorder (contract: subprocess.call hands args/stdin/stdout/stderr/'
                   'env/timeout/shell to the OS, the child inherits the cwd of the caller, its exit code is returned; '
                   'ValueError / OSError / TimeoutExpired are the failures it may raise)')
STUB_SINK = 'text sink with write() (append-only) standing in for the text file that StringSourceContents.write_to fills'
STUB_INT = 'python_evaluate -> placeholder table (the integer literal K0 denotes the symbolic integer k0)'
STUB_SANDBOX = 'deterministic sandbox directory under a scratch dir (exactly_lib configuration hook sandbox_root_dir_resolver)'
STUB_SYMBOLS = ('string symbols S0..S3 with symbolic values, entered into the symbol table as `def string` would '
                '(SymbolContainer of a constant StringSdv)')

MAXLEN = 6  # bound on the length of every symbolic string (they are never inspected by the code under test)


def _short(*ss) -> bool:
    m = (ob.case() or {}).get('maxlen', MAXLEN)
    for s in ss:
        if len(s) > m:
            return False
    return True


# =============================================================================================== K1

REAL_K1 = (
    'exactly_lib.impls.program_execution.executable_factories._CommandTranslator',
    'exactly_lib.impls.program_execution.executable_factories.ExecutableFactoryBase.make',
    'exactly_lib.impls.program_execution.impl.cmd_exe_from_proc_exe.CommandExecutorFromProcessExecutor.execute',
    'exactly_lib.impls.program_execution.impl.cmd_exe_from_proc_exe._raise_hard_error',
    'exactly_lib.util.process_execution.process_executor.ProcessExecutor.execute',
    'exactly_lib.type_val_prims.program.commands.CommandDriverForShell.shell_command_line_with_args',
    'exactly_lib.type_val_prims.program.commands.CommandDriverVisitor.visit',
    'exactly_lib.type_val_prims.program.command.Command',
    'exactly_lib.impls.os_services.os_services_access.new_for_current_os',
)

K1_DRIVERS = ('shell', 'system', 'file')
EXE_PATH = '/vsym/bin/the exe'


class _Token:
    """An opaque object standing for an open file."""

    def __init__(self, name):
        self.name = name


def _fake_tcds():
    import pathlib
    from exactly_lib.tcfs.hds import HomeDs
    from exactly_lib.tcfs.sds import SandboxDs
    from exactly_lib.tcfs.tcds import TestCaseDs
    return TestCaseDs(HomeDs(pathlib.Path(HDS_K2), pathlib.Path(HDS_K2)), SandboxDs(SDS_K2))


def _pre_k1(p, a0, a1, a2, t, rc, fault) -> bool:
    n = ob.case()['nargs']
    args = (a0, a1, a2)
    for i in range(3):
        if i >= n and args[i] != '':
            return False
    if ob.case()['driver'] == 'file' and p != '':
        return False
    if ob.case().get('lean') and not (fault == 0 and t == -1):
        return False  # these dimensions are covered by the obligations with fewer arguments
    return _short(p, a0, a1, a2) and 0 <= fault <= 3 and t >= -1


def k1_execute(p: str, a0: str, a1: str, a2: str, t: int, rc: int, fault: int) -> bool:
    """
    pre: _pre_k1(p, a0, a1, a2, t, rc, fault)
    post: _
    """
    import pathlib
    from exactly_lib.impls.os_services import os_services_access
    from exactly_lib.test_case.hard_error import HardErrorException
    from exactly_lib.type_val_deps.types.path import path_ddvs
    from exactly_lib.type_val_prims.program import commands
    from exactly_lib.type_val_prims.program.command import Command
    from exactly_lib.util.file_utils.std import StdFiles, StdOutputFiles
    from exactly_lib.util.process_execution.execution_elements import ProcessExecutionSettings

    case = ob.case()
    driver_kind, n = case['driver'], case['nargs']
    args = [a0, a1, a2][:n]
    if driver_kind == 'shell':
        driver = commands.CommandDriverForShell(p)
    elif driver_kind == 'system':
        driver = commands.CommandDriverForSystemProgram(p)
    else:
        driver = commands.CommandDriverForExecutableFile(
            path_ddvs.absolute_file_name(EXE_PATH).value_of_any_dependency__d(_fake_tcds()))
    command = Command(driver, list(args))
    timeout = None if t == -1 else t
    environ = {'VSYM': 'v'}
    settings = ProcessExecutionSettings(timeout, environ)
    f_in, f_out, f_err = _Token('in'), _Token('out'), _Token('err')
    files = StdFiles(f_in, StdOutputFiles(f_out, f_err))

    failures = (None, ValueError('injected'), OSError('injected'), L.Recorder.TimeoutExpired('cmd', 1))
    failure = ob.pick(failures, fault)
    rec = L.Recorder(lambda call: L.Child(code=rc, raises=failure))
    L.install(rec)
    try:
        executor = os_services_access.new_for_current_os().command_executor
        result, raised = None, None
        try:
            result = executor.execute(command, settings, files)
        except HardErrorException as e:
            raised = e
    finally:
        L.uninstall()

    if len(rec.calls) != 1:
        return ob.post(False)
    c = rec.calls[0]
    bug = case.get('oracle_bug')
    if driver_kind == 'shell':
        # ONE string: the command line, then the arguments, separated by single spaces
        expected = p
        for a in args:
            expected = expected + ' ' + a
        if bug == 'shell-verbatim':
            expected = p  # seeded oracle error: forgets the appended arguments
        ok = (c.shell is True) and isinstance(c.args, str) and c.args == expected
    else:
        expected0 = p if driver_kind == 'system' else EXE_PATH
        if bug == 'argv-order':
            args = list(reversed(args))  # seeded oracle error
        ok = (c.shell is False) and (not isinstance(c.args, str)) and len(c.args) == 1 + len(args)
        ok = ok and c.args[0] == expected0
        if ok:
            for i in range(len(args)):
                ok = ok and c.args[1 + i] == args[i]
    ok = ok and c.stdin_obj is f_in and c.stdout_obj is f_out and c.stderr_obj is f_err
    ok = ok and c.env is environ and c.extra == {}
    ok = ok and ((c.timeout is None) if t == -1 else (c.timeout == t))
    if failure is None:
        # the exit code is the child's, whatever it is
        ok = ok and raised is None and result == rc
        if bug == 'exit-code':
            ok = ok and result == (rc if rc >= 0 else 0)  # seeded oracle error
    else:
        ok = ok and raised is not None
    return ob.post(ok)


# =============================================================================================== K2

REAL_K2 = (
    'exactly_lib.impls.actors.program.parse.Parser.apply',
    'exactly_lib.impls.actors.program.parse._syntax_error_if_not_at_eof',
    'exactly_lib.impls.types.program.parse.parse_program._Parser',
    'exactly_lib.impls.types.program.parse.parse_arguments._Parser',
    'exactly_lib.impls.types.program.parse.parse_arguments._ElementParser',
    'exactly_lib.impls.types.program.parse.parse_arguments._MkElement',
    'exactly_lib.impls.types.program.parse.parse_shell_command._ParseAsCommand',
    'exactly_lib.impls.types.program.parse.parse_system_program._ParseAsCommand',
    'exactly_lib.impls.types.program.parse.parse_executable_file._ParserOfCommand',
    'exactly_lib.impls.types.program.parse.parse_with_reference_to_program._ParseAsProgram',
    'exactly_lib.impls.types.program.sdvs.program_symbol_sdv.ProgramSdvForSymbolReference',
    'exactly_lib.impls.types.program.sdvs.command_program_sdv.ProgramSdvForCommand',
    'exactly_lib.type_val_deps.types.program.sdv.accumulated_components.AccumulatedComponents',
    'exactly_lib.type_val_deps.types.program.sdv.arguments.ArgumentsSdv',
    'exactly_lib.type_val_deps.types.program.sdv.command.CommandSdv',
    'exactly_lib.type_val_deps.types.program.ddv.program.ProgramDdv',
    'exactly_lib.type_val_deps.types.program.ddv.program.ProgramAdv',
    'exactly_lib.type_val_deps.types.program.ddv.command.CommandDdv',
    'exactly_lib.type_val_deps.types.list_.list_sdv.ListSdv',
    'exactly_lib.type_val_deps.types.list_.list_sdv.SymbolReferenceElementSdv',
    'exactly_lib.type_val_deps.types.list_.list_sdvs.concat',
    'exactly_lib.type_val_deps.types.string_.string_sdv_impls.SymbolStringFragmentSdv',
    'exactly_lib.type_val_deps.types.string_.strings_ddvs.ListFragmentDdv',
    'exactly_lib.type_val_deps.types.string_.string_ddv.StringDdv',
    'exactly_lib.impls.actors.program.execution.Executor._resolve_stdin',
    'exactly_lib.type_val_prims.string_source.impls.concat._ConcatStringSourceContents.write_to',
    'exactly_lib.impls.types.string_transformer.sequence_resolving.resolve',
    'exactly_lib.impls.program_execution.executable_factories._CommandTranslator',
    'exactly_lib.impls.instructions.setup.stdin._Instruction.main',
    'exactly_lib.impls.instructions.multi_phase.define_symbol.parser.TheInstructionEmbryo.main',
)


class _Sink:
    """The text file that `as_file` fills by `write_to` (append-only)."""

    def __init__(self):
        self.text = ''

    def write(self, s):
        self.text = self.text + s
        return len(s)

    def writelines(self, lines):
        for s in lines:
            self.write(s)


HDS_K2 = '/vsym-hds'
SDS_K2 = '/vsym-sds'
TRANSFORMER_PROBE = 'some OUT text\nout  \n'


class K2Case:
    def __init__(self, name: str, main: Pgm, defs=(), act_stdin: Optional[str] = None):
        self.name, self.main, self.defs, self.act_stdin = name, main, list(defs), act_stdin

    def n_symbols(self) -> int:
        t = self.own_text()
        return sum(1 for i in range(4) if ('@[S%d]@' % i) in t or (i < 2 and '@[L]@' in t))

    def own_text(self) -> str:
        """the text without the standard definitions of L, P, E"""
        return self.text().replace(sp.DEF_L, '')

    def text(self) -> str:
        lines = ['[setup]', sp.DEF_L, sp.DEF_P, sp.DEF_E]
        for name, p in self.defs:
            lines.append('def program %s = %s' % (name, p.text()))
        if self.act_stdin is not None:
            lines.append('stdin = ' + sp.T[self.act_stdin][0])
        lines += ['[act]', self.main.text()]
        return '\n'.join(lines) + '\n'


def _k2_environment(symbols):
    import pathlib
    from exactly_lib.tcfs.hds import HomeDs
    from exactly_lib.tcfs.sds import SandboxDs
    from exactly_lib.test_case.phases.instruction_environment import InstructionEnvironmentForPostSdsStep, TmpFileStorage
    from exactly_lib.util.file_utils.dir_file_spaces import DirFileSpaceThatMustNoBeUsed
    from exactly_lib.util.process_execution.execution_elements import ProcessExecutionSettings
    hds = HomeDs(pathlib.Path(HDS_K2), pathlib.Path(HDS_K2))
    return InstructionEnvironmentForPostSdsStep(
        hds, ProcessExecutionSettings.null(), SandboxDs(SDS_K2),
        TmpFileStorage(pathlib.Path(SDS_K2) / 'tmp-unused', lambda p: DirFileSpaceThatMustNoBeUsed('K2')),
        symbols, 2 ** 10)


def _k2_real(case: K2Case, s0, s1, s2, s3):
    """text -> (Executable, stdin text or None, transformed probe text)  by REAL code only."""
    from exactly_lib.impls.actors.program.execution import Executor
    from exactly_lib.impls.actors.program.parse import Parser
    from exactly_lib.impls.os_services import os_services_access
    from exactly_lib.impls.program_execution import executable_factories
    from exactly_lib.impls.types.string_source import constant_str
    from exactly_lib.impls.types.string_transformer import sequence_resolving
    from exactly_lib.test_case.app_env import ApplicationEnvironment
    from exactly_lib.test_case.phases.setup.settings_builder import SetupSettingsBuilder
    from exactly_lib.util.file_utils.dir_file_spaces import DirFileSpaceThatMustNoBeUsed
    from exactly_lib.util.symbol_table import SymbolTable

    tc = L.parse_case(case.text())
    symbols = SymbolTable({'S0': L.string_symbol(s0), 'S1': L.string_symbol(s1), 'S2': L.string_symbol(s2),
                           'S3': L.string_symbol(s3)})
    env = _k2_environment(symbols)
    os_services = os_services_access.new_for_current_os()
    settings_builder = SetupSettingsBuilder.new_empty()
    for e in tc.setup_phase.elements:
        r = e.instruction_info.instruction.main(env, None, os_services, settings_builder)
        if not r.is_success:
            raise ValueError('harness error: setup instruction failed')
    act_instructions = [e.instruction_info.instruction for e in tc.act_phase.elements]
    program_sdv = Parser().apply(act_instructions).program
    app_env = ApplicationEnvironment(os_services, env.proc_exe_settings,
                                     DirFileSpaceThatMustNoBeUsed('K2'), env.mem_buff_size)
    program = program_sdv.resolve(env.symbols).value_of_any_dependency(env.tcds).primitive(app_env)
    executable = executable_factories.get_factory_for_current_operating_system().make(program.command)
    act_stdin = None if settings_builder.stdin is None else settings_builder.stdin.resolve(app_env)
    stdin_source = Executor._resolve_stdin(act_stdin, program.stdin, env.mem_buff_size)
    if stdin_source is None:
        stdin_text = None
    else:
        sink = _Sink()
        stdin_source.contents().write_to(sink)
        stdin_text = sink.text
    transformer = sequence_resolving.resolve(program.transformation)
    probe = constant_str.string_source(TRANSFORMER_PROBE, DirFileSpaceThatMustNoBeUsed('K2'))
    transformed = transformer.transform(probe).contents().as_str
    return executable, stdin_text, transformed, transformer.is_identity_transformer


def _k2_cases(tier: str) -> List[K2Case]:
    cs = []

    def add(name, main, defs=(), act_stdin=None):
        cs.append(K2Case(name, main, defs, act_stdin))

    # ---- argument forms.  Literal forms in groups (each with one symbolic argument riding along),
    #      forms with symbol references one at a time
    add('args/quoting', Pgm('sys', 'prog', ['plain', 'empty-sq', 'empty-dq', 'spaces', 'sq-in-dq', 'dq-in-sq', 'sym']))
    add('args/option-like-and-reserved', Pgm('sys', 'prog', ['option', 'long-option', 'stdin-like', 'reserved-colon',
                                                             'reserved-paren', 'reserved-and', 'equals-sign', 'sym1']))
    add('args/shell-meta-and-non-references', Pgm('sys', 'prog', ['glob', 'dollar', 'sym-hard-quoted',
                                                                  'symbol-name-only', 'sym']))
    add('args/paths', Pgm('sys', 'prog', ['path', 'path-in-dq', 'existing-file', 'existing-dir', 'existing-path',
                                          'empty-list', 'sym1']))
    for a in ('sym', 'sym1', 'sym-in-dq', 'sym-concat', 'sym-twice', 'list', 'list-in-dq', 'list-concat', 'rest'):
        add('arg/' + a, Pgm('sys', 'prog', [a]))
    # ---- argument lists
    add('args/none', Pgm('sys', 'prog'))
    add('args/mixed', Pgm('sys', 'prog', ['sym', 'empty-sq', 'list', 'option', 'sym-in-dq', 'path']))
    add('args/continuation', Pgm('sys', 'prog', ['plain', 'sym', 'sym1'], continuation=True))
    add('args/parens', Pgm('sys', 'prog', ['sym', 'plain'], parens=True))
    add('args/rest-after-list', Pgm('sys', 'prog', ['list', 'rest']))
    # ---- program forms
    add('form/file', Pgm('file', 'exe', ['sym', 'spaces']))
    add('form/python', Pgm('python', '', ['option', 'sym']))
    add('form/shell', Pgm('shell', 'echo "a  b"   \'c\' @[S0]@ | cat -n',
                          head_value=[sp.C('echo "a  b"   \'c\' '), sp.S(0), sp.C(' | cat -n')]))
    add('form/shell-only-sym', Pgm('shell', '@[S1]@', head_value=[sp.S(1)]))
    # ---- stdin of every pure kind; with and without the [setup] stdin
    for t in sp.PURE_TEXT_SOURCES:
        add('stdin/pgm-' + t, Pgm('sys', 'prog', ['plain'], stdin=t))
        add('stdin/setup-' + t, Pgm('sys', 'prog', ['plain']), act_stdin=t)
    add('stdin/pgm+setup', Pgm('sys', 'prog', ['sym'], stdin='string'), act_stdin='sym3')
    add('stdin/pgm+setup-same', Pgm('sys', 'prog', [], stdin='sym'), act_stdin='sym')
    add('stdin/pgm+setup-heredocs', Pgm('sys', 'prog', [], stdin='here-doc'), act_stdin='here-doc')
    # ---- transformations
    add('trans/one', Pgm('sys', 'prog', ['sym'], trans='upper'))
    # ---- chains of program symbols
    base = Pgm('sys', 'base', ['plain', 'sym'], stdin='string')
    add('chain/1', Pgm('ref', 'P1', ['sym1']), [('P1', base)])
    add('chain/1-noargs', Pgm('ref', 'P1'), [('P1', base)])
    add('chain/1-stdin', Pgm('ref', 'P1', ['plain2'], stdin='sym3'), [('P1', base)], act_stdin='string-sq')
    add('chain/2-args', Pgm('ref', 'P2', ['sym', 'plain2']),
        [('P1', Pgm('sys', 'base', ['sym1', 'plain'])), ('P2', Pgm('ref', 'P1', ['list']))])
    add('chain/2-stdin', Pgm('ref', 'P2', [], stdin='sym'),
        [('P1', Pgm('sys', 'base', [], stdin='sym3')), ('P2', Pgm('ref', 'P1', ['plain'], stdin='here-doc'))],
        act_stdin='string')
    add('chain/2-trans', Pgm('ref', 'P2', ['plain2'], trans='strip'),
        [('P1', Pgm('sys', 'base', ['sym'], trans='upper')), ('P2', Pgm('ref', 'P1', ['sym1'], trans='replace'))])
    add('chain/2-trans-rev', Pgm('ref', 'P2', ['plain2']),
        [('P1', Pgm('sys', 'base', ['sym'], trans='replace')), ('P2', Pgm('ref', 'P1', ['sym1'], trans='upper'))])
    add('chain/shell', Pgm('ref', 'P1', ['sym1', 'spaces']),
        [('P1', Pgm('shell', 'echo @[S0]@ x', head_value=[sp.C('echo '), sp.S(0), sp.C(' x')]))])
    add('chain/shell-2', Pgm('ref', 'P2', ['sym1']),
        [('P1', Pgm('shell', 'sh -c', head_value=[sp.C('sh -c')])), ('P2', Pgm('ref', 'P1', ['sym', 'empty-sq']))])
    add('chain/file', Pgm('ref', 'P1', ['sym1']), [('P1', Pgm('file', 'exe', ['existing-file']))])
    add('chain/python', Pgm('ref', 'P1', ['sym1'], parens=True), [('P1', Pgm('python', '', ['option']))])
    add('chain/unused-later-definition', Pgm('ref', 'P2', ['plain']),
        [('P1', Pgm('sys', 'one', ['sym'])), ('P2', Pgm('ref', 'P1', ['sym1'])), ('P3', Pgm('ref', 'P2', ['plain2']))])
    add('chain/3', Pgm('ref', 'P3', ['sym1']),
        [('P1', Pgm('sys', 'base', ['plain'], stdin='sym')), ('P2', Pgm('ref', 'P1', ['sym'], trans='upper')),
         ('P3', Pgm('ref', 'P2', ['plain2'], stdin='string-sq'))], act_stdin='sym3')
    if tier == 'thorough':
        for a in sp.A:
            if _is_here_doc_atom(a):
                continue  # here-documents span lines and must stand last on their line: they have their own kernel (K3:here-doc)
            add('arg1/' + a, Pgm('ref', 'P1', [a]), [('P1', Pgm('sys', 'b', [a]))])
        add('chain/3-full', Pgm('ref', 'P3', ['sym1', 'rest'], stdin='string', trans='strip'),
            [('P1', Pgm('sys', 'base', ['list'], stdin='here-doc', trans=None)),
             ('P2', Pgm('ref', 'P1', ['sym', 'sym-in-dq'], trans='upper')),
             ('P3', Pgm('ref', 'P2', ['path', 'sym1'], stdin='sym'))], act_stdin='sym3')
        add('chain/4', Pgm('ref', 'P4', ['sym']),
            [('P1', Pgm('shell', 'c @[S1]@', head_value=[sp.C('c '), sp.S(1)])),
             ('P2', Pgm('ref', 'P1', ['sym'], stdin='sym')),
             ('P3', Pgm('ref', 'P2', ['sym1'], stdin='string')),
             ('P4', Pgm('ref', 'P3', ['plain'], stdin='here-doc'))], act_stdin='sym3')
        for t in sp.PURE_TEXT_SOURCES:
            for u in sp.PURE_TEXT_SOURCES:
                add('stdin/%s+%s' % (t, u), Pgm('sys', 'prog', [], stdin=t), act_stdin=u)
    return cs


_K2 = {}


def _k2_case(name: str) -> K2Case:
    if not _K2:
        for c in _k2_cases('thorough'):
            _K2[c.name] = c
    return _K2[name]


def _pre_k2(s0, s1, s2, s3) -> bool:
    used = _k2_case(ob.case()['scenario']).own_text()
    for i, s in enumerate((s0, s1, s2, s3)):
        if ('@[S%d]@' % i) not in used and ('@[L]@' not in used or i > 1) and s != '':
            return False  # a symbol the scenario does not reference (directly or through L): no need to vary it
    return _short(s0, s1, s2, s3)


def k2_denote(s0: str, s1: str, s2: str, s3: str) -> bool:
    """
    pre: _pre_k2(s0, s1, s2, s3)
    post: _
    """
    case = _k2_case(ob.case()['scenario'])
    executable, stdin_text, transformed, is_identity = _k2_real(case, s0, s1, s2, s3)
    # ---- reference denotation
    env = sp.Env([s0, s1, s2, s3], act=SDS_K2 + '/act', hds=HDS_K2)
    defs = dict(case.defs)
    d = sp.denote(case.main, defs)
    bug = ob.case().get('oracle_bug')
    if bug == 'args-reversed-layers':
        d.argv = [d.argv[0]] + list(reversed(d.argv[1:]))
    expected_args = sp.argv_of(d, env)
    parts = list(d.stdin)
    if case.act_stdin is not None:
        if bug == 'act-stdin-first':
            parts = [sp.T[case.act_stdin][1]] + parts  # seeded oracle error
        else:
            parts = parts + [sp.T[case.act_stdin][1]]
    expected_stdin = None
    if parts:
        expected_stdin = ''
        for v in parts:
            expected_stdin = expected_stdin + sp.ev(v, env)
    ok = executable.is_shell == d.shell
    if d.shell:
        ok = ok and isinstance(executable.arg_list_or_str, str) and executable.arg_list_or_str == expected_args
    else:
        got = executable.arg_list_or_str
        ok = ok and (not isinstance(got, str)) and len(got) == len(expected_args)
        if ok:
            for i in range(len(expected_args)):
                ok = ok and got[i] == expected_args[i]
    if expected_stdin is None:
        ok = ok and stdin_text is None
    else:
        ok = ok and stdin_text is not None and stdin_text == expected_stdin
    ok = ok and transformed == sp.transformed(d, TRANSFORMER_PROBE) and is_identity == (len(d.trans) == 0)
    return ob.post(ok)


# =============================================================================================== K3

REAL_K3 = (
    'exactly_lib.execution.full_execution.execution.execute',
    'exactly_lib.execution.partial_execution.impl.atc_execution.ActionToCheckExecutor',
    'exactly_lib.cli_default.program_modes.test_case.test_case_handling_setup.TheActor.parse',
    'exactly_lib.impls.actors.util.actor_from_parts.parts.ActionToCheckFromParts',
    'exactly_lib.impls.actors.program.parse.Parser.apply',
    'exactly_lib.impls.actors.program.execution.Executor.execute',
    'exactly_lib.impls.actors.program.execution.Executor._resolve_stdin',
    'exactly_lib.impls.actors.program.execution._ExecutorWithoutTransformation.execute',
    'exactly_lib.impls.actors.program.execution._ExecutorWithTransformation.execute',
    'exactly_lib.impls.actors.file_interpreter._Actor.parse',
    'exactly_lib.impls.actors.file_interpreter._ActionToCheck.execute',
    'exactly_lib.impls.actors.source_interpreter.executor.Executor',
    'exactly_lib.impls.actors.source_interpreter.parser.Parser.apply',
    'exactly_lib.impls.actors.util.actor_from_parts.command_executor.OsProcessExecutor.execute',
    'exactly_lib.impls.actors.util.atc_proc_exe_settings.for_atc',
    'exactly_lib.impls.actors.util.std_files.of_optional_stdin',
    'exactly_lib.impls.actors.null._Executor.execute',
    'exactly_lib.impls.types.string_source.as_stdin._context_manager',
    'exactly_lib.impls.instructions.configuration.utils.actor_utils.parse',
    'exactly_lib.impls.instructions.setup.stdin._Instruction.main',
    'exactly_lib.impls.instructions.setup.stdin._StdinOfStringSource.resolve',
    'exactly_lib.impls.instructions.multi_phase.run._InstructionPartsParser.parse',
    'exactly_lib.impls.instructions.multi_phase.shell.embryo_parser',
    'exactly_lib.impls.instructions.multi_phase.sys_cmd.embryo_parser',
    'exactly_lib.impls.instructions.multi_phase.utils.instruction_from_parts_for_executing_program.TheInstructionEmbryo.main',
    'exactly_lib.impls.instructions.multi_phase.utils.instruction_from_parts_for_executing_program.result_to_sh',
    'exactly_lib.impls.instructions.multi_phase.utils.instruction_from_parts_for_executing_program.result_to_pfh',
    'exactly_lib.impls.program_execution.processors.store_result_in_files.ProcessorThatStoresResultInFilesInDir.process',
    'exactly_lib.impls.program_execution.processors.read_stderr_on_error.ProcessorThatStoresResultInFilesInDirAndReadsStderrOnNonZeroExitCode.process',
    'exactly_lib.impls.program_execution.impl.cmd_exe_from_proc_exe.CommandExecutorFromProcessExecutor.execute',
    'exactly_lib.impls.program_execution.executable_factories._CommandTranslator',
    'exactly_lib.util.process_execution.process_executor.ProcessExecutor.execute',
    'exactly_lib.type_val_deps.types.program.sdv.accumulated_components.AccumulatedComponents.new_accumulated',
    'exactly_lib.impls.types.program.sdvs.program_symbol_sdv.ProgramSdvForSymbolReference.resolve',
    'exactly_lib.impls.types.program.sdvs.command_program_sdv.ProgramSdvForCommand.resolve',
    'exactly_lib.impls.instructions.assert_.process_output.exit_code.Parser.parse',
    'exactly_lib.impls.instructions.assert_.process_output.impl.exit_code.getter_from_atc._ExitCodeGetter._get_exit_code',
)

REAL_K3_PARTS = (
    'exactly_lib.util.process_execution.file_ctx_managers.opened_file',
    'exactly_lib.impls.types.string_source.command_output.exit_relevant.StdoutWriter',
    'exactly_lib.impls.types.string_source.command_output.exit_relevant.StderrFileCreator',
    'exactly_lib.impls.types.string_source.command_output.exit_ignored._WriterBase.write',
    'exactly_lib.type_val_prims.string_source.impls.concat._ConcatStringSourceContents.write_to',
    'exactly_lib.impls.types.string_source.as_stdin.of_sequence',
)

OUT0 = 'some OUT text\nout 2\n'
ERR0 = 'an err text\n'
OUTS = (OUT0, 'other OUT\n', '')
ERRS = (ERR0, '')
CODES_QUICK = (0, 1, 255)
CODES_THOROUGH = (0, 1, 2, 126, 127, 128, 255)
PROBE_OUT, PROBE_ERR, PROBE_CODE = 'probe OUT\n', 'probe err\n', 7
SOURCE_LINES = ('line one $x "q"', "  line 'two'  ", '', '#! four')

HDS_FILES = (('f.txt', sp.FILE_TXT, 0o644), ('exe', '#!/bin/sh\n', 0o755), ('src.py', 'the source file\n', 0o644))
INTERP = Pgm('sys', 'interp', ['option', 'sym1'])

PHASES = ('setup', 'before-assert', 'assert', 'cleanup')


def _here(text: str) -> str:
    assert text.endswith('\n')
    return '<<EOF\n' + text + 'EOF'


class K3Case:
    def __init__(self, name: str, actor: str = 'command', act=None, defs=(), setup_stdin: Optional[str] = None,
                 cd: bool = False, runs=(), outcome: bool = False, interp: Pgm = INTERP, probes=(), files=(),
                 streams: bool = True, exit_code: Optional[int] = None):
        self.name, self.actor, self.act, self.defs = name, actor, act, list(defs)
        self.streams = streams  # False: no `stdout` / `stderr` assertion on the output of the action to check
        self.exit_code = exit_code  # the literal operand of `exit-code ==` (default 0; `outcome`: the placeholder K0)
        self.setup_stdin, self.cd, self.runs, self.outcome, self.interp = setup_stdin, cd, list(runs), outcome, interp
        self.files = list(files)  # [setup]: names of text sources;  `file f<i>.txt = TEXT-SOURCE`
        self.probes = list(probes)  # [assert]: (kind in {'exit-code', 'stdout', 'stderr'}, Pgm):  `kind -from PROGRAM MATCHER`

    def _probe_lines(self, probe) -> str:
        kind, p = probe
        head = '%s -from %s\n        ' % (kind, p.text())
        if kind == 'exit-code':
            return head + '== %d' % PROBE_CODE
        if kind == 'stdout':
            return head + 'equals ' + _here(sp.transformed(sp.denote(p, dict(self.defs)), PROBE_OUT))
        return head + 'equals ' + _here(PROBE_ERR)

    # runs: (phase, instruction form in {'run', '%', '$'}, Pgm, ignore-exit-code)

    def _run_line(self, r) -> str:
        phase, form, p, ignore = r
        if form == 'run':
            return 'run ' + ('-ignore-exit-code ' if ignore else '') + p.text()
        return p.text()  # the instructions `%` and `$` are written as the program forms

    def act_den(self) -> Optional[sp.Den]:
        if self.actor == 'command':
            return sp.denote(self.act, dict(self.defs))
        return None

    def text(self, ignore_override=None) -> str:
        lines = []
        if self.actor != 'command' and self.act != 'empty':
            lines += ['[conf]', 'actor = ' + self.actor + ('' if self.actor == 'null' else ' ' + self.interp.text())]
        lines += ['[setup]', sp.DEF_L, sp.DEF_P, sp.DEF_E, sp.DEF_G]
        if self.cd:
            lines += ['dir sub', 'cd sub']
        for name, p in self.defs:
            lines.append('def program %s = %s' % (name, p.text()))
        for i, t in enumerate(self.files):
            lines.append('file f%d.txt = %s' % (i, sp.text_source(t)[0]))
        if self.setup_stdin is not None:
            lines.append('stdin = ' + sp.text_source(self.setup_stdin)[0])
        lines += [self._run_line(r) for r in self.runs if r[0] == 'setup']
        lines.append('[act]')
        if self.actor == 'command':
            lines.append(self.act.text())
        elif self.actor == 'file':
            lines.append('src.py ' + sp.arg_text(self.act))
        elif self.actor == 'null' and self.act == 'empty':
            lines += ['', '# only a comment']
        else:
            lines += list(SOURCE_LINES)
        lines.append('[before-assert]')
        lines += [self._run_line(r) for r in self.runs if r[0] == 'before-assert']
        lines.append('[assert]')
        lines += [self._run_line(r) for r in self.runs if r[0] == 'assert']
        if self.outcome:
            lines.append('exit-code == K0')
        else:
            lines.append('exit-code == %d' % (self.exit_code or 0))
        if not self.streams:
            pass
        elif self.actor == 'null':
            lines += ['stdout is-empty', 'stderr is-empty']
        else:
            d = self.act_den()
            out = OUT0 if d is None else sp.transformed(d, OUT0)
            lines += ['stdout equals ' + _here(out), 'stderr equals ' + _here(ERR0)]
        lines += [self._probe_lines(p) for p in self.probes]
        for i, t in enumerate(self.files):
            value = sp.ev(sp.text_source(t)[1], sp.Env(['', '', S2_K3, S3_K3]))
            if value.endswith('\n'):
                lines.append('contents f%d.txt : equals %s' % (i, _here(value)))
            else:
                lines.append('exists f%d.txt : type file' % i)
        lines.append('[cleanup]')
        lines += [self._run_line(r) for r in self.runs if r[0] == 'cleanup']
        return '\n'.join(lines) + '\n'

    def procs(self, env: sp.Env, cwd: str, setup_stdin_first: bool = False) -> List[sp.Proc]:
        """the processes that must be started, in order"""
        out = []
        defs = dict(self.defs)

        def of_runs(phase):
            for i, r in enumerate(self.runs):
                if r[0] == phase:
                    out.extend(sp.procs_of(sp.denote(r[2], defs), 'run%d' % i, env, cwd=cwd))

        for t in self.files:
            if sp.text_source(t)[2] is not None:
                out.append(sp.gen_proc(sp.text_source(t)[2], env, cwd))
        of_runs('setup')
        extra_stdin, extra_gens = [], []
        if self.setup_stdin is not None:
            extra_stdin = [sp.text_source(self.setup_stdin)[1]]
            if sp.text_source(self.setup_stdin)[2] is not None:
                extra_gens = [sp.text_source(self.setup_stdin)[2]]
        if self.actor == 'command':
            out.extend(sp.procs_of(self.act_den(), 'atc', env, extra_stdin, extra_gens, cwd, setup_stdin_first))
        elif self.actor == 'file':
            d = sp.denote(self.interp, defs)
            d.argv = d.argv + [[sp.HDS, sp.C('/src.py')]] + sp.arg_values(self.act)
            out.extend(sp.procs_of(d, 'atc', env, extra_stdin, extra_gens, cwd))
        elif self.actor == 'source':
            d = sp.denote(self.interp, defs)
            d.argv = d.argv + [None]  # a file (any path) whose contents is the source
            ps = sp.procs_of(sp.Den(d.shell, d.argv[:-1], d.stdin, d.trans, d.gens), 'atc', env, extra_stdin, extra_gens, cwd)
            ps[-1].args = ps[-1].args + [None]
            out.extend(ps)
        else:
            pass  # null actor: no process
        of_runs('before-assert')
        of_runs('assert')
        for kind, p in self.probes:
            out.extend(sp.procs_of(sp.denote(p, defs), 'probe', env, cwd=cwd))
        of_runs('cleanup')
        return out


def _args_equal(expected, got, source_text: Optional[str], call) -> bool:
    if isinstance(expected, str):
        return isinstance(got, str) and got == expected
    if isinstance(got, str) or len(got) != len(expected):
        return False
    for i in range(len(expected)):
        if expected[i] is None:
            # source interpreter: a path of a file holding the act-phase source
            if call.files.get(got[i]) != source_text:
                return False
        elif not (got[i] == expected[i]):
            return False
    return True


def _procs_match(expected: List[sp.Proc], calls, source_text=None) -> bool:
    if len(calls) != len(expected):
        return False
    for e, c in zip(expected, calls):
        if c.shell is not e.shell:
            return False
        if not _args_equal(e.args, c.args, source_text, c):
            return False
        if e.stdin is None:
            if c.stdin_text is not None or c.stdin_obj != L.Recorder.DEVNULL:
                return False
        elif c.stdin_text != e.stdin:
            return False
        if c.cwd != e.cwd or c.extra != {}:
            return False
    return True


def _behaviour(roles: List[str], atc_child: L.Child, run_children=None):
    run_children = run_children or {}

    def beh(call, _n=[0]):
        i = _n[0]
        _n[0] += 1
        role = roles[i] if i < len(roles) else 'unexpected'
        if role in run_children:
            return run_children[role]
        if role == 'gen':
            return L.Child(out=sp.GEN_OUT, err=sp.GEN_ERR)
        if role == 'gen-ign':
            return L.Child(out=sp.GEN_OUT, err=sp.GEN_ERR, code=3)  # -ignore-exit-code: the text is used all the same
        if role == 'atc':
            return atc_child
        if role == 'probe':
            return L.Child(out=PROBE_OUT, err=PROBE_ERR, code=PROBE_CODE)
        return run_children.get(role, L.Child())

    return beh


def _expected_cwd(run: L.CaseRun, case: K3Case) -> str:
    return run.act_dir + ('/sub' if case.cd else '')


def _k3_cases(tier: str) -> List[K3Case]:
    cs = []

    def add(*a, **k):
        cs.append(K3Case(*a, **k))

    sys_ = lambda args=(), **k: Pgm('sys', 'prog', list(args), **k)
    # ---- command-line actor: program forms
    add('cmd/sys', act=sys_(['sym', 'empty-sq', 'list', 'option', 'sym-in-dq']))
    add('cmd/sys-paths', act=sys_(['path', 'existing-file', 'existing-dir', 'sym1']), cd=True)
    add('cmd/sys-consts', act=sys_(['spaces', 'sq-in-dq', 'dq-in-sq', 'stdin-like', 'reserved-colon', 'reserved-paren',
                                    'reserved-and', 'equals-sign', 'glob', 'dollar', 'sym-hard-quoted', 'sym', 'rest']))
    add('cmd/file', act=Pgm('file', 'exe', ['sym', 'plain']), setup_stdin='string')
    add('cmd/python', act=Pgm('python', '', ['option', 'sym'], parens=True), setup_stdin='empty')
    add('cmd/shell', act=Pgm('shell', 'echo "a  b"   \'c\' @[S0]@ | cat -n',
                             head_value=[sp.C('echo "a  b"   \'c\' '), sp.S(0), sp.C(' | cat -n')]), setup_stdin='here-doc')
    add('cmd/continuation', act=sys_(['plain', 'sym', 'sym1'], continuation=True), setup_stdin='string-sq')
    # ---- stdin of every kind of text source (quick: each kind rides on one of the scenarios; thorough: one by one)
    if tier == 'thorough':
        for t in sp.STANDARD_TEXT_SOURCES:
            add('stdin/setup-' + t, act=sys_(['plain']), setup_stdin=t)
        add('stdin/pgm-string', act=sys_(['plain'], stdin='string'))
    add('stdin/pgm-program', act=sys_(['sym'], stdin='program'), setup_stdin='sym3')
    add('stdin/pgm+setup', act=sys_(['sym'], stdin='here-doc'), setup_stdin='file', cd=True)
    add('stdin/pgm-file+setup-program', act=sys_([], stdin='file'), setup_stdin='program')
    # ---- chains of program symbols
    base = Pgm('sys', 'base', ['plain', 'sym'], stdin='string')
    add('chain/1', act=Pgm('ref', 'P1', ['sym1']), defs=[('P1', base)], setup_stdin='sym')
    add('chain/2', act=Pgm('ref', 'P2', ['list'], stdin='file'),
        defs=[('P1', base), ('P2', Pgm('ref', 'P1', ['sym1'], stdin='here-doc'))], setup_stdin='string')
    add('chain/2-trans', act=Pgm('ref', 'P2', ['plain2']),
        defs=[('P1', Pgm('sys', 'base', ['sym'], trans='upper')), ('P2', Pgm('ref', 'P1', ['sym1'], trans='replace'))])
    add('chain/2-trans-rev', act=Pgm('ref', 'P2', ['plain2'], trans='upper'),
        defs=[('P1', Pgm('sys', 'base', ['sym'])), ('P2', Pgm('ref', 'P1', ['sym1'], trans='replace'))],
        setup_stdin='string')
    add('chain/shell', act=Pgm('ref', 'P1', ['sym1', 'spaces']),
        defs=[('P1', Pgm('shell', 'echo @[S0]@ x', head_value=[sp.C('echo '), sp.S(0), sp.C(' x')]))])
    add('chain/file', act=Pgm('ref', 'P1', ['sym1']), defs=[('P1', Pgm('file', 'exe', ['existing-file']))])
    # ---- the other actors
    add('file-actor/args', actor='file', act=['sym', 'spaces', 'list', 'empty-dq'], setup_stdin='string')
    add('file-actor/no-args', actor='file', act=[], cd=True)
    add('file-actor/shell-like', actor='file', act=['dollar', 'glob', 'sym1'], setup_stdin='program',
        interp=Pgm('file', 'exe', ['sym']))
    add('source-actor', actor='source', setup_stdin='here-doc')
    add('source-actor/no-stdin', actor='source', cd=True, interp=Pgm('python', '', ['option']))
    add('null-actor', actor='null', setup_stdin='string')
    # default actor, act phase without source: nothing is executed (the null actor is used)
    add('null-actor/empty-act-phase', actor='null', act='empty', setup_stdin='string')
    # ---- programs run as instructions, in every phase, by run / % / $
    rp = lambda name, args=('sym',), **k: Pgm('sys', name, list(args), **k)
    for ph in PHASES:
        add('run/' + ph, act=sys_(['plain']), setup_stdin='string',
            runs=[(ph, 'run', rp('r1', ['sym', 'spaces'], stdin='here-doc'), False),
                  (ph, '%', rp('r2', ['sym1', 'list']), False),
                  (ph, '$', Pgm('shell', 'r3 "x  y" @[S0]@', head_value=[sp.C('r3 "x  y" '), sp.S(0)]), False)],
            cd=(ph in ('assert', 'cleanup')))
    add('from-program', act=sys_(['plain']), cd=True,
        defs=[('Q', Pgm('sys', 'q', ['sym'], stdin='string')), ('QT', Pgm('ref', 'Q', ['sym1'], trans='upper'))],
        probes=[('exit-code', Pgm('ref', 'Q', ['spaces'])), ('stdout', Pgm('ref', 'QT', ['plain2'], trans='replace')),
                ('stderr', Pgm('sys', 'q2', ['sym', 'list'], stdin='here-doc'))])
    # programs used as text sources: {-stdout-from, -stderr-from} x {exit code relevant, -ignore-exit-code} x
    # {-stdin given directly, accumulated through a program symbol}: each generator must get its stdin
    add('text-source/matrix-as-files', act=sys_(['sym']), files=list(sp.PROGRAM_MATRIX))
    add('text-source/stderr-from-as-stdin', act=sys_(['plain'], stdin='string'), setup_stdin='pgm-stderr-symbol', cd=True)
    add('stdin/generator-with-stdin', act=sys_(['sym'], stdin='program-w-stdin'), setup_stdin='program')
    add('run/ref-all-phases', act=Pgm('ref', 'P1', ['plain']),
        defs=[('P1', Pgm('sys', 'base', ['sym'], stdin='string')), ('P2', Pgm('ref', 'P1', ['sym1'], stdin='program'))],
        runs=[(ph, 'run', Pgm('ref', 'P2', ['plain2']), False) for ph in PHASES])
    if tier == 'thorough':
        for t in sp.STANDARD_TEXT_SOURCES:
            if t in sp.NESTABLE_TEXT_SOURCES:
                add('stdin/pgm-' + t + '+setup-' + t, act=sys_(['sym'], stdin=t), setup_stdin=t)
            else:
                add('text-source/file-' + t, act=sys_(['plain']), files=[t], cd=True)
            add('file-actor/stdin-' + t, actor='file', act=['sym'], setup_stdin=t)
        for a in sp.A:
            if a != 'rest' and not _is_here_doc_atom(a):
                add('arg/' + a, act=Pgm('ref', 'P1', [a, 'sym1']), defs=[('P1', sys_([a]))])
        add('chain/3', act=Pgm('ref', 'P3', ['sym', 'rest'], stdin='string'),
            defs=[('P1', Pgm('shell', 'c @[S1]@', head_value=[sp.C('c '), sp.S(1)], stdin='here-doc')),
                  ('P2', Pgm('ref', 'P1', ['sym', 'sym-in-dq'], trans='upper')),
                  ('P3', Pgm('ref', 'P2', ['path', 'sym1'], stdin='program'))], setup_stdin='file')
    return cs


_K3 = {}


def _k3_case(name: str) -> K3Case:
    if not _K3:
        for c in _k3_cases('thorough') + _k4_cases('thorough') + _k3x_cases() + _k4x_cases():
            _K3[c.name] = c
    return _K3[name]


def _pre_k3(s0, s1) -> bool:
    return _short(s0, s1)


def _source_text() -> str:
    import os
    return os.linesep.join(SOURCE_LINES) + os.linesep


S2_K3 = 'the value of S2\n'
S3_K3 = 'S3 "value"'


def _run_whole(case: K3Case, s0, s1, atc_child: L.Child, run_children=None, text=None, setup_stdin_first=False):
    roles = [p.role for p in case.procs(sp.Env(['', '', '', '']), '')]
    rec = L.Recorder(_behaviour(roles, atc_child, run_children))
    predefined = {'S0': L.string_symbol(s0), 'S1': L.string_symbol(s1), 'S2': L.string_symbol(S2_K3),
                  'S3': L.string_symbol(S3_K3)}
    run = L.run_case(text if text is not None else case.text(), rec, predefined, HDS_FILES)
    env = sp.Env([s0, s1, S2_K3, S3_K3], act=run.act_dir if run.sds_root else '', hds=run.hds)
    expected = case.procs(env, _expected_cwd(run, case) if run.sds_root else '', setup_stdin_first)
    return run, expected


def k3_whole(s0: str, s1: str) -> bool:
    """
    pre: _pre_k3(s0, s1)
    post: _
    """
    case = _k3_case(ob.case()['scenario'])
    child = L.Child(out=OUT0, err=ERR0, code=0, read_file_arg=(-1 if case.actor == 'source' else None))
    bug = ob.case().get('oracle_bug')
    run, expected = _run_whole(case, s0, s1, child, setup_stdin_first=(bug == 'stdin-order'))
    if bug == 'cwd-act':
        for p in expected:
            p.cwd = run.act_dir
    ok = _procs_match(expected, run.calls, _source_text())
    ok = ok and run.status == 'PASS'
    if not ok and not ob.twin():
        _explain(run, expected)
    return ob.post(ok)


def _explain(run, expected):
    import os
    import sys
    if 'crosshair' in sys.modules and not os.environ.get('VSYM_C10_DEBUG'):
        return
    sys.stderr.write('status %s %s\n  expected %r\n  got      %r\n' % (run.status, run.failure_text()[:800], expected, run.calls))


# ----------------------------------------------------------------------------- K3: multi-part stdin, here-documents
# Selector-only kernels: every selector is made concrete first (the solver enumerates the selector space
# exhaustively), then the real code runs natively on concrete data (tracing suspended).

STUB_UNTRACED = ('CrossHair tracing is suspended (crosshair.tracers.NoTracing) once every selector has been made concrete: '
                 'the real code runs on concrete data natively')

# Regions of known findings (switched on by known_findings.json entries, see HARNESS_GUIDE)
REGION_IGN_OUTPUT = 'c10-ignored-exit-code-output-after-buffered-text'
REGION_ACT_HERE_DOC = 'c10-act-here-doc-loses-empty-and-comment-lines'
# Defects that are reported but (not yet) listed in known_findings.json nor repaired: while a region named here is not
# mentioned in known_findings.json, the inputs inside it are left out of the registered obligations (the pre-condition
# excludes them and the bound says so); as soon as the file mentions the region (as a finding: the driver excludes it
# and prints KNOWN-FINDING; in a `fixed` record: nothing is excluded) the full obligation is registered.
# Remove a name from this tuple when its defect is repaired in /repo.
PENDING_REGIONS = ()  # all resolved: here-document listed; ignored-exit-code repaired (bda2ebc); the two raw-output regions
#                        (`-stderr-from`, `exit-code` failure message: stderr that is not UTF-8) repaired by f5a8cf1

_KF_TEXT = []


def _pending(region: str) -> bool:
    if region not in PENDING_REGIONS:
        return False
    if not _KF_TEXT:
        import os
        p = os.path.join(os.path.dirname(os.path.dirname(os.path.abspath(__file__))), 'known_findings.json')
        try:
            with open(p) as f:
                _KF_TEXT.append(f.read())
        except OSError:
            _KF_TEXT.append('')
    return region not in _KF_TEXT[0]


def _left_out(region: str) -> bool:
    """the inputs of `region` are outside the obligation: excluded by the driver (listed finding) or pending"""
    return ob.excluded(region) or _pending(region)


PARTS_LAYOUTS = ('string+program', 'string+program+string', 'chain', 'chain+setup')


def _parts_case(layout: str, variant: str) -> K3Case:
    """stdin of the action to check made of several parts, one of them (never the first) the output of a program"""
    name = 'parts/%s/%s' % (layout, variant)
    if layout == 'string+program':
        return K3Case(name, act=Pgm('sys', 'prog', ['plain'], stdin='string'), setup_stdin=variant)
    if layout == 'string+program+string':
        return K3Case(name, act=Pgm('ref', 'P1', ['plain2'], stdin=variant),
                      defs=[('P1', Pgm('sys', 'base', ['plain'], stdin='string'))], setup_stdin='string-sq')
    defs = [('P1', Pgm('sys', 'base', ['plain'], stdin='string')), ('P2', Pgm('ref', 'P1', ['sym'], stdin=variant))]
    act = Pgm('ref', 'P2', ['plain2'], stdin='here-doc')
    if layout == 'chain':
        # everything accumulated through program symbols; the same program also run by `run`
        return K3Case(name, act=act, defs=defs, runs=[('before-assert', 'run', Pgm('ref', 'P2', ['plain']), False)])
    return K3Case(name, act=act, defs=defs, setup_stdin='sym3', cd=True)


def _pre_k3p(v) -> bool:
    if _left_out(REGION_IGN_OUTPUT) and v >= 2:
        return False
    return 0 <= v < len(sp.GENERATOR_VARIANTS)


def k3_stdin_parts(v: int) -> bool:
    """
    pre: _pre_k3p(v)
    post: _
    """
    variant = ob.pick(sp.GENERATOR_VARIANTS, v)
    with L.no_tracing():
        case = _k3_case('parts/%s/%s' % (ob.case()['layout'], variant))
        run, expected = _run_whole(case, 'v0', 'v1', L.Child(out=OUT0, err=ERR0, code=0))
        if ob.case().get('oracle_bug') == 'program-output-first':
            for p in expected:  # seeded oracle error: the output of the program expected before the other parts
                if p.role == 'atc':
                    gen_text = sp.ev(sp.T[variant][1], sp.Env(['', '', '', '']))
                    p.stdin = gen_text + p.stdin.replace(gen_text, '', 1)
        ok = _procs_match(expected, run.calls, _source_text()) and run.status == 'PASS'
        if not ok and not ob.twin():
            _explain(run, expected)
    return ob.post(ok)


# ---- here-documents: the body must arrive as written, wherever the here-document stands
HERE_DOC_BODIES = (
    ('a', 'b'),
    ('a', '', 'b'),  # an empty line
    ('# hash', 'b'),  # a line that starts with #
    ('a', '   # indented hash', 'b'),
    ('a', '   ', 'b'),  # a blank line
    ('a # no comment', 'b#c'),
    ('', ''),
    ('  indented', 'x  '),
    (),
    ('it\'s "q" @[S2]@ $x \\',),
    ('a', 'b', '', '#'),
    ('-stdin x', '-transformed-by strip', '% prog'),
)
HERE_DOC_PLACES = ('act -stdin', 'act argument', '[setup] stdin =', 'run -stdin in [before-assert]', 'run argument in [setup]')


def _body_in_region(lines) -> bool:
    """the body has an empty / blank line, or a line whose first non-blank character is #"""
    for l in lines:
        if l.strip() == '' or l.strip().startswith('#'):
            return True
    return False


for _b, _lines in enumerate(HERE_DOC_BODIES):
    _text, _value = sp.here_doc(_lines)
    _pieces = _value.split('@[S2]@')
    _value = [sp.C(_pieces[0])]
    for _piece in _pieces[1:]:
        _value += [sp.S(2), sp.C(_piece)]
    sp.T['hd%d' % _b] = (_text, _value, None)
    sp.A['hd%d' % _b] = (_text, [_value])


def _here_doc_case(place: int, b: int) -> K3Case:
    name = 'here-doc/%d/%d' % (place, b)
    hd = 'hd%d' % b
    plain = Pgm('sys', 'prog', ['plain'])
    if place == 0:
        return K3Case(name, act=Pgm('sys', 'prog', ['plain'], stdin=hd), setup_stdin='string')
    if place == 1:
        return K3Case(name, act=Pgm('sys', 'prog', ['plain', hd]))
    if place == 2:
        return K3Case(name, act=plain, setup_stdin=hd)
    if place == 3:
        return K3Case(name, act=plain, runs=[('before-assert', 'run', Pgm('sys', 'r1', ['plain'], stdin=hd), False)])
    return K3Case(name, act=plain, runs=[('setup', 'run', Pgm('sys', 'r1', ['plain2', hd]), False)])


def _pre_k3h(place, b) -> bool:
    if not (0 <= place < len(HERE_DOC_PLACES) and 0 <= b < len(HERE_DOC_BODIES)):
        return False
    if _left_out(REGION_ACT_HERE_DOC) and place <= 1 and _body_in_region(HERE_DOC_BODIES[b]):
        return False
    return True


def k3_act_here_doc(place: int, b: int) -> bool:
    """
    pre: _pre_k3h(place, b)
    post: _
    """
    place_, b_ = ob.concrete_int(place, 0, len(HERE_DOC_PLACES) - 1), ob.concrete_int(b, 0, len(HERE_DOC_BODIES) - 1)
    with L.no_tracing():
        case = _k3_case('here-doc/%d/%d' % (place_, b_))
        run, expected = _run_whole(case, 'v0', 'v1', L.Child(out=OUT0, err=ERR0, code=0))
        if ob.case().get('oracle_bug') == 'blank-lines-dropped':
            for p in expected:  # seeded oracle error: blank lines of the body expected to be dropped everywhere
                if p.stdin is not None:
                    p.stdin = ''.join(l + '\n' for l in p.stdin.split('\n')[:-1] if l.strip() != '')
        ok = _procs_match(expected, run.calls, _source_text()) and run.status == 'PASS'
        if not ok and not ob.twin():
            _explain(run, expected)
    return ob.post(ok)


# ---- quoted option-like and reserved words: a quoted token is a plain word, wherever an argument list or a text is written
QUOTED_POSITIONS = ('the only argument', 'first (before other arguments)', 'between other arguments', 'last')
QUOTED_LAYOUTS = ('command-line-actor', 'file-actor', 'source-actor')
FILE_NAME_ATOM = ('f.txt', [[sp.C('f.txt')]])  # an unquoted word that happens to be the name of a file in the home directory

REAL_K3_QUOTED = (
    'exactly_lib.impls.types.program.parse.parse_arguments._ElementParser',
    'exactly_lib.impls.types.program.parse.parse_executable_file_path._Parser',
    'exactly_lib.impls.types.string_source.parse._StringSourceParserWoParens',
    'exactly_lib.impls.types.string_.parse_rich_string.SymbolNameOrStringRichStringParser',
    'exactly_lib.util.parse.token_matchers.is_option',
    'exactly_lib.util.parse.token_matchers._Equals',
    'exactly_lib.section_document.element_parsers.token_stream_parser.TokenParser.consume_optional_option',
)


def _quoted_args(atom, pos: int) -> list:
    return ([atom], [atom, FILE_NAME_ATOM, 'plain2'], ['plain', atom, FILE_NAME_ATOM], ['plain', 'plain2', atom])[pos]


QUOTED_HOW = ('in hard quotes', 'in soft quotes', 'as the value of the string symbol S0, referenced (not quoted)',
              'as an element of the list symbol L, referenced (not quoted); as a text: as for S0')


def _quoted_case(layout: str, w: int, q: int, pos: int, oracle_bug=None) -> K3Case:
    """One test case in which the word - written in way `q` - stands at position `pos` of EVERY argument list and is the
    text of every string text source.  The reference denotation: the word itself, as one argument / as the text.
    (q >= 2: the predefined symbol S0 has the word as its value, see _quoted_s0.)"""
    word = sp.QUOTED_WORDS[w]
    if q < 2:
        atom = sp.quoted_atom(word, sp.QUOTES[q])
        text = sp.quoted_text_source(word, sp.QUOTES[q])
    else:
        atom = sp.A['sym'] if q == 2 else sp.A['list']
        text = ('@[S0]@', [sp.S(0)], None)
    program_name = (atom[0], atom[1][0]) if q != 3 else ('r1', [sp.C('r1')])
    if oracle_bug == 'quoted-word-is-syntax':
        atom = (atom[0], [])  # seeded oracle error: the quoted word expected to be consumed by the syntax (no argument)
    args = _quoted_args(atom, pos)
    name = 'quoted/%s/%d/%d/%d' % (layout, w, q, pos)
    if layout == 'command-line-actor':
        # every program form ($ takes no argument list), definitions of program symbols and references to them,
        # run / % in every phase, -from PROGRAM of the assertions, a program as text source
        return K3Case(
            name,
            defs=[('P1', Pgm('file', 'exe', args, stdin=text)), ('P2', Pgm('ref', 'P1', args))],
            act=Pgm('ref', 'P2', args, stdin=text),
            setup_stdin=sp.generator_with_args('stdout', args),
            runs=[('setup', 'run', Pgm('python', '', args, stdin=text), False),
                  # here the word is also the name of the program
                  ('before-assert', '%', Pgm('sys', program_name[0], args, head_value=program_name[1]), False),
                  ('assert', 'run', Pgm('ref', 'P1', args), False),
                  ('cleanup', 'run', Pgm('sys', 'r3', args, stdin=sp.generator_with_args('stderr', args)), True)],
            probes=[('exit-code', Pgm('sys', 'q', args)), ('stdout', Pgm('ref', 'P2', args)),
                    ('stderr', Pgm('sys', 'q2', args, stdin=text))])
    if layout == 'file-actor':
        return K3Case(name, actor='file', interp=Pgm('file', 'exe', args), act=args, setup_stdin=text)
    return K3Case(name, actor='source', interp=Pgm('python', '', args), setup_stdin=text,
                  runs=[('before-assert', 'run', Pgm('sys', 'r1', args, stdin=sp.generator_with_args('stdout', args)), False)])


def _quoted_s0(w: int, q: int) -> str:
    return sp.QUOTED_WORDS[w] if q >= 2 else 'v0'


def _pre_k3q(w, q, pos) -> bool:
    return 0 <= w < len(sp.QUOTED_WORDS) and 0 <= q < len(QUOTED_HOW) and 0 <= pos < len(QUOTED_POSITIONS)


def k3_quoted_words(w: int, q: int, pos: int) -> bool:
    """
    pre: _pre_k3q(w, q, pos)
    post: _
    """
    w_ = ob.concrete_int(w, 0, len(sp.QUOTED_WORDS) - 1)
    q_ = ob.concrete_int(q, 0, len(QUOTED_HOW) - 1)
    pos_ = ob.concrete_int(pos, 0, len(QUOTED_POSITIONS) - 1)
    with L.no_tracing():
        case = _quoted_case(ob.case()['layout'], w_, q_, pos_, ob.case().get('oracle_bug'))
        child = L.Child(out=OUT0, err=ERR0, code=0, read_file_arg=(-1 if case.actor == 'source' else None))
        try:
            run, expected = _run_whole(case, _quoted_s0(w_, q_), 'v1', child)
        except Exception as e:  # the text is not accepted by the parser
            if not ob.twin():
                _explain_text('rejected by the parser: %r\n%s' % (e, case.text()))
            return ob.post(False)
        ok = _procs_match(expected, run.calls, _source_text()) and run.status == 'PASS'
        if not ok and not ob.twin():
            _explain(run, expected)
    return ob.post(ok)


def _explain_text(text: str):
    import os
    import sys
    if 'crosshair' in sys.modules and not os.environ.get('VSYM_C10_DEBUG'):
        return
    sys.stderr.write(text + '\n')


def _k3x_cases() -> List[K3Case]:
    cs = [_parts_case(l, v) for l in PARTS_LAYOUTS for v in sp.GENERATOR_VARIANTS]
    cs += [_here_doc_case(p, b) for p in range(len(HERE_DOC_PLACES)) for b in range(len(HERE_DOC_BODIES))]
    return cs


# =============================================================================================== K4

REAL_K4 = (
    'exactly_lib.impls.instructions.multi_phase.run._InstructionPartsParser._parse_result_translator',
    'exactly_lib.impls.instructions.multi_phase.utils.instruction_from_parts_for_executing_program.ResultTranslator',
    'exactly_lib.impls.instructions.multi_phase.utils.instruction_from_parts_for_executing_program.result_to_sh',
    'exactly_lib.impls.instructions.multi_phase.utils.instruction_from_parts_for_executing_program.result_to_pfh',
    'exactly_lib.impls.instructions.multi_phase.utils.instruction_part_utils.MainStepResultTranslatorForUnconditionalSuccess',
)


def _pre_k4a(code, ignore, is_assert) -> bool:
    c = ob.case()
    # the real translator renders the exit code into its message eagerly, which makes the solver enumerate
    # the integer: bounded (K1 shows that the child's code reaches Python unchanged for all of Z)
    return c['lo'] <= code <= c['hi']


def k4_verdict(code: int, ignore: bool, is_assert: bool) -> bool:
    """
    pre: _pre_k4a(code, ignore, is_assert)
    post: _
    """
    import pathlib
    from exactly_lib.impls.instructions.multi_phase import run as run_instruction
    from exactly_lib.impls.instructions.multi_phase.utils.instruction_from_parts_for_executing_program import \
        ExecutionResultAndStderr
    from exactly_lib.section_document.parse_source import ParseSource
    from exactly_lib.test_case.result import pfh
    from exactly_lib.util.description_tree import renderers
    text = ('-ignore-exit-code ' if ob.concrete_bool(ignore) else '') + '% prog arg'
    source = ParseSource(text)
    translator = run_instruction.parts_parser('run')._parse_result_translator(source)
    if source.remaining_source != '% prog arg':
        return ob.post(False)
    result = ExecutionResultAndStderr(code, (None if code == 0 else 'stderr text'), pathlib.Path('/vsym/storage'),
                                      renderers.header_only('program'))
    bug = ob.case().get('oracle_bug')
    must_succeed = ignore or code == 0
    if bug == 'positive-only':
        must_succeed = ignore or code <= 0  # seeded oracle error
    if is_assert:
        r = translator.translate_for_assertion(result)
        ok = (r.status is pfh.PassOrFailOrHardErrorEnum.PASS) if must_succeed else (r.status is pfh.PassOrFailOrHardErrorEnum.FAIL)
    else:
        r = translator.translate_for_non_assertion(result)
        ok = r.is_success if must_succeed else r.is_hard_error
    return ob.post(ok)


def _k4_cases(tier: str) -> List[K3Case]:
    cs = []
    sys_ = lambda args=(), **k: Pgm('sys', 'prog', list(args), **k)
    # ---- outcome of the action to check, per actor
    cs.append(K3Case('outcome/command', act=sys_(['sym']), outcome=True))
    cs.append(K3Case('outcome/command-transformed', act=Pgm('ref', 'P1', [], trans='replace'),
                     defs=[('P1', sys_(['sym'], trans='upper'))], outcome=True))
    # accumulated transformations of which one is `identity` (round 7: the any / all slip in the is-identity attribute of a
    # sequence made the actors skip ALL transformations - C10-r7m1 = C05-r4m1)
    cs.append(K3Case('outcome/command-transformed-identity-first', act=Pgm('ref', 'P1', [], trans='upper'),
                     defs=[('P1', sys_(['sym'], trans='identity'))], outcome=True))
    cs.append(K3Case('outcome/command-transformed-identity-last', act=Pgm('ref', 'P1', [], trans='identity'),
                     defs=[('P1', sys_(['sym'], trans='replace'))], outcome=True))
    cs.append(K3Case('outcome/file', actor='file', act=['sym'], outcome=True))
    cs.append(K3Case('outcome/source', actor='source', outcome=True))
    cs.append(K3Case('outcome/null', actor='null', outcome=True))
    # ---- a program run as an instruction: one per phase and instruction form
    for ph in PHASES:
        for form in ('run', '%', '$'):
            p = Pgm('shell', 'r1 x', head_value=[sp.C('r1 x')]) if form == '$' else Pgm('sys', 'r1', ['sym'])
            cs.append(K3Case('instr/%s/%s' % (ph, form), act=sys_(['plain']), runs=[(ph, form, p, False)]))
        cs.append(K3Case('instr/%s/run-ref' % ph, act=sys_(['plain']), defs=[('P1', Pgm('sys', 'r1', ['sym']))],
                         runs=[(ph, 'run', Pgm('ref', 'P1', ['sym1']), False)]))
    return cs


def _codes(tier_case) -> tuple:
    if tier_case.get('all_codes'):
        lo, hi = tier_case['all_codes']
        return tuple(range(lo, hi + 1))
    return CODES_THOROUGH if tier_case.get('tier') == 'thorough' else CODES_QUICK


def _outs(tier_case) -> tuple:
    return OUTS if tier_case.get('tier') == 'thorough' else OUTS[:2]


def _pre_k4b(io, ie, ic, k0) -> bool:
    c = ob.case()
    if c.get('all_codes') and not (io == 0 and ie == 0):
        return False
    if _k3_case(c['scenario']).actor == 'null' and not (io == 0 and ie == 0 and ic == 0):
        return False
    return 0 <= io < len(_outs(c)) and 0 <= ie < len(ERRS) and 0 <= ic < len(_codes(c))


def k4_outcome(io: int, ie: int, ic: int, k0: int) -> bool:
    """
    pre: _pre_k4b(io, ie, ic, k0)
    post: _
    """
    from vsym import xly
    case = _k3_case(ob.case()['scenario'])
    out, err, code = ob.pick(_outs(ob.case()), io), ob.pick(ERRS, ie), ob.pick(_codes(ob.case()), ic)
    xly.install_int_placeholders([k0])
    try:
        child = L.Child(out=out, err=err, code=code, read_file_arg=(-1 if case.actor == 'source' else None))
        run, expected = _run_whole(case, 'v0', 'v1', child)
    finally:
        xly.uninstall_int_placeholders()
    if case.actor == 'null':
        out, err, code = '', '', 0
    d = case.act_den()
    seen_out = out if d is None else sp.transformed(d, out)
    expected_out = OUT0 if d is None else sp.transformed(d, OUT0)
    if case.actor == 'null':
        expected_out, expected_err = '', ''
    else:
        expected_err = ERR0
    bug = ob.case().get('oracle_bug')
    # the assertions are evaluated in order; the first one that does not hold FAILs the case
    if (code != k0) if bug != 'exit-code-le' else (code > k0):
        want = ('FAIL', 'exit-code == K0')
    elif seen_out != expected_out:
        want = ('FAIL', 'stdout ')
    elif err != expected_err:
        want = ('FAIL', 'stderr ')
    else:
        want = ('PASS', '')
    ok = _procs_match(expected, run.calls, _source_text())
    ok = ok and run.status == want[0] and run.failing_line().startswith(want[1])
    ok = ok and (want[0] == 'PASS' or run.failing_phase() == 'assert')
    outcome = run.result.action_to_check_outcome if run.exception is None else None
    ok = ok and outcome is not None and outcome.exit_code == code
    if not ok and not ob.twin():
        _explain(run, expected)
    return ob.post(ok)


def _pre_k4c(ic, ignore) -> bool:
    c = ob.case()
    form = _k3_case(c['scenario']).runs[0][1]
    if ignore and form != 'run':
        return False  # only `run` has -ignore-exit-code
    return 0 <= ic < len(_codes(c))


def k4_instruction(ic: int, ignore: bool) -> bool:
    """
    pre: _pre_k4c(ic, ignore)
    post: _
    """
    case = _k3_case(ob.case()['scenario'])
    code = ob.pick(_codes(ob.case()), ic)
    phase, form, p, _ = case.runs[0]
    text = None
    if ob.concrete_bool(ignore):
        variant = K3Case(case.name, act=case.act, defs=case.defs, runs=[(phase, form, p, True)])
        text = variant.text()
    run, expected = _run_whole(case, 'v0', 'v1', L.Child(out=OUT0, err=ERR0, code=0),
                               run_children={'run0': L.Child(out='o', err='e', code=code)}, text=text)
    bug = ob.case().get('oracle_bug')
    failed = code != 0 and not ignore
    if failed:
        status = 'FAIL' if (phase == 'assert' and bug != 'hard-error-everywhere') else 'HARD_ERROR'
        # nothing after the failing instruction runs, except [cleanup]
        if phase == 'setup':
            expected = [e for e in expected if e.role != 'atc']
        ok = run.status == status and run.failing_phase() == phase
    else:
        ok = run.status == 'PASS'
    ok = ok and _procs_match(expected, run.calls, _source_text())
    if not ok and not ob.twin():
        _explain(run, expected)
    return ob.post(ok)


# ----------------------------------------------------------------------------- K4: output that is not text
# A child writes BYTES.  What the bytes are must not change the verdict: a non-zero exit code is HARD_ERROR / FAIL (the
# stderr of the program is only shown in the message), a zero or ignored one is success - never INTERNAL_ERROR.
# Selector kernels: selectors made concrete, then the real code runs natively.

REAL_K4_RAW = (
    'exactly_lib.impls.program_execution.processors.read_stderr_on_error.'
    'ProcessorThatStoresResultInFilesInDirAndReadsStderrOnNonZeroExitCode._stderr_for',
    'exactly_lib.impls.program_execution.processors.read_stderr_on_error.ProcessorThatReadsStderrOnNonZeroExitCode._stderr_for',
    'exactly_lib.impls.types.string_source.command_output.exit_relevant.StdoutWriter.write',
    'exactly_lib.impls.types.string_source.command_output.exit_relevant.StderrFileCreator.create',
    'exactly_lib.impls.instructions.assert_.process_output.impl.exit_code.instruction._FailureMessageConfig.tail',
    'exactly_lib.impls.instructions.assert_.process_output.impl.exit_code.getter_from_program._ExitCodeAndStderrFileGetter.get',
    'exactly_lib.common.err_msg.std_err_contents.STD_ERR_TEXT_READER',
)
STUB_RAW_CHILD = ('the stand-in child writes the chosen BYTES to the file descriptors it is given (os.write), as a real '
                  'child does')

# Regions of defects found by these kernels on the unchanged tree (reported; see PENDING_REGIONS)
REGION_STDERR_FROM_RAW = 'c10-stderr-from-failing-program-stderr-not-utf8'
REGION_EXIT_CODE_MSG_RAW = 'c10-exit-code-failure-message-stderr-not-utf8'

RAW_WHERE = ('stderr and stdout', 'stderr only')
RAW_FORMS = ('run', '%', '$', 'run-ref')


def _raw(ib: int) -> bytes:
    return sp.RAW_OUTPUTS[ib][1]


def _instruction_outcome_ok(case: K3Case, code: int, ignore: bool, child: L.Child, bug=None) -> bool:
    """the program of the (single) run / % / $ instruction of `case` behaves as `child`: the reference verdict"""
    phase, form, p, _ = case.runs[0]
    text = None
    if ignore:
        text = K3Case(case.name, act=case.act, defs=case.defs, runs=[(phase, form, p, True)]).text()
    run, expected = _run_whole(case, 'v0', 'v1', L.Child(out=OUT0, err=ERR0, code=0), run_children={'run0': child}, text=text)
    if code != 0 and not ignore:
        status = 'FAIL' if (phase == 'assert' and bug != 'hard-error-everywhere') else 'HARD_ERROR'
        if phase == 'setup':
            expected = [e for e in expected if e.role != 'atc']  # nothing after the failing instruction runs, except [cleanup]
        ok = run.status == status and run.failing_phase() == phase
    else:
        ok = run.status == 'PASS'
    ok = ok and _procs_match(expected, run.calls, _source_text())
    if not ok and not ob.twin():
        _explain(run, expected)
    return ok


def _pre_k4r(f, ib, wh, ic, ignore) -> bool:
    if not (0 <= f < len(RAW_FORMS) and 0 <= ib < len(sp.RAW_OUTPUTS) and 0 <= wh < len(RAW_WHERE)
            and 0 <= ic < len(_codes(ob.case()))):
        return False
    forms = ob.case().get('forms', RAW_FORMS)
    for i in range(len(RAW_FORMS)):
        if f == i and RAW_FORMS[i] not in forms:
            return False
    if ignore and not (f == 0 or f == 3):
        return False  # only `run` has -ignore-exit-code
    return True


def k4_raw_instruction(f: int, ib: int, wh: int, ic: int, ignore: bool) -> bool:
    """
    pre: _pre_k4r(f, ib, wh, ic, ignore)
    post: _
    """
    form = ob.pick(RAW_FORMS, f)
    data = _raw(ob.concrete_int(ib, 0, len(sp.RAW_OUTPUTS) - 1))
    both = ob.concrete_int(wh, 0, len(RAW_WHERE) - 1) == 0
    code = ob.pick(_codes(ob.case()), ic)
    ignore_ = ob.concrete_bool(ignore)
    with L.no_tracing():
        case = _k3_case('instr/%s/%s' % (ob.case()['phase'], form))
        child = L.Child(out=(data if both else 'o'), err=data, code=code)
        ok = _instruction_outcome_ok(case, code, ignore_, child, ob.case().get('oracle_bug'))
    return ob.post(ok)


def _pre_k4y(b, alone) -> bool:
    return 0 <= b <= 255


def k4_raw_byte(b: int, alone: bool) -> bool:
    """
    pre: _pre_k4y(b, alone)
    post: _
    """
    b_ = ob.concrete_int(b, 0, 255)
    alone_ = ob.concrete_bool(alone)
    with L.no_tracing():
        data = bytes([b_]) if alone_ else b'some text ' + bytes([b_]) + b' more\n'
        case = _k3_case('instr/%s/%s' % (ob.case()['phase'], ob.case()['form']))
        ok = _instruction_outcome_ok(case, 3, False, L.Child(out='o', err=data, code=3), ob.case().get('oracle_bug'))
    return ob.post(ok)


def _pre_k4q(code, iq, both, ignore) -> bool:
    if ignore and not ob.case()['form'].startswith('run'):
        return False  # only `run` has -ignore-exit-code
    if ob.case().get('both') is not None and both != ob.case()['both']:
        return False
    return 0 <= code <= 255 and 0 <= iq < len(sp.QUIET_OUTPUTS)


def k4_quiet_exit(code: int, iq: int, both: bool, ignore: bool) -> bool:
    """
    pre: _pre_k4q(code, iq, both, ignore)
    post: _
    """
    # a program that says NOTHING (or white space only) on stderr [and stdout]: every exit code 0..255 - the exit code
    # alone decides the outcome
    code_ = ob.concrete_int(code, 0, 255)
    data = ob.pick(sp.QUIET_OUTPUTS, iq)
    both_ = ob.concrete_bool(both)
    ignore_ = ob.concrete_bool(ignore)
    with L.no_tracing():
        case = _k3_case('instr/%s/%s' % (ob.case()['phase'], ob.case()['form']))
        child = L.Child(out=(data if both_ else 'o'), err=data, code=code_)
        ok = _instruction_outcome_ok(case, code_, ignore_, child, ob.case().get('oracle_bug'))
    return ob.post(ok)


def _pre_k4g(v, ib, ic) -> bool:
    c = ob.case()
    if not (0 <= v < len(sp.GENERATOR_VARIANTS) and 0 <= ib < len(sp.RAW_OUTPUTS) and 0 <= ic < len(_codes(c))):
        return False
    if _left_out(REGION_IGN_OUTPUT) and v >= 2:
        return False
    if _left_out(REGION_STDERR_FROM_RAW):
        # -stderr-from PROGRAM without -ignore-exit-code, non-zero exit code, stderr of the program not valid UTF-8
        codes = _codes(c)
        for i in range(len(sp.RAW_OUTPUTS)):
            for j in range(len(codes)):
                if ib == i and ic == j and v == 1 and codes[j] != 0 and not sp.is_utf8(_raw(i)):
                    return False
    return True


def k4_raw_generator(v: int, ib: int, ic: int) -> bool:
    """
    pre: _pre_k4g(v, ib, ic)
    post: _
    """
    variant = ob.pick(sp.GENERATOR_VARIANTS, v)
    data = _raw(ob.concrete_int(ib, 0, len(sp.RAW_OUTPUTS) - 1))
    code = ob.pick(_codes(ob.case()), ic)
    with L.no_tracing():
        case = _k3_case('parts/%s/%s' % (ob.case()['layout'], variant))
        ignored = variant.endswith('-ign')
        from_stdout = 'stdout' in sp.T[variant][0].split()[0]
        fails = code != 0 and not ignored
        if ob.case().get('oracle_bug') == 'exit-code-of-text-source-ignored':
            fails = False  # seeded oracle error: the output expected to be used whatever the exit code
        if fails:
            gen = L.Child(out=data, err=data, code=code)  # nothing of it is used as text
        elif from_stdout:
            gen = L.Child(out=sp.GEN_OUT, err=data, code=code)  # the channel that is not captured carries the bytes
        else:
            gen = L.Child(out=data, err=sp.GEN_ERR, code=code)
        run, expected = _run_whole(case, 'v0', 'v1', L.Child(out=OUT0, err=ERR0, code=0),
                                   run_children={'gen': gen, 'gen-ign': gen})
        if fails:
            # "The result is HARD_ERROR if the exit code is non-zero, unless -ignore-exit-code is given": the program
            # whose stdin the text is part of cannot be started
            first = [i for i, e in enumerate(expected) if e.role in ('gen', 'gen-ign')][0]
            expected = expected[:first + 1]
            ok = run.status == 'HARD_ERROR'
        else:
            ok = run.status == 'PASS'
        ok = ok and _procs_match(expected, run.calls, _source_text())
        if not ok and not ob.twin():
            _explain(run, expected)
    return ob.post(ok)


RAW_EXIT_CODES = (0, 1, 7, 255)
RAW_EXIT_CODE_CASE = 'exit-code/raw-output'


def _k4x_cases() -> List[K3Case]:
    # the exit code of the action to check (== 1) and of a program (-from, == PROBE_CODE); no assertion on the streams
    return [K3Case(RAW_EXIT_CODE_CASE, act=Pgm('sys', 'prog', ['plain']), streams=False, exit_code=1,
                   probes=[('exit-code', Pgm('sys', 'q', ['sym'], stdin='string'))])]


def _pre_k4e(ib, ic, jc) -> bool:
    if not (0 <= ib < len(sp.RAW_OUTPUTS) and 0 <= ic < len(RAW_EXIT_CODES) and 0 <= jc < len(RAW_EXIT_CODES)):
        return False
    if _left_out(REGION_EXIT_CODE_MSG_RAW):
        # an `exit-code` assertion that does not hold, on a process whose stderr is not valid UTF-8
        holds = [(i, j) for i in range(len(RAW_EXIT_CODES)) for j in range(len(RAW_EXIT_CODES))
                 if RAW_EXIT_CODES[i] == 1 and RAW_EXIT_CODES[j] == PROBE_CODE]
        for i in range(len(sp.RAW_OUTPUTS)):
            if ib == i and not sp.is_utf8(_raw(i)):
                for (a, b) in holds:
                    if ic == a and jc == b:
                        return True
                return False
    return True


def k4_raw_exit_code(ib: int, ic: int, jc: int) -> bool:
    """
    pre: _pre_k4e(ib, ic, jc)
    post: _
    """
    data = _raw(ob.concrete_int(ib, 0, len(sp.RAW_OUTPUTS) - 1))
    atc_code, pgm_code = ob.pick(RAW_EXIT_CODES, ic), ob.pick(RAW_EXIT_CODES, jc)
    with L.no_tracing():
        case = _k3_case(RAW_EXIT_CODE_CASE)
        run, expected = _run_whole(case, 'v0', 'v1', L.Child(out=data, err=data, code=atc_code),
                                   run_children={'probe': L.Child(out=data, err=data, code=pgm_code)})
        bug = ob.case().get('oracle_bug')
        # the assertions are evaluated in order; the first one that does not hold FAILs the case
        if atc_code != 1:
            want = ('FAIL', 'exit-code == 1')
            expected = [e for e in expected if e.role != 'probe']
        elif pgm_code != PROBE_CODE and bug != 'exit-code-from-not-looked-at':
            want = ('FAIL', 'exit-code -from ')
        else:
            want = ('PASS', '')
        ok = _procs_match(expected, run.calls, _source_text())
        ok = ok and run.status == want[0] and run.failing_line().startswith(want[1])
        ok = ok and (want[0] == 'PASS' or run.failing_phase() == 'assert')
        if not ok and not ob.twin():
            _explain(run, expected)
    return ob.post(ok)


# ----------------------------------------------------------------------------- K2: which tokens select an option
# The matchers by which the REAL parsers of PROGRAM-ARGUMENT, of the executable of a PROGRAM and of TEXT-SOURCE choose
# their option variants, on a token whose string is symbolic.

REAL_K2_TOKEN = (
    'exactly_lib.util.parse.token_matchers.is_option',
    'exactly_lib.util.parse.token_matchers._Equals.matches',
    'exactly_lib.util.parse.token.Token',
    'exactly_lib.impls.types.program.parse.parse_arguments._ElementParser',
    'exactly_lib.impls.types.program.parse.parse_executable_file_path._Parser',
    'exactly_lib.impls.types.string_source.parse._StringSourceParserWoParens',
)
# the options of PROGRAM-ARGUMENT, of the executable of a PROGRAM, of TEXT-SOURCE (reference manual)
OPTION_VARIANTS = ('-existing-file', '-existing-dir', '-existing-path', '-python', '-contents-of', '-stdout-from',
                   '-stderr-from')
_OPTION_MATCHERS = []


def _option_matchers() -> list:
    if not _OPTION_MATCHERS:
        from exactly_lib.impls.types.program.parse import parse_arguments, parse_executable_file_path
        from exactly_lib.impls.types.string_source import defs as ss_defs, parse as ss_parse
        ms = [c.matcher for c in parse_arguments._ElementParser()._element_choices]
        ms += [c.matcher for c in parse_executable_file_path._Parser()._choices]
        ss = ss_parse._StringSourceParserWoParens(ss_defs.src_rel_opt_arg_conf_for_phase(False).options)
        ms += [c.matcher for c in ss._variants_parser._choices]
        if len(ms) != len(OPTION_VARIANTS):
            raise ValueError('harness error: the parsers have other option variants than the reference lists')
        _OPTION_MATCHERS.extend(ms)
    return _OPTION_MATCHERS


def _pre_k2t(s, quote) -> bool:
    return len(s) <= ob.case()['maxlen'] and 0 <= quote <= 2


def k2_option_token(s: str, quote: int) -> bool:
    """
    pre: _pre_k2t(s, quote)
    post: _
    """
    from exactly_lib.util.parse.token import Token, TokenType
    qk = ob.concrete_int(quote, 0, 2)  # 0: not quoted, 1: hard quotes, 2: soft quotes
    if qk == 0:
        token = Token(TokenType.PLAIN, s, s)
    else:
        ch = "'" if qk == 1 else '"'
        token = Token(TokenType.QUOTED, s, ch + s + ch)
    selected = -1
    n = 0
    matchers = _option_matchers()
    for i in range(len(matchers)):
        if matchers[i].matches(token):
            selected = i
            n += 1
    # reference: a token is an option iff it is NOT quoted and is the option as written in the manual
    want = -1
    if qk == 0 or ob.case().get('oracle_bug') == 'quotes-do-not-matter':
        for i in range(len(OPTION_VARIANTS)):
            if s == OPTION_VARIANTS[i]:
                want = i
    return ob.post(selected == want and n == (0 if want == -1 else 1))


# =============================================================================================== obligations

def obligations(tier: str) -> List[Ob]:
    obs = []
    # ---- K1
    for drv in K1_DRIVERS:
        for n in (0, 1, 2, 3):
            # ' '.join of the shell driver forks on the length of every operand: smaller bound there
            m = MAXLEN if drv != 'shell' else {0: 6, 1: 4, 2: 2, 3: 2}[n] + (1 if tier == 'thorough' and n >= 1 else 0)
            lean = drv == 'shell' and n >= 2
            obs.append(Ob(
                name='K1:%s/%d' % (drv, n), fn='k1_execute', case=dict(driver=drv, nargs=n, maxlen=m, lean=lean), kernel='K1',
                bound='%s driver, %d arguments: every program / command-line string and every argument string of '
                      '<= %d characters (any characters), every exit code in Z, %s' % (
                          drv, n, m, 'no timeout, no OS failure' if lean else
                          'every timeout in N or none, every OS failure kind in {none, ValueError, OSError, TimeoutExpired}'),
                timeout=(900 if lean else 300), real=REAL_K1, stubs=(STUB_SUBPROCESS,),
                outside=('what the kernel does with the argument vector; real shells',),
                entry='OsServices.command_executor.execute(Command, settings, files)'))
    obs.append(Ob(name='K1:seeded-shell-args-forgotten', fn='k1_execute',
                  case=dict(driver='shell', nargs=2, oracle_bug='shell-verbatim'), kernel='K1',
                  bound='seeded oracle error: shell string without the appended arguments', timeout=120,
                  expect=ob.REFUTE, real=REAL_K1, stubs=(STUB_SUBPROCESS,)))
    obs.append(Ob(name='K1:seeded-argv-reversed', fn='k1_execute',
                  case=dict(driver='system', nargs=2, oracle_bug='argv-order'), kernel='K1',
                  bound='seeded oracle error: arguments expected in reverse order', timeout=120,
                  expect=ob.REFUTE, real=REAL_K1, stubs=(STUB_SUBPROCESS,)))
    obs.append(Ob(name='K1:seeded-exit-code-clamped', fn='k1_execute',
                  case=dict(driver='system', nargs=0, oracle_bug='exit-code'), kernel='K1',
                  bound='seeded oracle error: negative exit codes expected to be reported as 0', timeout=120,
                  expect=ob.REFUTE, real=REAL_K1, stubs=(STUB_SUBPROCESS,)))
    # ---- K2
    m2 = 2 if tier == 'quick' else 3
    for c in _k2_cases(tier):
        obs.append(Ob(
            name='K2:' + c.name, fn='k2_denote', case=dict(scenario=c.name, maxlen=m2), kernel='K2',
            bound='program text %r (after the definitions of L, P, E%s%s): every value of S0, S1, S2, S3 of <= %d characters '
                  '(any characters)' % (c.main.text(), ''.join(', %s = %s' % (n, p.text()) for n, p in c.defs),
                                        '' if c.act_stdin is None else ', [setup] stdin = ' + sp.T[c.act_stdin][0], m2),
            timeout=(300 if tier == 'quick' or c.n_symbols() <= 2 else 600 if c.n_symbols() == 3 else 1500),
            real=REAL_K2, stubs=(STUB_SYMBOLS, STUB_SINK),
            outside=('validation of the program (existence of files) - C03', 'the file / process layer below write_to - C14'),
            entry='test-case text -> parser -> def / stdin instructions -> command-line actor parser -> Program'))
    obs.append(Ob(name='K2:seeded-act-stdin-first', fn='k2_denote',
                  case=dict(scenario='chain/1-stdin', maxlen=2, oracle_bug='act-stdin-first'), kernel='K2',
                  bound='seeded oracle error: [setup] stdin expected before the stdin of the program', timeout=120,
                  expect=ob.REFUTE, real=REAL_K2, stubs=(STUB_SYMBOLS, STUB_SINK)))
    obs.append(Ob(name='K2:seeded-args-reversed', fn='k2_denote',
                  case=dict(scenario='chain/2-args', maxlen=2, oracle_bug='args-reversed-layers'), kernel='K2',
                  bound='seeded oracle error: accumulated arguments expected in reverse order', timeout=120,
                  expect=ob.REFUTE, real=REAL_K2, stubs=(STUB_SYMBOLS, STUB_SINK)))
    mt = 20 if tier == 'quick' else 40
    obs.append(Ob(
        name='K2:option-token', fn='k2_option_token', case=dict(maxlen=mt), kernel='K2',
        bound='every token whose string has <= %d characters (any characters), not quoted / in hard quotes / in soft quotes: '
              'the option variants %r of PROGRAM-ARGUMENT, of the executable of a PROGRAM and of TEXT-SOURCE are selected '
              'iff the token is not quoted and is the option' % (mt, OPTION_VARIANTS),
        timeout=120, real=REAL_K2_TOKEN,
        outside=('what the parsers do with the selected variant (K3:quoted-words/*, K2:args/paths)',),
        entry='the token matchers held by the real parsers (_ElementParser, parse_executable_file_path._Parser, '
              '_StringSourceParserWoParens) on a Token'))
    obs.append(Ob(name='K2:seeded-quotes-do-not-matter', fn='k2_option_token',
                  case=dict(maxlen=mt, oracle_bug='quotes-do-not-matter'), kernel='K2',
                  bound='seeded oracle error: a quoted token expected to select the option it spells', timeout=120,
                  expect=ob.REFUTE, real=REAL_K2_TOKEN))
    # ---- K3
    m3 = 1 if tier == 'quick' else 3
    for c in _k3_cases(tier):
        obs.append(Ob(
            name='K3:' + c.name, fn='k3_whole', case=dict(scenario=c.name, maxlen=m3), kernel='K3',
            bound='test case %r: every value of the predefined string symbols S0, S1 of <= %d characters (any characters)' % (
                c.text(), m3),
            timeout=(300 if tier == 'quick' else 900), real=REAL_K3, stubs=(STUB_SUBPROCESS, STUB_SYMBOLS, STUB_SANDBOX),
            outside=('stdin / stdout / stderr texts and the act-phase source of the source interpreter are catalogue values '
                     '(they cross the file layer)',),
            entry='full_execution.execute on the parsed test case (what MainProgram runs for a case file)'))
    obs.append(Ob(name='K3:seeded-cwd-not-followed', fn='k3_whole',
                  case=dict(scenario='stdin/pgm+setup', maxlen=1, oracle_bug='cwd-act'), kernel='K3',
                  bound='seeded oracle error: the cwd expected to stay act/ after `cd sub`', timeout=120,
                  expect=ob.REFUTE, real=REAL_K3, stubs=(STUB_SUBPROCESS, STUB_SYMBOLS, STUB_SANDBOX)))
    obs.append(Ob(name='K3:seeded-setup-stdin-first', fn='k3_whole',
                  case=dict(scenario='stdin/pgm+setup', maxlen=1, oracle_bug='stdin-order'), kernel='K3',
                  bound='seeded oracle error: [setup] stdin expected before the stdin of the program', timeout=120,
                  expect=ob.REFUTE, real=REAL_K3, stubs=(STUB_SUBPROCESS, STUB_SYMBOLS, STUB_SANDBOX)))
    for layout in PARTS_LAYOUTS:
        left_out = ' - the two -ignore-exit-code variants are left out (defect reported, region %s pending)' % REGION_IGN_OUTPUT \
            if _pending(REGION_IGN_OUTPUT) else ''
        obs.append(Ob(
            name='K3:stdin-parts/' + layout, fn='k3_stdin_parts', case=dict(layout=layout), kernel='K3', selector=True,
            bound='test case %r with PROGRAM-OUTPUT one of %r (symbolic selector)%s' % (
                _parts_case(layout, 'program').text().replace(sp.T['program'][0], 'PROGRAM-OUTPUT'),
                tuple(sp.T[v][0] for v in sp.GENERATOR_VARIANTS), left_out),
            timeout=120, real=REAL_K3 + REAL_K3_PARTS, stubs=(STUB_SUBPROCESS, STUB_SANDBOX, STUB_UNTRACED),
            entry='full_execution.execute on the parsed test case'))
    obs.append(Ob(name='K3:seeded-program-output-first', fn='k3_stdin_parts',
                  case=dict(layout='chain', oracle_bug='program-output-first'), kernel='K3', selector=True,
                  bound='seeded oracle error: the output of the program expected in front of the string parts', timeout=120,
                  expect=ob.REFUTE, real=REAL_K3 + REAL_K3_PARTS, stubs=(STUB_SUBPROCESS, STUB_SANDBOX, STUB_UNTRACED)))
    left_out = ' - bodies with an empty / blank line or a line starting with # are left out for the two [act] places ' \
               '(defect reported, region %s pending)' % REGION_ACT_HERE_DOC if _pending(REGION_ACT_HERE_DOC) else ''
    obs.append(Ob(
        name='K3:here-doc-as-written', fn='k3_act_here_doc', case=dict(), kernel='K3', selector=True,
        bound='a here-document with each of the bodies %r at each of the places %r (symbolic selectors): the process gets '
              'the body as written%s' % (HERE_DOC_BODIES, HERE_DOC_PLACES, left_out),
        timeout=120, real=REAL_K3 + ('exactly_lib.impls.actors.util.source_code_lines.all_source_code_lines__std_syntax',
                                     'exactly_lib.impls.types.string_.parse_rich_string.HereDocParser'),
        stubs=(STUB_SUBPROCESS, STUB_SANDBOX, STUB_UNTRACED), entry='full_execution.execute on the parsed test case'))
    obs.append(Ob(name='K3:seeded-blank-lines-dropped', fn='k3_act_here_doc', case=dict(oracle_bug='blank-lines-dropped'),
                  kernel='K3', selector=True, bound='seeded oracle error: blank lines of a here-document expected to be dropped',
                  timeout=120, expect=ob.REFUTE, real=REAL_K3, stubs=(STUB_SUBPROCESS, STUB_SANDBOX, STUB_UNTRACED)))
    for layout in QUOTED_LAYOUTS:
        obs.append(Ob(
            name='K3:quoted-words/' + layout, fn='k3_quoted_words', case=dict(layout=layout), kernel='K3', selector=True,
            bound='test case %r with QW each of the words %r written in each of the ways %r, at each of the positions %r '
                  'of every argument list (symbolic selectors): every process gets the word as one argument / as the text '
                  'of its stdin' % (
                      _quoted_case(layout, 0, 0, 2).text().replace(sp.quoted(sp.QUOTED_WORDS[0], sp.QUOTES[0]), 'QW'),
                      sp.QUOTED_WORDS, QUOTED_HOW, QUOTED_POSITIONS),
            timeout=300, real=REAL_K3 + REAL_K3_QUOTED, stubs=(STUB_SUBPROCESS, STUB_SANDBOX, STUB_UNTRACED),
            outside=('words that contain a quote character, a backslash or a symbol reference; a token only part of '
                     'which is quoted',),
            entry='full_execution.execute on the parsed test case'))
    obs.append(Ob(name='K3:seeded-quoted-word-is-syntax', fn='k3_quoted_words',
                  case=dict(layout='file-actor', oracle_bug='quoted-word-is-syntax'), kernel='K3', selector=True,
                  bound='seeded oracle error: a quoted word expected to be taken by the syntax (no argument)', timeout=120,
                  expect=ob.REFUTE, real=REAL_K3 + REAL_K3_QUOTED, stubs=(STUB_SUBPROCESS, STUB_SANDBOX, STUB_UNTRACED)))
    # ---- K4
    vc = dict(lo=-2 ** 31, hi=2 ** 31)
    obs.append(Ob(name='K4:verdict', fn='k4_verdict', case=vc, kernel='K4',
                  bound='every exit code in -2^31..2^31, with and without -ignore-exit-code, as assertion and as non-assertion',
                  timeout=120, real=REAL_K4,
                  outside=('the exit code is handed to the translators directly (between the child and the translator it '
                           'is written to a file, see K4:instr/*)',),
                  entry='run.parts_parser -> result translator'))
    obs.append(Ob(name='K4:seeded-negative-exit-codes-pass', fn='k4_verdict', case=dict(lo=-4, hi=8, oracle_bug='positive-only'),
                  kernel='K4', bound='seeded oracle error: only positive exit codes expected to fail', timeout=120,
                  expect=ob.REFUTE, real=REAL_K4))
    tc = dict(tier=tier)
    for c in _k4_cases(tier):
        if tier == 'quick' and c.name in ('outcome/command',) or (tier == 'quick' and c.name.endswith('/run-ref')):
            continue  # thorough only (quick: the transformed variant / plain run cover the same code)
        if c.name.startswith('outcome/'):
            obs.append(Ob(
                name='K4:' + c.name, fn='k4_outcome', case=dict(scenario=c.name, tier=tier), kernel='K4',
                bound='test case %r: child stdout in %r, stderr in %r, exit code in %r (symbolic selectors), '
                      'every operand K0 in Z of `exit-code ==`' % (c.text(), _outs(tc), ERRS, _codes(tc)),
                timeout=900, real=REAL_K3, stubs=(STUB_SUBPROCESS, STUB_INT, STUB_SANDBOX),
                entry='full_execution.execute on the parsed test case'))
        else:
            obs.append(Ob(
                name='K4:' + c.name, fn='k4_instruction', case=dict(scenario=c.name, tier=tier), kernel='K4', selector=True,
                bound='test case %r: exit code of the instruction\'s program in %r, with and without -ignore-exit-code '
                      '(run only)' % (c.text(), _codes(tc)),
                timeout=300, real=REAL_K3 + REAL_K4, stubs=(STUB_SUBPROCESS, STUB_SANDBOX),
                entry='full_execution.execute on the parsed test case'))
    if tier == 'thorough':
        for lo in (0, 64, 128, 192):
            rng = (lo, lo + 63)
            obs.append(Ob(
                name='K4:outcome/command/codes-%d-%d' % rng, fn='k4_outcome',
                case=dict(scenario='outcome/command', all_codes=rng), kernel='K4',
                bound='exit code of the action to check: every value %d..%d; every operand K0 in Z' % rng,
                timeout=900, real=REAL_K3, stubs=(STUB_SUBPROCESS, STUB_INT, STUB_SANDBOX)))
            for ph in PHASES:
                obs.append(Ob(
                    name='K4:instr/%s/run/codes-%d-%d' % ((ph,) + rng), fn='k4_instruction',
                    case=dict(scenario='instr/%s/run' % ph, all_codes=rng), kernel='K4', selector=True,
                    bound='exit code of the program of `run` in [%s]: every value %d..%d, with and without '
                          '-ignore-exit-code' % ((ph,) + rng),
                    timeout=900, real=REAL_K3 + REAL_K4, stubs=(STUB_SUBPROCESS, STUB_SANDBOX)))
    obs.append(Ob(name='K4:seeded-exit-code-le', fn='k4_outcome',
                  case=dict(scenario='outcome/file', oracle_bug='exit-code-le'), kernel='K4',
                  bound='seeded oracle error: `exit-code == K0` expected to hold when the code is <= K0', timeout=300,
                  expect=ob.REFUTE, real=REAL_K3, stubs=(STUB_SUBPROCESS, STUB_INT, STUB_SANDBOX)))
    obs.append(Ob(name='K4:seeded-hard-error-in-assert', fn='k4_instruction',
                  case=dict(scenario='instr/assert/run', oracle_bug='hard-error-everywhere'), kernel='K4',
                  bound='seeded oracle error: HARD_ERROR expected for a non-zero exit code in [assert] too', timeout=300,
                  expect=ob.REFUTE, real=REAL_K3 + REAL_K4, stubs=(STUB_SUBPROCESS, STUB_SANDBOX)))
    # ---- K4: output that is not text
    raw_names = tuple(d for d, _b in sp.RAW_OUTPUTS)
    raw_stubs = (STUB_SUBPROCESS, STUB_RAW_CHILD, STUB_SANDBOX, STUB_UNTRACED)
    forms = RAW_FORMS if tier == 'thorough' else RAW_FORMS[:3]
    for ph in PHASES:
        obs.append(Ob(
            name='K4:raw-output/instr/' + ph, fn='k4_raw_instruction', case=dict(phase=ph, tier=tier, forms=forms),
            kernel='K4', selector=True,
            bound='a program run in [%s] by each of %r that writes each of the byte sequences %r to %r and exits with each '
                  'of %r, with and without -ignore-exit-code (run only) (symbolic selectors): non-zero => %s, else PASS' % (
                      ph, forms, raw_names, RAW_WHERE, _codes(tc), 'FAIL' if ph == 'assert' else 'HARD_ERROR'),
            timeout=300, real=REAL_K3 + REAL_K4 + REAL_K4_RAW, stubs=raw_stubs,
            entry='full_execution.execute on the parsed test case'))
    obs.append(Ob(
        name='K4:raw-output/any-byte', fn='k4_raw_byte', case=dict(phase='setup', form='%'), kernel='K4', selector=True,
        bound='a program run by % in [setup] that exits with 3 and whose stderr is one byte b / an ASCII text with the byte b '
              'in it, every b in 0..255 (symbolic integer, made concrete): HARD_ERROR',
        timeout=300, real=REAL_K3 + REAL_K4 + REAL_K4_RAW, stubs=raw_stubs,
        entry='full_execution.execute on the parsed test case'))
    if tier == 'thorough':
        for ph, form in (('assert', 'run'), ('cleanup', '$'), ('before-assert', 'run-ref')):
            obs.append(Ob(
                name='K4:raw-output/any-byte/%s/%s' % (ph, form), fn='k4_raw_byte', case=dict(phase=ph, form=form),
                kernel='K4', selector=True,
                bound='as K4:raw-output/any-byte, the program run by %s in [%s]' % (form, ph),
                timeout=300, real=REAL_K3 + REAL_K4 + REAL_K4_RAW, stubs=raw_stubs))
    quiet_cells = [(ph, f) for ph in PHASES for f in RAW_FORMS] if tier == 'thorough' else \
        [(ph, ('%', '$', 'run', '$')[i]) for i, ph in enumerate(PHASES)]
    quiet_both = None if tier == 'thorough' else True
    for ph, form in quiet_cells:
        obs.append(Ob(
            name='K4:raw-output/quiet/%s/%s' % (ph, form), fn='k4_quiet_exit',
            case=dict(phase=ph, form=form, both=quiet_both),
            kernel='K4', selector=True,
            bound='a program run by %s in [%s] that exits with every code 0..255 (symbolic integer, made concrete) and writes '
                  'each of %r to stderr and stdout%s, with and without -ignore-exit-code (run only): '
                  'non-zero and not ignored => %s, else PASS - whatever was (not) written' % (
                      form, ph, sp.QUIET_OUTPUTS, ' / to stderr only' if quiet_both is None else '', 'FAIL' if ph == 'assert' else 'HARD_ERROR'),
            timeout=600, real=REAL_K3 + REAL_K4 + REAL_K4_RAW, stubs=raw_stubs,
            entry='full_execution.execute on the parsed test case'))
    obs.append(Ob(name='K4:seeded-quiet-hard-error-in-assert', fn='k4_quiet_exit',
                  case=dict(phase='assert', form='$', oracle_bug='hard-error-everywhere'), kernel='K4',
                  selector=True, bound='seeded oracle error: HARD_ERROR expected for a non-zero exit code in [assert] too',
                  timeout=120, expect=ob.REFUTE, real=REAL_K3 + REAL_K4 + REAL_K4_RAW, stubs=raw_stubs))
    obs.append(Ob(name='K4:seeded-raw-hard-error-in-assert', fn='k4_raw_instruction',
                  case=dict(phase='assert', tier=tier, forms=RAW_FORMS[:1], oracle_bug='hard-error-everywhere'), kernel='K4',
                  selector=True, bound='seeded oracle error: HARD_ERROR expected for a non-zero exit code in [assert] too',
                  timeout=120, expect=ob.REFUTE, real=REAL_K3 + REAL_K4 + REAL_K4_RAW, stubs=raw_stubs))
    obs.append(Ob(name='K4:seeded-raw-byte-hard-error-in-assert', fn='k4_raw_byte',
                  case=dict(phase='assert', form='%', oracle_bug='hard-error-everywhere'), kernel='K4',
                  selector=True, bound='seeded oracle error: HARD_ERROR expected for a non-zero exit code in [assert] too',
                  timeout=120, expect=ob.REFUTE, real=REAL_K3 + REAL_K4 + REAL_K4_RAW, stubs=raw_stubs))
    left_out = ' - `-stderr-from` without -ignore-exit-code, non-zero exit code, stderr not valid UTF-8 is left out ' \
               '(defect reported, region %s pending)' % REGION_STDERR_FROM_RAW if _pending(REGION_STDERR_FROM_RAW) else ''
    for layout in PARTS_LAYOUTS:
        obs.append(Ob(
            name='K4:raw-output/text-source/' + layout, fn='k4_raw_generator', case=dict(layout=layout, tier=tier),
            kernel='K4', selector=True,
            bound='test case %r with PROGRAM-OUTPUT one of %r; the program exits with each of %r and writes each of the byte '
                  'sequences %r - to both channels when its exit code makes the text unusable, else to the channel that is '
                  'not captured (symbolic selectors): non-zero and not ignored => HARD_ERROR and the process that needs '
                  'the text is not started, else PASS and every process gets its stdin%s' % (
                      _parts_case(layout, 'program').text().replace(sp.T['program'][0], 'PROGRAM-OUTPUT'),
                      tuple(sp.T[v][0] for v in sp.GENERATOR_VARIANTS), _codes(tc), raw_names, left_out),
            timeout=300, real=REAL_K3 + REAL_K3_PARTS + REAL_K4_RAW, stubs=raw_stubs,
            outside=('bytes that are not text on the channel that IS captured (the text then is not a text)',),
            entry='full_execution.execute on the parsed test case'))
    obs.append(Ob(name='K4:seeded-exit-code-of-text-source-ignored', fn='k4_raw_generator',
                  case=dict(layout='chain', tier=tier, oracle_bug='exit-code-of-text-source-ignored'), kernel='K4',
                  selector=True, bound='seeded oracle error: the output of a program expected to be used whatever its exit code',
                  timeout=120, expect=ob.REFUTE, real=REAL_K3 + REAL_K3_PARTS + REAL_K4_RAW, stubs=raw_stubs))
    left_out = ' - an assertion that does not hold on a process whose stderr is not valid UTF-8 is left out (defect ' \
               'reported, region %s pending)' % REGION_EXIT_CODE_MSG_RAW if _pending(REGION_EXIT_CODE_MSG_RAW) else ''
    obs.append(Ob(
        name='K4:raw-output/exit-code', fn='k4_raw_exit_code', case=dict(), kernel='K4', selector=True,
        bound='test case %r: the action to check and the program of -from each write each of the byte sequences %r to stdout '
              'and stderr and exit with each of %r (symbolic selectors): the first assertion that does not hold FAILs the '
              'case, else PASS%s' % (_k3_case(RAW_EXIT_CODE_CASE).text(), raw_names, RAW_EXIT_CODES, left_out),
        timeout=300, real=REAL_K3 + REAL_K4_RAW, stubs=raw_stubs,
        outside=('`stdout` / `stderr` assertions on output that is not text (C14)',),
        entry='full_execution.execute on the parsed test case'))
    obs.append(Ob(name='K4:seeded-exit-code-from-not-looked-at', fn='k4_raw_exit_code',
                  case=dict(oracle_bug='exit-code-from-not-looked-at'), kernel='K4', selector=True,
                  bound='seeded oracle error: `exit-code -from PROGRAM` expected to hold whatever the exit code', timeout=120,
                  expect=ob.REFUTE, real=REAL_K3 + REAL_K4_RAW, stubs=raw_stubs))
    return obs


# =============================================================================================== self-test

def selftest(tier) -> int:
    """Concrete validation of the stand-ins (no solver involved):
    (1) the recorder against the REAL subprocess.call: a real child that dumps its argv / stdin / cwd must have
        seen exactly what the recorder records for the same call;
    (2) every K2 scenario text is accepted by the public route (real full execution incl. symbol validation and
        pre/post-sandbox validation => PASS), so K2 - which resolves programs without the validation steps -
        quantifies over valid programs only."""
    import json
    import os
    import subprocess
    import sys
    from vsym import scratch
    n = 0
    # (1)
    dump = 'import sys,os,json; sys.stdout.write(json.dumps([sys.argv[1:], sys.stdin.read(), os.getcwd()])); sys.exit(int(sys.argv[1]))'
    work = scratch.new_dir('c10selftest')
    try:
        sub = os.path.join(work, 'a dir')
        os.mkdir(sub)
        cases = [
            (['3', '', 'a b', "it's", '"q"', '-x', '$HOME', '*'], 'stdin text\nline 2', False),
            (['0'], '', False),
            (['255', '\\', 'tab\there', 'nl\nhere'], None, False),
            ("7 'a  b'   \"c d\" e", 'x', True),
        ]
        for args, stdin_text, shell in cases:
            for real in (True, False):
                out_path = os.path.join(work, 'out')
                in_path = os.path.join(work, 'in')
                with open(in_path, 'w') as f:
                    f.write(stdin_text or '')
                cwd0 = os.getcwd()
                os.chdir(sub)
                try:
                    with open(out_path, 'w') as f_out, open(in_path) as f_in:
                        stdin = f_in if stdin_text is not None else subprocess.DEVNULL
                        if shell:
                            full = '"%s" -c "%s" %s' % (sys.executable, dump.replace('"', '\\"'), args)
                        else:
                            full = [sys.executable, '-c', dump] + args
                        if real:
                            code = subprocess.call(full, stdin=stdin, stdout=f_out, stderr=subprocess.DEVNULL, shell=shell)
                            seen_by_child = None
                        else:
                            rec = L.Recorder(lambda c: L.Child(code=-1))
                            rec.call(full, stdin=stdin, stdout=f_out, stderr=subprocess.DEVNULL, shell=shell)
                            recorded = rec.calls[0]
                finally:
                    os.chdir(cwd0)
                if real:
                    with open(out_path) as f:
                        seen_by_child = json.load(f)
                    real_code, real_seen = code, seen_by_child
            # what the real child saw must be what the recorder says it is given
            import shlex
            given_argv = shlex.split(recorded.args)[3:] if shell else recorded.args[3:]
            if real_seen[0] != given_argv or real_seen[1] != (recorded.stdin_text or '') or \
                    os.path.realpath(real_seen[2]) != os.path.realpath(recorded.cwd) or real_code != int(given_argv[0]):
                raise AssertionError('recorder and real subprocess.call disagree: %r vs %r' % (real_seen, recorded))
            n += 1
        # (1b) a child that writes bytes that are no text: the stand-in leaves the same bytes in the files as a real child
        for _d, data in sp.RAW_OUTPUTS:
            got = []
            for real in (True, False):
                out_path, err_path = os.path.join(work, 'raw-out'), os.path.join(work, 'raw-err')
                with open(out_path, 'w') as f_out, open(err_path, 'w') as f_err:
                    f_out.write('written before\n')
                    f_out.flush()
                    if real:
                        code = subprocess.call(
                            [sys.executable, '-c', 'import os,sys; os.write(1, %r); os.write(2, %r); sys.exit(3)' % (data, data)],
                            stdin=subprocess.DEVNULL, stdout=f_out, stderr=f_err)
                    else:
                        code = L.Recorder(lambda c: L.Child(out=data, err=data, code=3)).call(
                            ['x'], stdin=subprocess.DEVNULL, stdout=f_out, stderr=f_err)
                with open(out_path, 'rb') as f_out, open(err_path, 'rb') as f_err:
                    got.append((code, f_out.read(), f_err.read()))
            if got[0] != got[1] or got[0] != (3, b'written before\n' + data, data):
                raise AssertionError('stand-in child and real child leave different bytes: %r' % (got,))
            n += 1
    finally:
        scratch.remove(work)
    # (2)
    samples = [('a', 'b c', 'd\n', "e'"), ('', '', '', '')]
    for c in _k2_cases(tier):
        for smp in samples:
            text = c.text().replace('[setup]', '[setup]\n' + sp.DEF_G) + '[assert]\nexit-code == 0\n'
            rec = L.Recorder(lambda call: L.Child())
            run = L.run_case(text, rec, {('S%d' % i): L.string_symbol(v) for i, v in enumerate(smp)}, HDS_FILES)
            if run.status != 'PASS':
                raise AssertionError('K2 scenario %s is not accepted by the public route: %s %s' % (
                    c.name, run.status, run.failure_text()[:500]))
            n += 1
    return n


ASSUMPTIONS = [
    'subprocess.call hands exactly its `args` (list: the argument vector; str with shell=True: the command line) and '
    'its stdin/stdout/stderr/env/timeout to the OS; the child inherits the cwd of the calling process (no cwd= is '
    'passed); its exit code is the return value',
    'a text file opened for writing stores what is written to it in order (the sink of K2)',
]

OUTSIDE = [
    'what the kernel / a real shell does with the argument vector or command line',
    'the actual cwd of a real child (the cwd of the calling process at call time is recorded instead)',
    'stdin texts are symbolic only up to StringSourceContents.write_to (K2); through the real file layer they are '
    'catalogue values (K3)',
    'chains of program symbols longer than 3 (quick) / 4 (thorough); argument lists beyond the catalogue',
    'Windows (only the posix executable factory is driven)',
    'programs started by the `run` text-transformer / matchers and by the suite preprocessor',
    'output of a child that is not text where it is USED as text (captured channel of a text source, model of the '
    '`stdout` / `stderr` assertions): only the exit-code verdict and the error-message sites are covered',
    'the environment variables and the timeout handed to the process (C11, C19): K1 only checks that the settings '
    'object reaches subprocess.call unchanged',
]
