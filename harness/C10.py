"""C10  The action to check gets the denoted argv / stdin / cwd; its outcome is captured.

The OS is replaced at the single choke point `process_executor.subprocess` by a recorder
(harness/_C10_lib.py) that records what `subprocess.call` is given and plays the child.

K1  Command -> OS call.  A REAL `Command` (shell / system program / executable file driver,
    0..3 arguments) through the REAL `CommandExecutorFromProcessExecutor` -> `_CommandTranslator`
    -> `ProcessExecutor.execute`.  Symbolic: the program / command line string, every argument
    string (no alphabet restriction: the code must not look at them), the timeout, the exit
    code the child returns (all of Z), the kind of OS failure.
K2  Text -> denotation.  Program texts (catalogue: program forms x argument forms x
    program-symbol chains x -stdin / -transformed-by) through the REAL test-case parser, the
    REAL `def` / `stdin` instructions, the REAL command-line actor parser, REAL
    sdv -> ddv -> adv -> primitive resolution, the REAL `Executor._resolve_stdin` and executable
    factory.  Symbolic: the values of the string symbols S0, S1, S2 referenced by arguments,
    list elements, shell command lines and stdin texts.
K3  Whole program.  Test-case text -> REAL parser -> REAL `full_execution.execute` with the
    real actors, the real `run` / `$` / `%` / `stdin` / `def` / `cd` instructions, a real
    sandbox; the recorder sees every process.  Symbolic: S0, S1 (values of predefined string
    symbols; they travel from the symbol table to argv).
K4  Outcome.  (a) the verdict of a program run as an instruction for every exit code in Z
    (REAL result translators selected by the REAL option parser); (b) whole program: the exit
    code / stdout / stderr the child produces are what `exit-code`, `stdout`, `stderr` see -
    child behaviour is a symbolic selector, the operand of `exit-code ==` a symbolic integer;
    `run` in every phase: non-zero => FAIL in [assert], HARD_ERROR elsewhere, unless
    -ignore-exit-code.
"""
from typing import List, Optional

from vsym import ob
from vsym.ob import Ob

from harness import _C10_lib as L
from harness import _C10_spec as sp
from harness._C10_spec import Pgm

PROPERTY = 'C10'

STUB_SUBPROCESS = ('process_executor.subprocess -> recorder (contract: subprocess.call hands args/stdin/stdout/stderr/'
                   'env/timeout/shell to the OS, the child inherits the cwd of the caller, its exit code is returned; '
                   'ValueError / OSError / TimeoutExpired are the failures it may raise)')
STUB_SINK = 'text sink with write() (append-only) standing in for the text file that StringSourceContents.write_to fills'
STUB_INT = 'python_evaluate -> placeholder table (the integer literal K0 denotes the symbolic integer k0)'
STUB_SANDBOX = 'deterministic sandbox directory under a scratch dir (exactly_lib configuration hook sandbox_root_dir_resolver)'
STUB_SYMBOLS = ('string symbols S0..S2 with symbolic values, entered into the symbol table as `def string` would '
                '(SymbolContainer of a constant StringSdv)')

MAXLEN = 6  # bound on the length of every symbolic string (they are never inspected by the code under test)


def _short(*ss) -> bool:
    for s in ss:
        if len(s) > MAXLEN:
            return False
    return True


# =============================================================================================== K1

REAL_K1 = (
    'exactly_lib.impls.program_execution.executable_factories._CommandTranslator',
    'exactly_lib.impls.program_execution.executable_factories.ExecutableFactoryBase.make',
    'exactly_lib.impls.program_execution.impl.cmd_exe_from_proc_exe.CommandExecutorFromProcessExecutor.execute',
    'exactly_lib.impls.program_execution.impl.cmd_exe_from_proc_exe._raise_hard_error',
    'exactly_lib.util.process_execution.process_executor.ProcessExecutor.execute',
    'exactly_lib.type_val_prims.program.commands.CommandDriverForShell.shell_command_line_with_args',
    'exactly_lib.type_val_prims.program.commands.CommandDriverVisitor.visit',
    'exactly_lib.type_val_prims.program.command.Command',
    'exactly_lib.impls.os_services.os_services_access.new_for_current_os',
)

K1_DRIVERS = ('shell', 'system', 'file')
EXE_PATH = '/vsym/bin/the exe'


class _Token:
    """An opaque object standing for an open file."""

    def __init__(self, name):
        self.name = name


def _fake_tcds():
    import pathlib
    from exactly_lib.tcfs.hds import HomeDs
    from exactly_lib.tcfs.sds import SandboxDs
    from exactly_lib.tcfs.tcds import TestCaseDs
    return TestCaseDs(HomeDs(pathlib.Path(HDS_K2), pathlib.Path(HDS_K2)), SandboxDs(SDS_K2))


def _pre_k1(p, a0, a1, a2, t, rc, fault) -> bool:
    n = ob.case()['nargs']
    args = (a0, a1, a2)
    for i in range(3):
        if i >= n and args[i] != '':
            return False
    if ob.case()['driver'] == 'file' and p != '':
        return False
    return _short(p, a0, a1, a2) and 0 <= fault <= 3 and t >= -1


def k1_execute(p: str, a0: str, a1: str, a2: str, t: int, rc: int, fault: int) -> bool:
    """
    pre: _pre_k1(p, a0, a1, a2, t, rc, fault)
    post: _
    """
    import pathlib
    from exactly_lib.impls.os_services import os_services_access
    from exactly_lib.test_case.hard_error import HardErrorException
    from exactly_lib.type_val_deps.types.path import path_ddvs
    from exactly_lib.type_val_prims.program import commands
    from exactly_lib.type_val_prims.program.command import Command
    from exactly_lib.util.file_utils.std import StdFiles, StdOutputFiles
    from exactly_lib.util.process_execution.execution_elements import ProcessExecutionSettings

    case = ob.case()
    driver_kind, n = case['driver'], case['nargs']
    args = [a0, a1, a2][:n]
    if driver_kind == 'shell':
        driver = commands.CommandDriverForShell(p)
    elif driver_kind == 'system':
        driver = commands.CommandDriverForSystemProgram(p)
    else:
        driver = commands.CommandDriverForExecutableFile(
            path_ddvs.absolute_file_name(EXE_PATH).value_of_any_dependency__d(_fake_tcds()))
    command = Command(driver, list(args))
    timeout = None if t == -1 else t
    environ = {'VSYM': 'v'}
    settings = ProcessExecutionSettings(timeout, environ)
    f_in, f_out, f_err = _Token('in'), _Token('out'), _Token('err')
    files = StdFiles(f_in, StdOutputFiles(f_out, f_err))

    failures = (None, ValueError('injected'), OSError('injected'), L.Recorder.TimeoutExpired('cmd', 1))
    failure = ob.pick(failures, fault)
    rec = L.Recorder(lambda call: L.Child(code=rc, raises=failure))
    L.install(rec)
    try:
        executor = os_services_access.new_for_current_os().command_executor
        result, raised = None, None
        try:
            result = executor.execute(command, settings, files)
        except HardErrorException as e:
            raised = e
    finally:
        L.uninstall()

    if len(rec.calls) != 1:
        return ob.post(False)
    c = rec.calls[0]
    bug = case.get('oracle_bug')
    if driver_kind == 'shell':
        # ONE string: the command line, then the arguments, separated by single spaces
        expected = p
        for a in args:
            expected = expected + ' ' + a
        if bug == 'shell-verbatim':
            expected = p  # seeded oracle error: forgets the appended arguments
        ok = (c.shell is True) and isinstance(c.args, str) and c.args == expected
    else:
        expected0 = p if driver_kind == 'system' else EXE_PATH
        if bug == 'argv-order':
            args = list(reversed(args))  # seeded oracle error
        ok = (c.shell is False) and (not isinstance(c.args, str)) and len(c.args) == 1 + len(args)
        ok = ok and c.args[0] == expected0
        if ok:
            for i in range(len(args)):
                ok = ok and c.args[1 + i] == args[i]
    ok = ok and c.stdin_obj is f_in and c.stdout_obj is f_out and c.stderr_obj is f_err
    ok = ok and c.env is environ and c.extra == {}
    ok = ok and ((c.timeout is None) if t == -1 else (c.timeout == t))
    if failure is None:
        # the exit code is the child's, whatever it is
        ok = ok and raised is None and result == rc
        if bug == 'exit-code':
            ok = ok and result == (rc if rc >= 0 else 0)  # seeded oracle error
    else:
        ok = ok and raised is not None
    return ob.post(ok)


# =============================================================================================== K2

REAL_K2 = (
    'exactly_lib.impls.actors.program.parse.Parser.apply',
    'exactly_lib.impls.actors.program.parse._syntax_error_if_not_at_eof',
    'exactly_lib.impls.types.program.parse.parse_program._Parser',
    'exactly_lib.impls.types.program.parse.parse_arguments._Parser',
    'exactly_lib.impls.types.program.parse.parse_arguments._ElementParser',
    'exactly_lib.impls.types.program.parse.parse_arguments._MkElement',
    'exactly_lib.impls.types.program.parse.parse_shell_command._ParseAsCommand',
    'exactly_lib.impls.types.program.parse.parse_system_program._ParseAsCommand',
    'exactly_lib.impls.types.program.parse.parse_executable_file._ParserOfCommand',
    'exactly_lib.impls.types.program.parse.parse_with_reference_to_program._ParseAsProgram',
    'exactly_lib.impls.types.program.sdvs.program_symbol_sdv.ProgramSdvForSymbolReference',
    'exactly_lib.impls.types.program.sdvs.command_program_sdv.ProgramSdvForCommand',
    'exactly_lib.type_val_deps.types.program.sdv.accumulated_components.AccumulatedComponents',
    'exactly_lib.type_val_deps.types.program.sdv.arguments.ArgumentsSdv',
    'exactly_lib.type_val_deps.types.program.sdv.command.CommandSdv',
    'exactly_lib.type_val_deps.types.program.ddv.program.ProgramDdv',
    'exactly_lib.type_val_deps.types.program.ddv.program.ProgramAdv',
    'exactly_lib.type_val_deps.types.program.ddv.command.CommandDdv',
    'exactly_lib.type_val_deps.types.list_.list_sdv.ListSdv',
    'exactly_lib.type_val_deps.types.list_.list_sdv.SymbolReferenceElementSdv',
    'exactly_lib.type_val_deps.types.list_.list_sdvs.concat',
    'exactly_lib.type_val_deps.types.string_.string_sdv_impls.SymbolStringFragmentSdv',
    'exactly_lib.type_val_deps.types.string_.strings_ddvs.ListFragmentDdv',
    'exactly_lib.type_val_deps.types.string_.string_ddv.StringDdv',
    'exactly_lib.impls.actors.program.execution.Executor._resolve_stdin',
    'exactly_lib.type_val_prims.string_source.impls.concat._ConcatStringSourceContents.write_to',
    'exactly_lib.impls.types.string_transformer.sequence_resolving.resolve',
    'exactly_lib.impls.program_execution.executable_factories._CommandTranslator',
    'exactly_lib.impls.instructions.setup.stdin._Instruction.main',
    'exactly_lib.impls.instructions.multi_phase.define_symbol.parser.TheInstructionEmbryo.main',
)


class _Sink:
    """The text file that `as_file` fills by `write_to` (append-only)."""

    def __init__(self):
        self.text = ''

    def write(self, s):
        self.text = self.text + s
        return len(s)

    def writelines(self, lines):
        for s in lines:
            self.write(s)


HDS_K2 = '/vsym-hds'
SDS_K2 = '/vsym-sds'
TRANSFORMER_PROBE = 'some OUT text\nout  \n'


class K2Case:
    def __init__(self, name: str, main: Pgm, defs=(), act_stdin: Optional[str] = None):
        self.name, self.main, self.defs, self.act_stdin = name, main, list(defs), act_stdin

    def text(self) -> str:
        lines = ['[setup]', sp.DEF_L, sp.DEF_P, sp.DEF_E]
        for name, p in self.defs:
            lines.append('def program %s = %s' % (name, p.text()))
        if self.act_stdin is not None:
            lines.append('stdin = ' + sp.T[self.act_stdin][0])
        lines += ['[act]', self.main.text()]
        return '\n'.join(lines) + '\n'


def _k2_environment(symbols):
    import pathlib
    from exactly_lib.tcfs.hds import HomeDs
    from exactly_lib.tcfs.sds import SandboxDs
    from exactly_lib.test_case.phases.instruction_environment import InstructionEnvironmentForPostSdsStep, TmpFileStorage
    from exactly_lib.util.file_utils.dir_file_spaces import DirFileSpaceThatMustNoBeUsed
    from exactly_lib.util.process_execution.execution_elements import ProcessExecutionSettings
    hds = HomeDs(pathlib.Path(HDS_K2), pathlib.Path(HDS_K2))
    return InstructionEnvironmentForPostSdsStep(
        hds, ProcessExecutionSettings.null(), SandboxDs(SDS_K2),
        TmpFileStorage(pathlib.Path(SDS_K2) / 'tmp-unused', lambda p: DirFileSpaceThatMustNoBeUsed('K2')),
        symbols, 2 ** 10)


def _k2_real(case: K2Case, s0, s1, s2):
    """text -> (Executable, stdin text or None, transformed probe text)  by REAL code only."""
    from exactly_lib.impls.actors.program.execution import Executor
    from exactly_lib.impls.actors.program.parse import Parser
    from exactly_lib.impls.os_services import os_services_access
    from exactly_lib.impls.program_execution import executable_factories
    from exactly_lib.impls.types.string_source import constant_str
    from exactly_lib.impls.types.string_transformer import sequence_resolving
    from exactly_lib.test_case.app_env import ApplicationEnvironment
    from exactly_lib.test_case.phases.setup.settings_builder import SetupSettingsBuilder
    from exactly_lib.util.file_utils.dir_file_spaces import DirFileSpaceThatMustNoBeUsed
    from exactly_lib.util.symbol_table import SymbolTable

    tc = L.parse_case(case.text())
    symbols = SymbolTable({'S0': L.string_symbol(s0), 'S1': L.string_symbol(s1), 'S2': L.string_symbol(s2)})
    env = _k2_environment(symbols)
    os_services = os_services_access.new_for_current_os()
    settings_builder = SetupSettingsBuilder.new_empty()
    for e in tc.setup_phase.elements:
        r = e.instruction_info.instruction.main(env, None, os_services, settings_builder)
        if not r.is_success:
            raise ValueError('harness error: setup instruction failed')
    act_instructions = [e.instruction_info.instruction for e in tc.act_phase.elements]
    program_sdv = Parser().apply(act_instructions).program
    app_env = ApplicationEnvironment(os_services, env.proc_exe_settings,
                                     DirFileSpaceThatMustNoBeUsed('K2'), env.mem_buff_size)
    program = program_sdv.resolve(env.symbols).value_of_any_dependency(env.tcds).primitive(app_env)
    executable = executable_factories.get_factory_for_current_operating_system().make(program.command)
    act_stdin = None if settings_builder.stdin is None else settings_builder.stdin.resolve(app_env)
    stdin_source = Executor._resolve_stdin(act_stdin, program.stdin, env.mem_buff_size)
    if stdin_source is None:
        stdin_text = None
    else:
        sink = _Sink()
        stdin_source.contents().write_to(sink)
        stdin_text = sink.text
    transformer = sequence_resolving.resolve(program.transformation)
    probe = constant_str.string_source(TRANSFORMER_PROBE, DirFileSpaceThatMustNoBeUsed('K2'))
    transformed = transformer.transform(probe).contents().as_str
    return executable, stdin_text, transformed, transformer.is_identity_transformer


def _k2_cases(tier: str) -> List[K2Case]:
    cs = []

    def add(name, main, defs=(), act_stdin=None):
        cs.append(K2Case(name, main, defs, act_stdin))

    # ---- every argument form, one at a time, for a system program
    for a in sp.A:
        add('arg/' + a, Pgm('sys', 'prog', [a]))
    # ---- argument lists
    add('args/none', Pgm('sys', 'prog'))
    add('args/mixed', Pgm('sys', 'prog', ['sym', 'empty-sq', 'list', 'option', 'sym-in-dq', 'path']))
    add('args/continuation', Pgm('sys', 'prog', ['plain', 'sym', 'sym1'], continuation=True))
    add('args/parens', Pgm('sys', 'prog', ['sym', 'plain'], parens=True))
    add('args/rest-after-list', Pgm('sys', 'prog', ['list', 'rest']))
    # ---- program forms
    add('form/file', Pgm('file', 'exe', ['sym', 'spaces']))
    add('form/python', Pgm('python', '', ['option', 'sym']))
    add('form/shell', Pgm('shell', 'echo "a  b"   \'c\' @[S0]@ | cat -n',
                          head_value=[sp.C('echo "a  b"   \'c\' '), sp.S(0), sp.C(' | cat -n')]))
    add('form/shell-only-sym', Pgm('shell', '@[S1]@', head_value=[sp.S(1)]))
    # ---- stdin of every pure kind; with and without the [setup] stdin
    for t in sp.PURE_TEXT_SOURCES:
        add('stdin/pgm-' + t, Pgm('sys', 'prog', ['plain'], stdin=t))
        add('stdin/setup-' + t, Pgm('sys', 'prog', ['plain']), act_stdin=t)
    add('stdin/pgm+setup', Pgm('sys', 'prog', ['sym'], stdin='string'), act_stdin='sym')
    add('stdin/pgm+setup-heredocs', Pgm('sys', 'prog', [], stdin='here-doc'), act_stdin='here-doc')
    # ---- transformations
    add('trans/one', Pgm('sys', 'prog', ['plain'], trans='upper'))
    # ---- chains of program symbols
    base = Pgm('sys', 'base', ['plain', 'sym'], stdin='string')
    add('chain/1', Pgm('ref', 'P1', ['sym1']), [('P1', base)])
    add('chain/1-noargs', Pgm('ref', 'P1'), [('P1', base)])
    add('chain/1-stdin', Pgm('ref', 'P1', ['sym1'], stdin='sym'), [('P1', base)], act_stdin='here-doc')
    add('chain/2', Pgm('ref', 'P2', ['sym2'], stdin='sym'),
        [('P1', base), ('P2', Pgm('ref', 'P1', ['list'], stdin='here-doc'))], act_stdin='string-sq')
    add('chain/2-trans', Pgm('ref', 'P2', ['plain2'], trans='strip'),
        [('P1', Pgm('sys', 'base', ['sym'], trans='upper')), ('P2', Pgm('ref', 'P1', ['sym1'], trans='replace'))])
    add('chain/2-trans-rev', Pgm('ref', 'P2', ['plain2']),
        [('P1', Pgm('sys', 'base', ['sym'], trans='replace')), ('P2', Pgm('ref', 'P1', ['sym1'], trans='upper'))])
    add('chain/shell', Pgm('ref', 'P1', ['sym1', 'spaces']),
        [('P1', Pgm('shell', 'echo @[S0]@ x', head_value=[sp.C('echo '), sp.S(0), sp.C(' x')]))])
    add('chain/shell-2', Pgm('ref', 'P2', ['sym2']),
        [('P1', Pgm('shell', 'sh -c', head_value=[sp.C('sh -c')])), ('P2', Pgm('ref', 'P1', ['sym', 'empty-sq']))])
    add('chain/file', Pgm('ref', 'P1', ['sym1']), [('P1', Pgm('file', 'exe', ['existing-file']))])
    add('chain/python', Pgm('ref', 'P1', ['sym1'], parens=True), [('P1', Pgm('python', '', ['option']))])
    add('chain/shadow-order', Pgm('ref', 'P2', ['plain']),
        [('P1', Pgm('sys', 'one', ['sym'])), ('P2', Pgm('ref', 'P1', ['sym1'])), ('P3', Pgm('ref', 'P2', ['sym2']))])
    if tier == 'thorough':
        add('chain/3', Pgm('ref', 'P3', ['sym2', 'rest'], stdin='string', trans='strip'),
            [('P1', Pgm('sys', 'base', ['list'], stdin='here-doc', trans=None)),
             ('P2', Pgm('ref', 'P1', ['sym', 'sym-in-dq'], trans='upper')),
             ('P3', Pgm('ref', 'P2', ['path', 'sym1'], stdin='sym'))], act_stdin='sym')
        add('chain/4', Pgm('ref', 'P4', ['sym']),
            [('P1', Pgm('shell', 'c @[S2]@', head_value=[sp.C('c '), sp.S(2)])),
             ('P2', Pgm('ref', 'P1', ['sym'], stdin='sym')),
             ('P3', Pgm('ref', 'P2', ['sym1'], stdin='string')),
             ('P4', Pgm('ref', 'P3', ['sym2'], stdin='here-doc'))], act_stdin='string')
        names = list(sp.A)
        for i in range(0, len(names) - 1, 3):
            grp = [n for n in names[i:i + 3] if n != 'rest']
            add('args/triple-%d' % i, Pgm('ref', 'P1', grp), [('P1', Pgm('sys', 'b', list(reversed(grp))))])
        for t in sp.PURE_TEXT_SOURCES:
            for u in sp.PURE_TEXT_SOURCES:
                add('stdin/%s+%s' % (t, u), Pgm('sys', 'prog', [], stdin=t), act_stdin=u)
    return cs


_K2 = {}


def _k2_case(name: str) -> K2Case:
    if not _K2:
        for c in _k2_cases('thorough'):
            _K2[c.name] = c
    return _K2[name]


def _pre_k2(s0, s1, s2) -> bool:
    return _short(s0, s1, s2)


def k2_denote(s0: str, s1: str, s2: str) -> bool:
    """
    pre: _pre_k2(s0, s1, s2)
    post: _
    """
    case = _k2_case(ob.case()['scenario'])
    executable, stdin_text, transformed, is_identity = _k2_real(case, s0, s1, s2)
    # ---- reference denotation
    env = sp.Env([s0, s1, s2], act=SDS_K2 + '/act', hds=HDS_K2)
    defs = dict(case.defs)
    d = sp.denote(case.main, defs)
    bug = ob.case().get('oracle_bug')
    if bug == 'args-reversed-layers':
        d.argv = [d.argv[0]] + list(reversed(d.argv[1:]))
    expected_args = sp.argv_of(d, env)
    parts = list(d.stdin)
    if case.act_stdin is not None:
        if bug == 'act-stdin-first':
            parts = [sp.T[case.act_stdin][1]] + parts  # seeded oracle error
        else:
            parts = parts + [sp.T[case.act_stdin][1]]
    expected_stdin = None
    if parts:
        expected_stdin = ''
        for v in parts:
            expected_stdin = expected_stdin + sp.ev(v, env)
    ok = executable.is_shell == d.shell
    if d.shell:
        ok = ok and isinstance(executable.arg_list_or_str, str) and executable.arg_list_or_str == expected_args
    else:
        got = executable.arg_list_or_str
        ok = ok and (not isinstance(got, str)) and len(got) == len(expected_args)
        if ok:
            for i in range(len(expected_args)):
                ok = ok and got[i] == expected_args[i]
    if expected_stdin is None:
        ok = ok and stdin_text is None
    else:
        ok = ok and stdin_text is not None and stdin_text == expected_stdin
    ok = ok and transformed == sp.transformed(d, TRANSFORMER_PROBE) and is_identity == (len(d.trans) == 0)
    return ob.post(ok)


# =============================================================================================== obligations

def obligations(tier: str) -> List[Ob]:
    obs = []
    # ---- K1
    for drv in K1_DRIVERS:
        for n in (0, 1, 2, 3):
            obs.append(Ob(
                name='K1:%s/%d' % (drv, n), fn='k1_execute', case=dict(driver=drv, nargs=n), kernel='K1',
                bound='%s driver, %d arguments: every program / command-line string and every argument string of '
                      '<= %d characters (any characters), every timeout in N or none, every exit code in Z, '
                      'every OS failure kind in {none, ValueError, OSError, TimeoutExpired}' % (drv, n, MAXLEN),
                timeout=300, real=REAL_K1, stubs=(STUB_SUBPROCESS,),
                outside=('what the kernel does with the argument vector; real shells',),
                entry='OsServices.command_executor.execute(Command, settings, files)'))
    obs.append(Ob(name='K1:seeded-shell-args-forgotten', fn='k1_execute',
                  case=dict(driver='shell', nargs=2, oracle_bug='shell-verbatim'), kernel='K1',
                  bound='seeded oracle error: shell string without the appended arguments', timeout=120,
                  expect=ob.REFUTE, real=REAL_K1, stubs=(STUB_SUBPROCESS,)))
    obs.append(Ob(name='K1:seeded-argv-reversed', fn='k1_execute',
                  case=dict(driver='system', nargs=2, oracle_bug='argv-order'), kernel='K1',
                  bound='seeded oracle error: arguments expected in reverse order', timeout=120,
                  expect=ob.REFUTE, real=REAL_K1, stubs=(STUB_SUBPROCESS,)))
    obs.append(Ob(name='K1:seeded-exit-code-clamped', fn='k1_execute',
                  case=dict(driver='system', nargs=0, oracle_bug='exit-code'), kernel='K1',
                  bound='seeded oracle error: negative exit codes expected to be reported as 0', timeout=120,
                  expect=ob.REFUTE, real=REAL_K1, stubs=(STUB_SUBPROCESS,)))
    # ---- K2
    for c in _k2_cases(tier):
        obs.append(Ob(
            name='K2:' + c.name, fn='k2_denote', case=dict(scenario=c.name), kernel='K2',
            bound='program text %r (after the definitions of L, P, E%s%s): every value of S0, S1, S2 of <= %d characters '
                  '(any characters)' % (c.main.text(), ''.join(', %s = %s' % (n, p.text()) for n, p in c.defs),
                                        '' if c.act_stdin is None else ', [setup] stdin = ' + sp.T[c.act_stdin][0], MAXLEN),
            timeout=240, real=REAL_K2, stubs=(STUB_SYMBOLS, STUB_SINK),
            outside=('validation of the program (existence of files) - C03', 'the file / process layer below write_to - C14'),
            entry='test-case text -> parser -> def / stdin instructions -> command-line actor parser -> Program'))
    obs.append(Ob(name='K2:seeded-act-stdin-first', fn='k2_denote',
                  case=dict(scenario='chain/1-stdin', oracle_bug='act-stdin-first'), kernel='K2',
                  bound='seeded oracle error: [setup] stdin expected before the stdin of the program', timeout=120,
                  expect=ob.REFUTE, real=REAL_K2, stubs=(STUB_SYMBOLS, STUB_SINK)))
    obs.append(Ob(name='K2:seeded-args-reversed', fn='k2_denote',
                  case=dict(scenario='chain/2', oracle_bug='args-reversed-layers'), kernel='K2',
                  bound='seeded oracle error: accumulated arguments expected in reverse order', timeout=120,
                  expect=ob.REFUTE, real=REAL_K2, stubs=(STUB_SYMBOLS, STUB_SINK)))
    return obs


ASSUMPTIONS = [
    'subprocess.call hands exactly its `args` (list: the argument vector; str with shell=True: the command line) and '
    'its stdin/stdout/stderr/env/timeout to the OS; the child inherits the cwd of the calling process (no cwd= is '
    'passed); its exit code is the return value',
    'a text file opened for writing stores what is written to it in order (the sink of K2)',
]

OUTSIDE = [
    'what the kernel / a real shell does with the argument vector or command line',
    'the actual cwd of a real child (the cwd of the calling process at call time is recorded instead)',
    'stdin texts are symbolic only up to StringSourceContents.write_to (K2); through the real file layer they are '
    'catalogue values (K3)',
    'chains of program symbols longer than 3 (quick) / 4 (thorough); argument lists beyond the catalogue',
    'Windows (only the posix executable factory is driven)',
]
