"""C18 helper: a grammar of valid test cases (every instruction, every type) and the mutation operators of the
property's quantifier.  Pure data and string functions; no exactly_lib import.

A *base* is one valid instruction (phase, tokens).  A token is a str or (str, role); the instruction text is the
tokens joined by single spaces (a token may contain new-lines: here documents, file lists).  Roles mark the
argument kind, so that kind-specific mistakes can be put there:

    int     an INTEGER expression              regex  a REGEX                 glob  a GLOB-PATTERN
    str     a STRING                           path   the FILE-NAME of a PATH
    sym:T   the name of a symbol of type T (plain reference)
    raw     the remaining line is taken verbatim (shell command lines): no tokenisation mistakes here

The test case of a base = [conf] + [setup] with a prelude that defines one symbol of every type and a few files +
[act] + the phases, with the instruction placed in its phase.
"""

# --------------------------------------------------------------------------- the surrounding test case

PRELUDE = (
    'def string S = sval',
    'def string N5 = 5',
    'def list L = a b',
    'def path P = -rel-act p.txt',
    'def path PD = -rel-home home-dir',
    # strings that refer - SLL at depth 2 - to symbols that are not strings: wrong type where only strings are allowed
    'def string SL = @[L]@',
    'def string SLL = x@[SL]@',
    'def string SP = @[P]@',
    'def line-matcher LM = constant true',
    'def file-matcher FM = constant true',
    'def files-matcher FSM = constant true',
    'def text-matcher TM = constant true',
    'def integer-matcher IM = constant true',
    'def text-transformer TT = identity',
    'def text-source TS = tsval',
    'def program PR = % echo',
    'def files-condition FC = { }',
    'def files-source FS = { }',
    "file f.txt = 'contents'",
    'dir d1 = { file x.txt }',
)
SYMBOL_OF_TYPE = {
    'string': 'S', 'list': 'L', 'path': 'P', 'line-matcher': 'LM', 'file-matcher': 'FM', 'files-matcher': 'FSM',
    'text-matcher': 'TM', 'integer-matcher': 'IM', 'text-transformer': 'TT', 'text-source': 'TS', 'program': 'PR',
    'files-condition': 'FC', 'files-source': 'FS',
}
PHASES = ('conf', 'setup', 'act', 'before-assert', 'assert', 'cleanup')
ACT = '$ echo act'


def I(s):
    return (s, 'int')


def R(s):
    return (s, 'regex')


def G(s):
    return (s, 'glob')


def Q(s):
    return (s, 'str')


def PA(s):
    return (s, 'path')


def Y(s, t):
    return (s, 'sym:' + t)


def RAW(s):
    return (s, 'raw')


# (phase, tokens)
BASES = (
    # ---- conf
    ('conf', ['status', '=', 'PASS']),
    ('conf', ['actor', '=', 'command']),
    ('conf', ['actor', '=', 'file', '%', Q('python3')], dict(act='prog.py arg')),
    ('conf', ['actor', '=', 'source', '%', Q('python3'), Q('-u')], dict(act='print(1)')),
    ('conf', ['actor', '=', 'null'], dict(act='anything at all')),
    ('conf', ['home', '=', PA('home-dir')]),
    ('conf', ['act-home', '=', PA('home-dir')]),
    # ---- def of every type
    ('setup', ['def', 'string', 'X', '=', Q("'a string'")]),
    ('setup', ['def', 'string', 'X', '=', Q('"soft @[S]@ quoted"')]),
    ('setup', ['def', 'string', 'X', '=', '<<EOF\nline 1\n@[S]@\nEOF']),
    ('setup', ['def', 'string', 'X', '=', ':>', RAW('the rest @[S]@ of the line')]),
    ('setup', ['def', 'list', 'X', '=', Q('a'), Q("'b c'"), Q('@[S]@'), Y('@[L]@', 'list')]),
    ('setup', ['def', 'path', 'X', '=', '-rel-act', PA('sub/file.txt')]),
    ('setup', ['def', 'path', 'X', '=', '-rel', Y('P', 'path'), PA('sub')]),
    ('setup', ['def', 'path', 'X', '=', '-rel-here', PA('existing.txt')]),
    ('setup', ['def', 'integer-matcher', 'X', '=', '(', '>', I('0'), '&&', '<=', I('10'), ')', '||', '==', I('72')]),
    ('setup', ['def', 'integer-matcher', 'X', '=', '!', Y('IM', 'integer-matcher'), '||', 'constant', 'false']),
    ('setup', ['def', 'line-matcher', 'X', '=', 'contents', 'matches', '-full', R("'a.*b'"), '&&', 'line-num', '>=', I('2')]),
    ('setup', ['def', 'line-matcher', 'X', '=', '!', '(', Y('LM', 'line-matcher'), '||', 'contents', Y('TM', 'text-matcher'), ')']),
    ('setup', ['def', 'text-matcher', 'X', '=', '-transformed-by', 'char-case', '-to-upper', 'every', 'line', ':', 'contents',
               'equals', Q("'A'")]),
    ('setup', ['def', 'text-matcher', 'X', '=', 'num-lines', '==', I('3'), '&&', 'any', 'line', ':', Y('LM', 'line-matcher')]),
    ('setup', ['def', 'text-matcher', 'X', '=', 'equals', '-contents-of', '-rel-home', PA('existing.txt')]),
    ('setup', ['def', 'text-matcher', 'X', '=', '~', '-ignore-case', R("'^e$'"), '||', 'is-empty', '||', 'run', '%', Q('true')]),
    ('setup', ['def', 'file-matcher', 'X', '=', 'type', 'file', '&&', 'name', G("'*.txt'"), '||', 'suffix', '~', R("'tx?t'")]),
    ('setup', ['def', 'file-matcher', 'X', '=', 'path', G("'*/d?/[a-z]*'"), '&&', 'stem', G('x'), '&&', 'suffixes', G('.txt')]),
    ('setup', ['def', 'file-matcher', 'X', '=', 'contents', Y('TM', 'text-matcher'), '||', 'dir-contents', '-recursive', '-min-depth',
               I('0'), '-max-depth', I('2'), 'is-empty']),
    ('setup', ['def', 'file-matcher', 'X', '=', 'run', '-path-arg-marker', 'MARK', '%', Q('test'), Q('-f'), Q('MARK')]),
    ('setup', ['def', 'files-matcher', 'X', '=', '-selection', 'type', 'file', 'num-files', '==', I('2')]),
    ('setup', ['def', 'files-matcher', 'X', '=', '-with-pruned', Y('FM', 'file-matcher'), 'every', 'file', ':', 'type', 'dir']),
    ('setup', ['def', 'files-matcher', 'X', '=', 'matches', '-full', '{\n a.txt : type file\n b\n}']),
    ('setup', ['def', 'files-matcher', 'X', '=', 'matches', Y('FC', 'files-condition'), '&&', 'any', 'file', ':', Y('FM', 'file-matcher')]),
    ('setup', ['def', 'text-transformer', 'X', '=', 'replace', '-preserve-new-lines', R("'a+'"), Q("'b'"), '|', 'strip', '-trailing-space', '|', 'grep',
               R('x'), '|', 'filter', '-line-nums', I('1:2'), I('-1')]),
    ('setup', ['def', 'text-transformer', 'X', '=', 'replace', '-at', Y('LM', 'line-matcher'), R("'(a)(b)'"), Q("'\\2\\1'")]),
    ('setup', ['def', 'text-transformer', 'X', '=', 'filter', 'line-num', '==', I('1'), '|', 'char-case', '-to-lower', '|',
               'replace-test-case-dirs', '|', Y('TT', 'text-transformer'), '|', 'run', '-ignore-exit-code', '%', Q('cat')]),
    ('setup', ['def', 'text-source', 'X', '=', '-contents-of', '-rel-home', PA('existing.txt'), '-transformed-by', 'identity']),
    ('setup', ['def', 'text-source', 'X', '=', '-stdout-from', '-ignore-exit-code', '%', Q('echo'), Q('a')]),
    ('setup', ['def', 'text-source', 'X', '=', Y('@[TS]@', 'text-source'), '-transformed-by', 'strip']),
    ('setup', ['def', 'program', 'X', '=', '%', Q('echo'), Q('a'), Q("'b c'"), '-existing-file', '-rel-home', PA('existing.txt')]),
    ('setup', ['def', 'program', 'X', '=', '@', Y('PR', 'program'), Q('arg'), '\n -stdin', Q("'in'"), '\n -transformed-by', 'strip']),
    ('setup', ['def', 'program', 'X', '=', '-python', Q('-c'), ':>', RAW('import sys; sys.exit(0)')]),
    ('setup', ['def', 'program', 'X', '=', '-rel-home', PA('prog.py'), Q('arg')]),
    ('setup', ['def', 'program', 'X', '=', '$', RAW("echo 'hello' | tr a-z A-Z")]),
    ('setup', ['def', 'files-condition', 'X', '=', '{\n a.txt : type file\n ', Q("'b c'"), '\n}']),
    ('setup', ['def', 'files-source', 'X', '=', '{\n file a.txt =', Q("'c'"), '\n dir d = { file e.txt }\n file a.txt +=', Q("'d'"), '\n}']),
    ('setup', ['def', 'files-source', 'X', '=', 'dir-contents-of', '-rel-home', PA('home-dir')]),
    # ---- files
    ('setup', ['file', PA('new.txt'), '=', Q("'contents'")]),
    ('setup', ['file', PA('new.txt'), '=', '<<EOF\nhere doc\nEOF']),
    ('setup', ['file', '-rel-tmp', PA('new.txt'), '=', '-stdout-from', '%', Q('echo'), Q('x'), '\n -transformed-by', 'replace', R('a'), Q('b')]),
    ('setup', ['file', PA('f.txt'), '+=', Y('@[TS]@', 'text-source')]),
    ('setup', ['file', PA('empty.txt')]),
    ('setup', ['dir', PA('d2')]),
    ('setup', ['dir', PA('d2'), '=', '{\n file x.txt\n dir sub = ', Y('FS', 'files-source'), '\n}']),
    ('setup', ['dir', PA('d1'), '+=', 'dir-contents-of', '-rel-home', PA('home-dir/sub')]),
    ('setup', ['copy', '-rel-home', PA('existing.txt'), PA('dst.txt')]),
    ('setup', ['copy', PA('home-dir')]),
    ('setup', ['cd', PA('d1')]),
    ('setup', ['cd', '-rel-tmp', PA('.')]),
    ('setup', ['env', 'VAR', '=', Q("'value @[S]@'")]),
    ('setup', ['env', '-of', 'act', 'VAR', '=', Q('"${PATH}:x"')]),
    ('setup', ['env', 'unset', 'PATH']),
    ('setup', ['stdin', '=', Q("'text on stdin'")]),
    ('setup', ['stdin', '=', '-contents-of', PA('existing.txt')]),
    ('setup', ['timeout', '=', I('5')]),
    ('setup', ['timeout', '=', 'none']),
    ('setup', ['timeout', '=', Y('@[N5]@', 'string')]),
    ('setup', ['run', '%', Q('prog'), Q('arg'), '\n -stdin', Q("'x'")]),
    ('setup', ['run', '@', Y('PR', 'program'), Q('more')]),
    ('setup', ['$', RAW("echo hello > out.txt && cat 'out.txt'")]),
    ('setup', ['%', Q('echo'), Q('a'), Y('@[L]@', 'list')]),
    # ---- act (command line actor)
    ('act', ['$', RAW("echo 'hello' | tr a-z A-Z")]),
    ('act', ['%', Q('echo'), Q('a'), Q("'b c'"), Y('@[L]@', 'list')]),
    ('act', [PA('prog.py'), Q('arg1'), Q('"arg @[S]@"'), '-existing-file', '-rel-home', PA('existing.txt')]),
    ('act', ['-python', Q('-c'), ':>', RAW('import sys; sys.exit(0)')]),
    ('act', ['@', Y('PR', 'program'), Q('arg')]),
    ('act', ['-rel', Y('PD', 'path'), PA('prog2.py'), Q("'arg 1'"), '-existing-file', '-rel', Y('PD', 'path'), PA('x.txt')]),
    ('act', ['-rel-home', PA('prog.py'), '-existing-dir', '-rel-act', PA('.'), '-existing-path', PA('@[PD]@/x.txt')]),
    ('act', [PA('prog.py'), Q('arg')], dict(conf='actor = file % python3')),
    ('act', [PA('@[PD]@/prog2.py'), Q("'arg 1'"), Q('@[S]@')], dict(conf='actor = file -python')),
    ('act', [RAW('import sys'), '\n', RAW("sys.stdout.write('@[S]@')")], dict(conf='actor = source -python')),
    # ---- other phases
    ('before-assert', ['file', PA('ba.txt'), '=', Q('x')]),
    ('before-assert', ['run', '-python', Q('-c'), Q("'pass'")]),
    ('cleanup', ['dir', PA('c-dir')]),
    ('cleanup', ['%', Q('echo'), Q('done')]),
    # ---- assertions
    ('assert', ['exit-code', '==', I('0')]),
    ('assert', ['exit-code', '(', '>', I('1'), '||', '==', I('0'), ')']),
    ('assert', ['exit-code', '-from', '%', Q('prog'), '\n', Y('IM', 'integer-matcher')]),
    ('assert', ['stdout', 'is-empty']),
    ('assert', ['stdout', '-from', '%', Q('echo'), Q('x'), '\n', 'is-empty']),
    ('assert', ['stderr', '!', 'num-lines', '>', I('3')]),
    ('assert', ['stdout', '-transformed-by', 'filter', 'contents', '~', R('a'), 'equals', Q("''")]),
    ('assert', ['contents', PA('f.txt'), ':', 'equals', Q("'contents'")]),
    ('assert', ['contents', PA('f.txt'), ':', '-transformed-by', Y('TT', 'text-transformer'), 'any', 'line', ':', Y('LM', 'line-matcher')]),
    ('assert', ['contents', '-rel-home', PA('three-lines.txt'), ':', '-transformed-by', 'filter', '-line-nums', I('2:'),
                '\n', 'num-lines', '==', I('2')]),
    ('assert', ['contents', PA('f.txt'), ':', '-transformed-by', 'replace', R("'c(o)'"), Q("'<\\1\\g<0>>'"), 'matches', R("'<oco>'")]),
    ('assert', ['exists', PA('f.txt')]),
    ('assert', ['exists', PA('f.txt'), ':', 'type', 'file', '&&', 'contents', '!', 'is-empty']),
    ('assert', ['exists', '!', PA('no-such-file')]),
    ('assert', ['dir-contents', PA('d1'), ':', '-recursive', '-max-depth', I('2'), 'num-files', '>=', I('0')]),
    ('assert', ['dir-contents', PA('d1'), ':', 'matches', '-full', '{\n x.txt : type file\n}']),
    ('assert', ['dir-contents', PA('.'), ':', '-selection', 'name', G("'*.txt'"), 'num-files', '==', I('1')]),
    ('assert', ['dir-contents', '-rel-home', PA('home-dir'), ':', '-with-pruned', 'name', '~', R("'^s'"), 'every', 'file', ':',
                Y('FM', 'file-matcher')]),
    # -selection / -with-pruned: the FILE-MATCHER is held by the "property getter" of the files-matcher, whose validation is a
    # separate link; the tested directory is not empty (files and a sub directory), so the FILE-MATCHER is applied.  The
    # FILES-MATCHER after it carries the same kinds of arguments as controls.  (focus: in the quick tier one invalid value
    # at every integer / regex position)
    ('assert', ['dir-contents', '-rel-home', PA('home-dir'), ':', '-selection', '(', 'type', 'file', '&&', 'name', '~', R("'^[xp]'"), '&&',
                'contents', 'num-lines', '==', I('1'), ')', 'num-files', '>=', I('1'), '&&', 'every', 'file', ':', 'name', '~', R("'.'")],
     dict(focus=True)),
    ('assert', ['dir-contents', '-rel-home', PA('home-dir'), ':', '-recursive', '-max-depth', I('3'), '-with-pruned', '(', 'type', 'dir', '&&',
                'dir-contents', '-recursive', '-min-depth', I('0'), 'num-files', '<', I('9'), '&&', 'name', '~', R("'^s'"), ')',
                'num-files', '>=', I('2'), '&&', 'any', 'file', ':', 'name', '~', R("'^prog'")],
     dict(focus=True)),
    ('assert', ['dir-contents', '-rel-home', PA('home-dir'), ':', '-selection', '(', 'type', 'file', '&&', 'contents', '-transformed-by', '(',
                'replace', R("'x+'"), Q('y'), '|', 'filter', '-line-nums', I('1:2'), '\n', ')', 'num-lines', '<=', I('2'), ')',
                'every', 'file', ':', 'contents', '-transformed-by', 'filter', '-line-nums', I('1:'), '\n', 'num-lines', '<=', I('1')],
     dict(focus=True)),
    ('assert', ['run', '%', Q('test'), Q('-f'), '-existing-file', '-rel-act', PA('f.txt')]),
    ('assert', ['$', RAW('test -f f.txt')]),
    ('assert', ['def', 'string', 'X', '=', Q('v')]),
    ('assert', ['timeout', '=', I('2*30')]),
)


def token_text(tok) -> str:
    return tok if isinstance(tok, str) else tok[0]


def token_role(tok) -> str:
    return '' if isinstance(tok, str) else tok[1]


def line_of(tokens) -> str:
    return ' '.join(token_text(t) for t in tokens)


def base_parts(base):
    """-> (phase, tokens, act source of the surrounding case [, instruction of the conf phase])"""
    opts = base[2] if len(base) > 2 else {}
    act = opts.get('act', ACT)
    if 'conf' in opts:
        return base[0], base[1], (act, opts['conf'])
    return base[0], base[1], act


def _words(text: str):
    out = set()
    w = ''
    for ch in text:
        if ch.isalnum() or ch in '_.':
            w += ch
        else:
            if w:
                out.add(w)
            w = ''
    if w:
        out.add(w)
    return out


def needed_prelude(prelude, text: str):
    """the lines of the prelude that define something `text` mentions (a symbol name, f.txt, d1): parsing the full
    prelude in every run only costs time"""
    words = _words(text)
    names = []
    for line in prelude:
        parts = line.split()
        names.append(parts[2] if parts[0] == 'def' else parts[1])
    needed = set()
    changed = True
    while changed:  # a needed definition may itself mention others
        changed = False
        for name, line in zip(names, prelude):
            if name not in needed and name in words:
                needed.add(name)
                words = words | _words(line.split('=', 1)[1] if '=' in line else '')
                changed = True
    return [line for name, line in zip(names, prelude) if name in needed]


def use_of(tokens):
    """(phase, instruction) that uses the symbol a `def` base defines, or None"""
    if token_text(tokens[0]) == 'def' and len(tokens) > 2 and token_text(tokens[2]) == 'X':
        return USE_OF.get(token_text(tokens[1]))
    return None


def case_text(phase: str, instruction: str, act=ACT, prelude=PRELUDE, use=None):
    """-> (text of the test case, 1-based number of the first line of `instruction`, line number of the use or None)"""
    secs = {p: [] for p in PHASES}
    if isinstance(act, tuple):
        act, conf = act
        secs['conf'] = [conf]
    secs['setup'] = needed_prelude(prelude, instruction + '\n' + act + '\n' + (use[1] if use else ''))
    secs['act'] = [] if phase == 'act' else [act]
    out = []
    first = None
    use_line = None
    for p in PHASES:
        out.append('[%s]' % p)
        out.extend(secs[p])
        if p == phase:
            first = len('\n'.join(out).split('\n')) + 1
            out.append(instruction)
        if use is not None and p == use[0]:
            out.append('')  # an instruction whose last argument is missing takes it from the following line (C03 finding)
            use_line = len('\n'.join(out).split('\n')) + 1
            out.append(use[1])
        out.append('')
    return '\n'.join(out) + '\n', first, use_line


# --------------------------------------------------------------------------- mutation operators

ANY = 'any'  # validity of the mutant is not known: any documented outcome except INTERNAL_ERROR
MISTAKE = 'mistake'  # certainly a mistake: exit 65 (SYNTAX_ERROR / VALIDATION_ERROR) or, at the latest, HARD_ERROR

INVALID_INTS = ('notanint', '1+', '1.5', "'1 2'", '""', '1e3', '1:2:3', '@[LM]@', '@[UNDEFINED_SYMBOL]@',
                # Python's message holds braces / percent signs (messages are formatted when the report is printed)
                '1+{', '1}', '(1}', '"int(\'{x}\')"', '"int(\'%s %(y)d\')"',
                # wrong type reached only indirectly
                '@[SP]@', '@[SLL]@')
# expressions on which Python's eval raises something else than SyntaxError / ValueError / TypeError / NameError
EVAL_RAISING_INTS = ('1//0', '10.0**400', '[][0]', '{}[0]', '().x', '1%0', 'exit()')
EXTREME_INTS = ('99999999999999999999999999', '-99999999999999999999', '-0', '0x1F', '1_0', '2**100', '(1)', 'True', '-1',
                '00', '+1', "' 7 '", '1if(1)else(2)', '@[N5]@', '@[N5]@@[N5]@',
                # more digits than Python converts to a string
                '10**5000', '-10**5000')
INVALID_REGEXES = ("'('", "'[a'", "'*a'", "'a{2,1}'", "'(?P<n>a)(?P<n>b)'", "'a\\'", "'(?z)'", '@[LM]@', '@[UNDEFINED_SYMBOL]@')
WEIRD_REGEXES = ("''", "'(?i)a'", "'a|'", "'\\Z'", "'(?#c)'", "'a{,}'", "'[]]'", '"@[S]@"', '-ignore-case a', ':> a b', "'(?s).'")
WEIRD_GLOBS = ("'['", "'[!'", "'**'", "''", "'.'", "'./'", "'[]'", "'a\\'", "'***/..'", "'[z-a]'", "'[a-]'", "'?'", '@[S]@', "'{a,b}'", "'/'")
# a definition is checked when it is used: the use of the symbol X defined by a `def` base, by type
USE_OF = {
    'string': ('cleanup', 'env V = @[X]@'),
    'list': ('setup', '% echo @[X]@'),
    'path': ('assert', 'exists ! @[X]@/nonexistent'),
    'integer-matcher': ('assert', 'exit-code X'),
    'line-matcher': ('assert', 'contents f.txt : any line : X'),
    'text-matcher': ('assert', 'contents f.txt : X || constant true'),
    'file-matcher': ('assert', 'exists f.txt : X || constant true'),
    'files-matcher': ('assert', 'dir-contents d1 : X || constant true'),
    'text-transformer': ('assert', 'contents f.txt : -transformed-by X constant true'),
    'text-source': ('setup', 'file from-x.txt = @[X]@'),
    'program': ('setup', 'run @ X'),
    'files-condition': ('assert', 'dir-contents d1 : matches X || constant true'),
    'files-source': ('setup', 'dir from-x = X'),
}
WRONG_STRS = ('@[LM]@', '@[UNDEFINED_SYMBOL]@', '@[TT]@x')
WEIRD_STRS = ("''", '""', "'a\nb'".replace('\n', ' '), '@[S]@@[S]@', "'@[S]@'", '@[', '@[]@', '@[S', ']@', '\\', '"\\""', '-', '--', '-x',
              '<<', '<<EOF', ':>', '@', '@@', '$', '%', '`', '~', '@[SLL]@', '@[SP]@')
# absolute paths: only below /proc/<no such entry>, where nothing can be created (a mutant must not be able to touch the machine)
WEIRD_PATHS = ('..', "''", '.', 'a/../b', '/proc/vsym-no-such-entry/x', '@[P]@/x', '@[S]@', '-rel-nosuch', '-rel-act', '-rel', '*', '@[SLL]@/x')
RESERVED = ('(', ')', '[', ']', '{', '}', '=', '|', ':', '!', '&&', '||')

_MATCHER_LIKE = ('line-matcher', 'file-matcher', 'files-matcher', 'text-matcher', 'integer-matcher', 'text-transformer',
                 'files-condition', 'files-source', 'program')
_W_STR_RENDERING = ('string', 'list', 'path', 'text-source')


def _wrong_type_symbols(t: str, tok: str):
    """names of symbols whose type is certainly not acceptable where a symbol of type t is referenced by `tok`"""
    as_ref = tok.startswith('@[')
    out = []
    for ty, name in sorted(SYMBOL_OF_TYPE.items()):
        if ty == t:
            continue
        if t in _W_STR_RENDERING and ty in _W_STR_RENDERING:
            continue  # conversions among string-like types exist; not certainly wrong
        if t in _MATCHER_LIKE and as_ref:
            continue
        out.append('@[%s]@' % name if as_ref else name)
    return out


def _has_raw(tokens, upto=None) -> bool:
    return any(token_role(t) == 'raw' for t in tokens[:upto])


def _single_line(tokens) -> bool:
    return '\n' not in line_of(tokens)


def _with(tokens, i, new_texts):
    return ' '.join([token_text(t) for t in tokens[:i]] + list(new_texts) + [token_text(t) for t in tokens[i + 1:]])


def mutants_of(tokens, phase: str, level: int, salt: int = 0, focus: bool = False):
    """-> list of (operator name, mutated instruction text, expectation).
    level 0: a sample for the quick tier; level 1: everything."""
    out = []
    n = len(tokens)
    line = line_of(tokens)
    for i in range(n):
        out.append(('delete:%d' % i, _with(tokens, i, []), ANY))
        out.append(('duplicate:%d' % i, _with(tokens, i, [token_text(tokens[i])] * 2), ANY))
        if i + 1 < n:
            out.append(('transpose:%d' % i, ' '.join(
                [token_text(t) for t in tokens[:i]] + [token_text(tokens[i + 1]), token_text(tokens[i])] +
                [token_text(t) for t in tokens[i + 2:]]), ANY))
    for j in range(1, len(line)):
        out.append(('truncate:%d' % j, line[:j], ANY))
    for i in range(n):
        tok, role = token_text(tokens[i]), token_role(tokens[i])
        raw_before = _has_raw(tokens, i + 1)
        if not raw_before:
            for q in ("'", '"'):
                rest = ' '.join(token_text(t) for t in tokens[i:])
                certainly = (q not in rest and '\n' not in rest and not _has_raw(tokens) and '<<' not in rest)
                out.append(('open-quote%s:%d' % (q, i), _with(tokens, i, [q + tok]), MISTAKE if certainly else ANY))
                out.append(('close-quote%s:%d' % (q, i), _with(tokens, i, [tok + q]), ANY))
            for w in RESERVED:
                out.append(('reserved%s:%d' % (w, i), _with(tokens, i, [w]), ANY))
        if role == 'int':
            for v in INVALID_INTS:
                out.append(('int-invalid:%d:%s' % (i, v), _with(tokens, i, [v]), MISTAKE))
            for v in EXTREME_INTS:
                out.append(('int-extreme:%d:%s' % (i, v), _with(tokens, i, [v]), ANY))
            for v in EVAL_RAISING_INTS:
                out.append(('int-eval-raises:%d:%s' % (i, v), _with(tokens, i, [v]), MISTAKE))
        elif role == 'regex':
            for v in INVALID_REGEXES:
                out.append(('regex-invalid:%d:%s' % (i, v), _with(tokens, i, [v]), MISTAKE))
            for v in WEIRD_REGEXES:
                out.append(('regex-weird:%d:%s' % (i, v), _with(tokens, i, [v]), ANY))
        elif role == 'glob':
            for v in WEIRD_GLOBS + WRONG_STRS[:2]:
                out.append(('glob:%d:%s' % (i, v), _with(tokens, i, [v]), MISTAKE if v in WRONG_STRS else ANY))
        elif role == 'str':
            for v in WRONG_STRS:
                out.append(('str-wrong:%d:%s' % (i, v), _with(tokens, i, [v]), MISTAKE))
            for v in WEIRD_STRS:
                out.append(('str-weird:%d:%s' % (i, v), _with(tokens, i, [v]), ANY))
        elif role == 'path':
            for v in WRONG_STRS[:2]:
                out.append(('path-wrong:%d:%s' % (i, v), _with(tokens, i, [v]), MISTAKE))
            for v in WEIRD_PATHS:
                out.append(('path-weird:%d:%s' % (i, v), _with(tokens, i, [v]), ANY))
        elif role.startswith('sym:'):
            t = role[4:]
            for v in _wrong_type_symbols(t, tok):
                out.append(('sym-wrong-type:%d:%s' % (i, v), _with(tokens, i, [v]), MISTAKE))
            undefined = '@[UNDEFINED_SYMBOL]@' if tok.startswith('@[') else 'UNDEFINED_SYMBOL'
            out.append(('sym-undefined:%d' % i, _with(tokens, i, [undefined]), MISTAKE))
            out.append(('sym-illegal-name:%d' % i, _with(tokens, i, ['a-b' if not tok.startswith('@[') else '@[a-b]@']), ANY))
    if _single_line(tokens) and not _has_raw(tokens) and '<<' not in line:
        for q in ("'", '"'):
            if q not in line:
                out.append(('append-open-quote%s' % q, line + ' ' + q + 'unterminated', MISTAKE))
    # de-duplicate on the text (keep the strongest expectation)
    seen = {}
    for name, text, exp in out:
        if text == line:
            continue
        if text not in seen or (exp == MISTAKE and seen[text][2] != MISTAKE):
            seen[text] = (name, text, exp)
    return _select(list(seen.values()), level, salt, dense=(phase == 'act'), focus=focus)


# how many mutants of one operator are kept per base (level 0, level 1); the choice rotates with the base index so
# that over all bases every catalogue value and every position is used
_KEEP = {
    'delete': (0, 99), 'duplicate': (0, 3), 'transpose': (0, 3), 'truncate': (0, 8),
    'open-quote': (0, 8), 'close-quote': (0, 2), 'reserved': (0, 3), 'append-open-quote': (0, 2),
    'int-invalid': (1, 99), 'int-extreme': (1, 99), 'int-eval-raises': (1, 99),
    'regex-invalid': (1, 99), 'regex-weird': (1, 99), 'glob': (2, 99),
    'str-wrong': (1, 6), 'str-weird': (0, 8), 'path-wrong': (1, 2), 'path-weird': (0, 8),
    'sym-wrong-type': (1, 99), 'sym-undefined': (1, 99), 'sym-illegal-name': (0, 99),
}
# quick tier: one of these operators per base, in rotation
_GENERIC_QUICK = ('delete', 'open-quote', 'duplicate', 'truncate', 'transpose', 'open-quote', 'reserved', 'close-quote',
                  'append-open-quote', 'truncate', 'open-quote', 'delete')
_WEIRD_QUICK = ('str-weird', 'path-weird')
_WRONG_QUICK = ('str-wrong', 'sym-wrong-type', 'path-wrong', 'sym-undefined')


def _op_of(name: str) -> str:
    op = name.split(':')[0]
    for q in ("'", '"'):
        op = op.replace(q, '')
    for w in RESERVED:
        if op == 'reserved' + w:
            return 'reserved'
    return op


def _select(muts, level: int, salt: int, dense: bool = False, focus: bool = False):
    groups = {}
    order = []
    for m in muts:
        op = _op_of(m[0])
        if op not in groups:
            groups[op] = []
            order.append(op)
        groups[op].append(m)
    out = []
    for op in order:
        ms = groups[op]
        keep = _KEEP[op][level]
        if level == 0 and op in _GENERIC_QUICK:
            keep = 1 if _GENERIC_QUICK[salt % len(_GENERIC_QUICK)] == op else 0
        if level == 0 and op in _WEIRD_QUICK:
            keep = 1 if _WEIRD_QUICK[salt % len(_WEIRD_QUICK)] == op else 0
        if level == 0 and op in _WRONG_QUICK:
            keep = 1 if op in (_WRONG_QUICK[salt % 4], _WRONG_QUICK[(salt + 1) % 4]) else 0
        if dense:
            # the act phase is parsed by the actor, outside the net around instruction parsers: more of these
            if level == 0 and op in ('open-quote', 'truncate', 'delete'):
                keep = 2
            if level == 1:
                keep = 99 if op in ('open-quote', 'truncate', 'delete', 'duplicate', 'transpose') else keep * 3
        if focus and level == 0 and op in ('int-invalid', 'regex-invalid'):
            # one invalid value at every position (the value rotates with the position)
            by_pos = {}
            for m in ms:
                by_pos.setdefault(m[0].split(':')[1], []).append(m)
            for k, pos in enumerate(sorted(by_pos, key=int)):
                cands = by_pos[pos]
                out.append(cands[(salt + k) % min(len(cands), 7)])
            continue
        if keep >= len(ms):
            out.extend(ms)
            continue
        for k in range(keep):
            out.append(ms[(salt * 7 + k * len(ms) // keep + k) % len(ms)])
    seen = set()
    res = []
    for m in out:
        if m[1] not in seen:
            seen.add(m[1])
            res.append(m)
    return res


def all_mutants(level: int):
    """-> list of (base index, operator name, phase, instruction text, act source, expectation, use)"""
    out = []
    for bi, base in enumerate(BASES):
        phase, tokens, act = base_parts(base)
        use = use_of(tokens)
        focus = bool(len(base) > 2 and base[2].get('focus'))
        for name, text, exp in mutants_of(tokens, phase, level, bi, focus=focus):
            out.append((bi, name, phase, text, act, exp, use))
    return out


# --------------------------------------------------------------------------- regions of known findings (input predicates)

REGION_EVAL = 'c18-eval-uncaught-exception'
REGION_EVAL_EXIT = 'c18-eval-system-exit'
REGION_REPLACE_TEMPLATE = 'c18-replace-template'
REGION_PATH_GLOB = 'c18-path-glob-empty'


def regions_of(name: str, text: str):
    """the known-finding regions a mutant lies in (decided from the input alone)"""
    out = []
    if name.startswith('int-eval-raises'):
        out.append(REGION_EVAL_EXIT if name.endswith('exit()') else REGION_EVAL)
    if 'replace' in text and '\\' in text:
        out.append(REGION_REPLACE_TEMPLATE)
    words = text.split()
    for i in range(len(words) - 1):
        if words[i] == 'path' and words[i + 1] in ("''", '""', "'.'", "'./'", '.', './'):
            out.append(REGION_PATH_GLOB)
            break
    return out
