"""C18  Mistakes in a test case are reported as such, never as internal errors.

Kernels (DESIGN.md section 4, C18; K6 / K7 are additions that run the whole program):
  K1  integers.  `eval` (a C boundary) is replaced, as seen from evaluate_integer.python_evaluate, by a stub that
      returns a symbolic integer n, returns a value that is not an integer, raises an exception out of the
      catalogue of all exception classes of the interpreter, or leaves through SystemExit (`exit()`).
        K1:evaluate     python_evaluate itself: the integer comes back, everything else is NotAnIntegerException
        K1:consumer:*   the three consumers (IntegerSdv validator, IntegerDdv validator, validation.evaluate) built
                        by the real integer parser: a validation error is *reported* (never an exception of another
                        class); with the non-negative restriction: reported iff n < 0, for every n in Z
        K1:range:*      LINE-NUMBER-RANGE texts (characters symbolic) through the real range parser and validator: ill-formed
                        ones are reported by validation, never an exception
        K1:site:*       real instructions (`timeout = E`, `exit-code == E`, `-max-depth E`, `-line-nums E` ...) parsed by
                        the real test-case parser and run by the real executor: VALIDATION_ERROR iff E is not an
                        acceptable integer, for every n in Z; never INTERNAL_ERROR
  K2  the net around instruction parsers (InstructionParserForDictionaryOfInstructions): source text symbolic, a
      stub instruction parser consumes a symbolic amount of source and then succeeds, reports invalid arguments, or
      raises anything: always the instruction or a syntax-error exception of the documented family carrying the
      instruction name, the message and exactly the source lines consumed.
  K3  regular expressions.  The real REGEX parser and validator (a) over `re.compile` replaced by a stub raising
      anything: always *reported* by the validator; (b) the real `replace` transformer with real `re` over catalogues
      of patterns, replacement strings and texts: reported at validation, or HardErrorException when applied
      (selectors concrete, then run natively: CrossHair's model of re.sub is kept out).
  K5  the last-resort nets.  Real executor with a stub step raising every exception class at every step; real
      execute_element / execute_action_and_catch_internal_error_exception / ProcessorFromAccessorAndExecutor with
      failing parts; the result is rendered by the real reporters: an outcome, never an escaping exception.
  K6  the whole program (MainProgram, in process, run natively once the selector is concrete) on a grammar of valid test cases covering every
      instruction and type, each mutated by token deletion / duplication / transposition / replacement, truncation,
      quote imbalance, wrong-type and undefined symbols, invalid / extreme integers, regexes, globs, paths.   [selector]
  K7  the whole program on document-level mistakes (unknown phase, unknown instruction, bad header, inclusion of a
      missing file, unterminated here-document, redefinition ...) and odd characters.                       [selector]
  K9  the whole program on mistakes that need SEVERAL FILES (harness/_C18_files): cycles of `including` directives of
      length 1-3, entered directly or through another file, over five directory layouts, the closing (or every)
      directive spelled in ten ways (plain, ./x, d/../x, ../d/x, through another directory, absolute, through a
      symbolic link to the file / to its directory), the test case itself named in five ways; and chains of 1-3
      inclusions whose last file is missing / a directory / not UTF-8 / a broken link / ... or holds each mistake
      of the K7 catalogue: FILE_ACCESS_ERROR resp. the identifier of the mistake, exit 65, the whole chain of
      `including` lines down to the offending line (file, line number, source), nothing executed.          [selector]
"""
from typing import List

from harness import _C18_cli as cli
from harness import _C18_exc as exc
from harness import _C18_files as files
from harness import _C18_grammar as g
from vsym import ob
from vsym.ob import Ob

PROPERTY = 'C18'

REGION_EVAL = g.REGION_EVAL
REGION_EVAL_EXIT = g.REGION_EVAL_EXIT
REGION_REPLACE_TEMPLATE = g.REGION_REPLACE_TEMPLATE
REGION_PATH_GLOB = g.REGION_PATH_GLOB
REGION_NUL = 'c18-nul-character-in-file-name'
REGION_EVAL_UNBOUNDED = 'c18-integer-expression-evaluated-without-bound'
REGIONS = (REGION_EVAL, REGION_EVAL_EXIT, REGION_REPLACE_TEMPLATE, REGION_PATH_GLOB, REGION_NUL, REGION_EVAL_UNBOUNDED)

STUB_EVAL = ('builtin eval as seen from evaluate_integer.python_evaluate: returns a symbolic integer / a non-integer value / '
             'raises an exception of the catalogue (contract: eval may return or raise anything)')
STUB_EXC = 'catalogue of exceptions: every Exception subclass of builtins, Exception, re.error, a class unknown to all code'


# =========================================================================== K1  integers

REAL_K1 = (
    'exactly_lib.impls.types.integer.evaluate_integer.python_evaluate',
    'exactly_lib.impls.types.integer.evaluate_integer.NotAnIntegerException',
    'exactly_lib.impls.types.integer.integer_sdv.IntegerSdv',
    'exactly_lib.impls.types.integer.integer_sdv._IntResolver',
    'exactly_lib.impls.types.integer.integer_sdv._ValidatorThatReportsViaExceptions',
    'exactly_lib.impls.types.integer.integer_ddv.IntegerDdv',
    'exactly_lib.impls.types.integer.integer_ddv._PrimitiveValueComputer',
    'exactly_lib.impls.types.integer.integer_ddv._IntegerDdvValidator',
    'exactly_lib.impls.types.integer.validation.evaluate',
    'exactly_lib.impls.types.integer.parse_integer.MandatoryIntegerParser',
    'exactly_lib.impls.types.integer.parse_integer.validator_for_non_negative',
)
REAL_K1_SITE = REAL_K1 + (
    'exactly_lib.processing.processors._Parser.apply',
    'exactly_lib.execution.full_execution.execution.execute',
    'exactly_lib.execution.impl.single_instruction_executor.execute_element',
    'exactly_lib.execution.impl.phase_step_execution.execute_phase_prim',
    'exactly_lib.impls.instructions.multi_phase.timeout.parse.EmbryoParser',
    'exactly_lib.impls.types.integer_matcher.parse_integer_matcher',
    'exactly_lib.impls.types.file_matcher.parse_dir_contents_model',
    'exactly_lib.impls.types.string_transformer.impl.filter.line_nums.resolvers._RangeParser',
    'exactly_lib.impls.types.string_transformer.impl.filter.line_nums.resolvers._RangeValidator',
    'exactly_lib.impls.svh_validators',
)

EXPR = 'vsym_int_expr'  # the text handed to eval

# values eval may return that are not integers (the selector picks one)
NON_INTS = (1.5, 'a', None, [1], (1,), 1j, b'1', float('nan'))
K_INT, K_NON_INT, K_RAISE, K_EXIT = 0, 1, 2, 3  # K_EXIT: eval leaves through SystemExit (`exit()`, `quit(7)`)

_CAUGHT_BY_DESIGN = (SyntaxError, ValueError, TypeError, NameError)


class _Eval:
    """Stands in for the builtin `eval` in the module evaluate_integer."""

    def __init__(self):
        self.outcome = None  # ('int', n) | ('value', v) | ('raise', exception)
        self.calls = []

    def __call__(self, s, *a):
        self.calls.append(s)
        kind, x = self.outcome
        if kind == 'raise':
            raise x
        return x


_EVAL = _Eval()

STUB_STR = ('builtin str as seen from evaluate_integer.python_evaluate: for an int argument it returns a string or - a symbolic boolean '
            'chooses - raises ValueError (contract: CPython\'s limit on integer-to-string conversion, 4300 digits by default); any other '
            'argument goes to the real str')
TOO_BIG = 'Exceeds the limit (4300 digits) for integer string conversion {x} { } %s'


class _Str:
    """Stands in for the builtin `str` in the module evaluate_integer."""

    def __init__(self):
        self.int_cannot_be_displayed = False
        self.int_calls = 0

    def __call__(self, *a, **k):
        if len(a) == 1 and not k and isinstance(a[0], int) and not isinstance(a[0], bool):
            self.int_calls += 1
            if self.int_cannot_be_displayed:
                raise ValueError(TOO_BIG)
            return '<the digits of the integer>'
        return str(*a, **k)


_STR = _Str()


def _install_eval(kind: int, sel: int, n: int, big: bool = False):
    from exactly_lib.impls.types.integer import evaluate_integer
    evaluate_integer.eval = _EVAL  # a module global shadows the builtin for python_evaluate only
    evaluate_integer.str = _STR
    _STR.int_cannot_be_displayed = big
    _STR.int_calls = 0
    _EVAL.calls = []
    if kind == K_INT:
        _EVAL.outcome = ('int', n)
    elif kind == K_NON_INT:
        _EVAL.outcome = ('value', ob.pick(NON_INTS, sel))
    elif kind == K_RAISE:
        _EVAL.outcome = ('raise', exc.instance(ob.pick(exc.NAMES, sel)))
    else:
        _EVAL.outcome = ('raise', SystemExit(7))


def _uninstall_eval():
    from exactly_lib.impls.types.integer import evaluate_integer
    if 'eval' in vars(evaluate_integer):
        del evaluate_integer.eval
    if 'str' in vars(evaluate_integer):
        del evaluate_integer.str


def _exc_names(c) -> tuple:
    if 'names' in c:
        return exc.SAMPLES[c['names']]
    return exc.QUICK if c.get('quick') else exc.NAMES


def _names_text(sample: str) -> str:
    if sample == 'all':
        return ('every exception class of the catalogue (%d: all Exception subclasses of builtins, Exception, re.error, an unknown '
                'class)' % exc.N)
    return 'the sample %s of the exception catalogue' % (list(exc.SAMPLES[sample]),)


def _pre_k1(kind: int, sel: int, n: int, big: bool) -> bool:
    c = ob.case()
    if not (0 <= kind <= 3):
        return False
    if big and kind != K_INT:
        return False  # whether an integer can be converted to a string only matters when there is one
    if kind == K_EXIT:
        return sel == 0 and n == 0 and not ob.excluded(REGION_EVAL_EXIT)
    if kind == K_INT:
        if sel != 0:
            return False
        nb = c.get('n_bound')
        if nb is not None and not (-nb <= n <= nb):
            # the non-negative restriction formats a rejected n into its message: an unbounded symbolic n would enumerate
            return False
    elif kind == K_NON_INT:
        if n != 0 or not (0 <= sel < len(NON_INTS)):
            return False
    else:
        if n != 0 or not (0 <= sel < exc.N):
            return False
        if ob.pick(exc.NAMES, sel) not in _exc_names(c):
            return False
        if ob.excluded(REGION_EVAL) and not issubclass(exc.cls_of(ob.pick(exc.NAMES, sel)), _CAUGHT_BY_DESIGN):
            # known finding: python_evaluate lets every exception but these four (and their subclasses) through
            return False
    return True


def k1_evaluate(kind: int, sel: int, n: int, big: bool) -> bool:
    """
    pre: _pre_k1(kind, sel, n, big)
    post: _
    """
    from exactly_lib.impls.types.integer import evaluate_integer
    kind = ob.concrete_int(kind, 0, 3)
    big = ob.concrete_bool(big)
    _install_eval(kind, sel, n, big)
    bug = ob.case().get('oracle_bug')
    try:
        got = evaluate_integer.python_evaluate(EXPR)
        raised = None
    except evaluate_integer.NotAnIntegerException as e:
        got, raised = None, e
    except SystemExit:
        return ob.post(False)  # the evaluated text ended the program
    # any other exception propagates: the obligation fails
    finally:
        _uninstall_eval()
    if _EVAL.calls != [EXPR]:
        return ob.post(False)
    if kind == K_INT and not big and not bug:
        return ob.post(raised is None and got == n)
    # not an integer, or an integer that cannot be displayed (fix 5cbd3ce): not an integer expression
    return ob.post(raised is not None and raised.value_string == EXPR)


CONSUMERS = ('sdv-validator', 'sdv-validator-non-negative', 'ddv-validator', 'ddv-validator-non-negative', 'validation.evaluate')


def k1_consumer(kind: int, sel: int, n: int, big: bool) -> bool:
    """
    pre: _pre_k1(kind, sel, n, big)
    post: _
    """
    from exactly_lib.impls.exception import svh_exception
    from exactly_lib.impls.exception.validation_error_exception import ValidationErrorException
    from exactly_lib.impls.types.integer import parse_integer, validation
    from exactly_lib.section_document.element_parsers.token_stream_parser import new_token_parser
    from exactly_lib.test_case.path_resolving_env import PathResolvingEnvironmentPreSds
    from exactly_lib.util.symbol_table import SymbolTable
    c = ob.case()
    kind = ob.concrete_int(kind, 0, 3)
    consumer = c['consumer']
    non_negative = consumer.endswith('non-negative')
    bug = c.get('oracle_bug')
    big = ob.concrete_bool(big)
    _install_eval(kind, sel, n, big)
    try:
        return _k1_consumer(c, kind, n, consumer, non_negative, bug, big)
    except SystemExit:
        return ob.post(False)  # the evaluated text ended the program
    finally:
        _uninstall_eval()


def _rendered(text_renderer) -> str:
    """the reported message as the reporter prints it (messages are formatted lazily: rendering is part of reporting)"""
    from exactly_lib.common.report_rendering import print_
    return print_.print_to_str(text_renderer.render_sequence())


def _k1_consumer(c, kind, n, consumer, non_negative, bug, big) -> bool:
    from exactly_lib.impls.exception import svh_exception
    from exactly_lib.impls.exception.validation_error_exception import ValidationErrorException
    from exactly_lib.impls.types.integer import parse_integer, validation
    from exactly_lib.section_document.element_parsers.token_stream_parser import new_token_parser
    from exactly_lib.test_case.path_resolving_env import PathResolvingEnvironmentPreSds
    from exactly_lib.util.symbol_table import SymbolTable
    if True:
        not_an_int = kind != K_INT or big
        must_report = not_an_int or (non_negative and n < (1 if bug else 0))
        if consumer == 'validation.evaluate':
            try:
                v = validation.evaluate(EXPR)
                reported = False
            except ValidationErrorException as e:
                v, reported = None, True
                if not_an_int and EXPR not in _rendered(e.error):
                    return ob.post(False)
            return ob.post(reported == must_report and (reported or v == n))
        parser = parse_integer.MandatoryIntegerParser(parse_integer.validator_for_non_negative if non_negative else None)
        sdv = parser.parse(new_token_parser(EXPR))
        symbols = SymbolTable()
        if consumer.startswith('sdv-validator'):
            try:
                sdv.validate_pre_sds(PathResolvingEnvironmentPreSds(None, symbols))
                reported = False
            except svh_exception.SvhValidationException as e:
                reported = True
                # the message can be rendered (only then is it reported), whatever Python's message holds
                if not_an_int and EXPR not in _rendered(e.err_msg):
                    return ob.post(False)
            return ob.post(reported == must_report)
        ddv = sdv.resolve(symbols)
        err = ddv.validator().validate_pre_sds_if_applicable(None)
        reported = err is not None
        if reported != must_report:
            return ob.post(False)
        if reported and not_an_int and EXPR not in _rendered(err):
            return ob.post(False)
        if ddv.validator().validate_post_sds_if_applicable(None) is not None:
            return ob.post(False)
        if not reported:
            return ob.post(ddv.value_when_no_dir_dependencies() == n and ddv.value_of_any_dependency(None) == n)
        return ob.post(True)


# (name, phase, instruction, restriction)  E is replaced by the expression text
SITES = (
    ('timeout', 'setup', 'timeout = E', 'non-negative'),
    ('timeout-assert', 'assert', 'timeout = E', 'non-negative'),
    ('exit-code', 'assert', 'exit-code == E', None),
    ('exit-code-not-gt', 'assert', 'exit-code ! > E', None),
    ('num-lines', 'assert', 'stdout num-lines >= E', None),
    ('line-num', 'assert', 'stdout every line : line-num < E', None),
    ('num-files', 'assert', 'dir-contents . : num-files != E', None),
    ('max-depth', 'assert', 'dir-contents . : -recursive -max-depth E is-empty', 'non-negative'),
    ('min-depth', 'assert', 'dir-contents . : -recursive -min-depth E is-empty', 'non-negative'),
    ('line-nums-single', 'assert', 'stdout -transformed-by filter -line-nums E\n is-empty', None),
    ('line-nums-lower', 'assert', 'stdout -transformed-by filter -line-nums E:\n is-empty', None),
    ('line-nums-upper', 'before-assert', 'file x.txt = -contents-of -rel-result stdout -transformed-by filter -line-nums :E', None),
    ('int-matcher-symbol', 'assert', 'def integer-matcher M = <= E\nexit-code M', None),
    ('string-symbol', 'cleanup', 'def string N = E\ntimeout = @[N]@', 'non-negative'),
)
_SITE_DOCS = {}


def _site_doc(site):
    """the TestCase document of a site, parsed once per process by the real test-case parser"""
    name = site[0]
    if name not in _SITE_DOCS:
        import pathlib
        from exactly_lib.cli_default import default_main_program_setup as d
        from exactly_lib.processing import processors
        from exactly_lib.processing.test_case_processing import TestCaseFileReference
        text = '[%s]\n%s\n' % (site[1], site[2].replace('E', EXPR))
        setup = d.TestCaseParsingSetup(d.instruction_name_and_argument_splitter.splitter,
                                       d.default_instructions_setup.INSTRUCTIONS_SETUP, d.ActPhaseParser())
        _SITE_DOCS[name] = processors._Parser(setup).apply(
            TestCaseFileReference(pathlib.Path('/vsym/site.case'), pathlib.Path('/vsym')), text)
    return _SITE_DOCS[name]


def k1_site(kind: int, sel: int, n: int, big: bool) -> bool:
    """
    pre: _pre_k1(kind, sel, n, big)
    post: _
    """
    from vsym import exeharness as xh
    c = ob.case()
    kind = ob.concrete_int(kind, 0, 3)
    site = [s for s in SITES if s[0] == c['site']][0]
    non_negative = site[3] == 'non-negative'
    bug = c.get('oracle_bug')
    big = ob.concrete_bool(big)
    _install_eval(kind, sel, n, big)
    try:
        plan = xh.Plan(lambda cell: 0)
        # a fresh document per path: instruction objects memoise the evaluated integer
        _SITE_DOCS.pop(site[0], None)
        run = xh.execute(plan, _site_doc(site))
    except SystemExit:
        return ob.post(False)  # the evaluated text ended the program
    finally:
        _uninstall_eval()
    if run.exception is not None or run.result is None:
        return ob.post(False)
    status = run.result.status.name
    not_an_int = kind != K_INT or big
    must_report = not_an_int or (non_negative and n < (1 if bug else 0))
    if must_report:
        if not (status == 'VALIDATION_ERROR' and not run.result.has_sds):
            return ob.post(False)
        if not_an_int:
            # the report can be printed by the real reporter (messages are formatted lazily), whatever Python's message holds;
            # (a rejected negative n is left out: the symbolic integer would reach the text layout code)
            from exactly_lib.common import result_reporting
            from exactly_lib.util.file_printer import FilePrinter
            sink = cli.Sink()
            result_reporting.print_error_message_for_full_result(FilePrinter(sink), run.result)
            return ob.post(EXPR in sink.value())
        return ob.post(True)
    return ob.post(status in ('PASS', 'FAIL'))


# ---- K1:range  ill-formed LINE-NUMBER-RANGE expressions, characters symbolic

REAL_K1_RANGE = (
    'exactly_lib.impls.types.string_transformer.impl.filter.line_nums.resolvers._RangeParser',
    'exactly_lib.impls.types.string_transformer.impl.filter.line_nums.resolvers._RangeValidator',
    'exactly_lib.impls.types.string_transformer.impl.filter.line_nums.range_expr',
    'exactly_lib.impls.types.integer.validation.evaluate',
)
K1R_ALPHABET = '1:- x'
STUB_LITERALS = ('python_evaluate as seen from integer.validation: a pure-Python evaluator of the integer literals of the alphabet '
                 '(optional white space, optional `-`, one or more `1`); everything else is NotAnIntegerException (contract: an '
                 'integer literal denotes its integer, other texts of the alphabet are not Python expressions of type int)')


def _literal(s: str):
    """the integer denoted by s, or None: [space]* [-] 1+ [space]*"""
    t = s.strip(' ')
    if t.startswith('-'):
        neg, d = True, t[1:]
    else:
        neg, d = False, t
    if d == '':
        return None
    v = 0
    for ch in d:
        if ch != '1':
            return None
        v = v * 10 + 1
    return -v if neg else v


def _python_evaluate_literals(s: str) -> int:
    from exactly_lib.impls.types.integer.evaluate_integer import NotAnIntegerException
    v = _literal(s)
    if v is None:
        raise NotAnIntegerException(s, 'not a literal')
    return v


def _pre_k1_range(s: str) -> bool:
    if len(s) != ob.case()['n']:
        return False
    for ch in s:
        if ch not in K1R_ALPHABET:
            return False
    return True


def _range_reference(s: str):
    """What the manual says a LINE-NUMBER-RANGE is: INT, INT:, :INT or INT:INT.  -> tuple describing it, or None"""
    if s.strip(' ') == '':
        return None
    parts = s.strip(' ').split(':')
    if len(parts) == 1:
        v = _literal(parts[0])
        return None if v is None else ('single', v)
    if len(parts) != 2:
        return None
    lo, up = parts
    if lo == '' and up == '':
        return None
    if lo == '':
        v = _literal(up)
        return None if v is None else ('upper', v)
    if up == '':
        v = _literal(lo)
        return None if v is None else ('lower', v)
    a, b = _literal(lo), _literal(up)
    if a is None or b is None:
        return None
    return ('both', a, b)


def k1_range(s: str) -> bool:
    """
    pre: _pre_k1_range(s)
    post: _
    """
    from exactly_lib.impls.types.integer import validation, evaluate_integer
    from exactly_lib.impls.types.string_transformer.impl.filter.line_nums import resolvers, range_expr
    validation.python_evaluate = _python_evaluate_literals
    try:
        v = resolvers._RangeValidator(s)
        err = v.validate_pre_sds_if_applicable(None)
        # any exception propagates: the obligation fails
        r = v.range_after_validation
    finally:
        validation.python_evaluate = evaluate_integer.python_evaluate
    exp = _range_reference(s)
    if ob.case().get('oracle_bug') and exp is not None and exp[0] == 'upper':
        exp = None
    if exp is None:
        return ob.post(err is not None and r is None)
    if err is not None or r is None:
        return ob.post(False)
    if exp[0] == 'single':
        return ob.post(isinstance(r, range_expr.SingleLineRange) and r.line_number == exp[1])
    if exp[0] == 'lower':
        return ob.post(isinstance(r, range_expr.LowerLimitRange) and r.lower_limit == exp[1])
    if exp[0] == 'upper':
        return ob.post(isinstance(r, range_expr.UpperLimitRange) and r.upper_limit == exp[1])
    return ob.post(isinstance(r, range_expr.LowerAndUpperLimitRange) and r.lower_limit == exp[1] and r.upper_limit == exp[2])


# =========================================================================== K2  the net around instruction parsers

REAL_K2 = (
    'exactly_lib.section_document.element_parsers.parser_for_dictionary_of_instructions.InstructionParserForDictionaryOfInstructions.parse',
    'exactly_lib.section_document.element_parsers.parser_for_dictionary_of_instructions.InstructionParserForDictionaryOfInstructions._parse',
    'exactly_lib.section_document.element_parsers.parser_for_dictionary_of_instructions.InstructionParserForDictionaryOfInstructions._extract_name',
    'exactly_lib.section_document.element_parsers.parser_for_dictionary_of_instructions.InstructionParserForDictionaryOfInstructions._lookup_parser',
    'exactly_lib.section_document.element_parsers.parser_for_dictionary_of_instructions._ErrMsgSourceConstructor',
    'exactly_lib.section_document.element_parsers.instruction_parser_exceptions.InvalidInstructionArgumentException',
    'exactly_lib.section_document.element_parsers.instruction_parser_exceptions.ArgumentParsingImplementationException',
    'exactly_lib.section_document.element_parsers.instruction_parser_exceptions.UnknownInstructionException',
    'exactly_lib.section_document.element_parsers.instruction_parser_exceptions.InvalidInstructionSyntaxException',
    'exactly_lib.section_document.section_element_parsing.RecognizedSectionElementSourceError',
    'exactly_lib.section_document.section_element_parsing.UnrecognizedSectionElementSourceError',
    'exactly_lib.section_document.parse_source.ParseSource',
    'exactly_lib.common.instruction_name_and_argument_splitter.splitter',
)
K2_ALPHABET = 'ix \n'
K2_LEAD = 'lead\n'
STUB_K2_PARSER = ('stub instruction parser registered under the name `i`: consumes a symbolic number of whole lines and of '
                  'characters of the then current line, then returns / raises SingleInstructionInvalidArgumentException / raises an '
                  'exception of the catalogue')
# how the stub parser ends
E_RETURN, E_INVALID_ARGUMENT, E_RAISE = 0, 1, 2


def _pre_k2(t: str, n_lines: int, n_chars: int, how: int, sel: int) -> bool:
    c = ob.case()
    if len(t) != c['n']:
        return False
    for ch in t:
        if ch not in K2_ALPHABET:
            return False
    if not (0 <= n_lines <= 2 and 0 <= n_chars <= len(t) + 1 and 0 <= how <= 2):
        return False
    if how == E_RAISE:
        if not (0 <= sel < exc.N) or ob.pick(exc.NAMES, sel) not in _exc_names(c):
            return False
    elif sel != 0:
        return False
    return True


def _k2_expected_lines(rest: str, consumed: int):
    """Reference: the source lines of an instruction error, from positions.  `rest` is the text from the start of the
    instruction's line; `consumed` characters of it were consumed when the error was raised.  The lines are those that
    have a consumed character (the last one only as far as consumed), without trailing white space; always at
    least the whole first line."""
    lines = rest.split('\n')
    if consumed < len(lines[0]):
        return [lines[0]]
    out = []
    start = 0
    for line in lines:
        if start >= consumed and out:
            break
        end = start + len(line)
        out.append(line if end <= consumed else line[:consumed - start])
        start = end + 1
    while len(out) > 1 and out[-1].strip() == '':
        out.pop()
    out[-1] = out[-1].rstrip()
    return out


def k2_dictionary_parser(t: str, n_lines: int, n_chars: int, how: int, sel: int) -> bool:
    """
    pre: _pre_k2(t, n_lines, n_chars, how, sel)
    post: _
    """
    from exactly_lib.common import instruction_name_and_argument_splitter
    from exactly_lib.section_document import model
    from exactly_lib.section_document.element_parsers import instruction_parser_exceptions as ipe
    from exactly_lib.section_document.element_parsers import parser_for_dictionary_of_instructions as sut
    from exactly_lib.section_document.element_parsers.section_element_parsers import InstructionParser
    from exactly_lib.section_document.parse_source import ParseSource
    from exactly_lib.section_document.section_element_parsing import RecognizedSectionElementSourceError, \
        UnrecognizedSectionElementSourceError
    c = ob.case()
    how = ob.concrete_int(how, 0, 2)
    n_lines = ob.concrete_int(n_lines, 0, 2)
    bug = c.get('oracle_bug')
    the_exception = exc.instance(ob.pick(exc.NAMES, sel)) if how == E_RAISE else None
    the_instruction = model.Instruction()
    state = {}

    class Stub(InstructionParser):
        def parse(self, fs_location_info, source):
            state['at_entry'] = source.remaining_source
            for _ in range(n_lines):
                if source.is_at_eof or not source.has_current_line:
                    break
                source.consume_current_line()
            if source.has_current_line and not source.is_at_eof:
                k = n_chars
                avail = len(source.remaining_part_of_current_line)
                if k > avail:
                    k = avail
                source.consume_part_of_current_line(k)
            state['at_exit'] = source.remaining_source
            if how == E_RETURN:
                return the_instruction
            if how == E_INVALID_ARGUMENT:
                raise ipe.SingleInstructionInvalidArgumentException('stub: invalid argument')
            raise the_exception

    text = K2_LEAD + c['prefix'] + t
    source = ParseSource(text)
    source.consume_current_line()  # the instruction starts on line 2
    rest = text[len(K2_LEAD):]
    parser = sut.InstructionParserForDictionaryOfInstructions(
        instruction_name_and_argument_splitter.splitter, {'i': Stub()})
    first_line = rest.split('\n')[0]
    try:
        got = parser.parse(None, source)
        err = None
    except (RecognizedSectionElementSourceError, UnrecognizedSectionElementSourceError) as e:
        got, err = None, e
    # any other exception propagates: the obligation fails
    name = instruction_name_and_argument_splitter.splitter(first_line) if first_line.strip() != '' else None
    if 'at_entry' not in state:
        # the stub parser was not reached: the line does not name the instruction `i`
        if name == 'i' or err is None:
            return ob.post(False)
        ok = (isinstance(err, UnrecognizedSectionElementSourceError)
              and err.source.first_line_number == 2 and list(err.source.lines) == [first_line])
        return ob.post(ok)
    if name != 'i':
        return ob.post(False)
    if how == E_RETURN:
        return ob.post(err is None and got is the_instruction)
    if err is None:
        return ob.post(False)
    consumed = len(rest) - len(state['at_exit'])
    exp_lines = _k2_expected_lines(rest, consumed)
    if bug:
        exp_lines = exp_lines[:1]
    src_ok = err.source.first_line_number == 2 and list(err.source.lines) == exp_lines
    if how == E_INVALID_ARGUMENT:
        return ob.post(src_ok and isinstance(err, ipe.InvalidInstructionArgumentException) and err.instruction_name == 'i'
                       and err.error_message == 'stub: invalid argument' and err.message == 'stub: invalid argument')
    return ob.post(src_ok and isinstance(err, ipe.ArgumentParsingImplementationException) and err.instruction_name == 'i'
                   and err.message == str(the_exception))


# =========================================================================== K3  regular expressions, replace

REAL_K3 = (
    'exactly_lib.impls.types.regex.parse_regex.ParserOfRegex.parse_from_token_parser',
    'exactly_lib.impls.types.regex.parse_regex._RegexSdv',
    'exactly_lib.impls.types.regex.parse_regex._RegexDdv',
    'exactly_lib.impls.types.regex.parse_regex._ValidatorWhichCreatesRegex',
    'exactly_lib.impls.types.regex.regex_ddv.RegexDdv',
)
REAL_K3_REPLACE = REAL_K3 + (
    'exactly_lib.impls.types.string_transformer.impl.replace.setup.ParserOfReplace.parse',
    'exactly_lib.impls.types.string_transformer.impl.replace.impl.Sdv',
    'exactly_lib.impls.types.string_transformer.impl.replace.impl._Ddv',
    'exactly_lib.impls.types.string_transformer.impl.replace.impl._Adv',
    'exactly_lib.impls.types.string_transformer.impl.replace.impl._ReplaceStringTransformer',
    'exactly_lib.impls.types.string_transformer.impl.replace.impl._StrReplacerIncludingNewLines',
    'exactly_lib.impls.types.string_transformer.impl.replace.impl._StrReplacerExcludingNewLines',
    'exactly_lib.impls.types.string_transformer.impl.replace.impl._lines_iterator_from_replacements',
    'exactly_lib.impls.types.string_transformer.parse_string_transformer.parsers',
)
STUB_RE = ('module `re` as seen from parse_regex: IGNORECASE is the real flag, compile(pattern, flags) records its arguments and '
           'returns a marker object or raises an exception of the catalogue (contract: compiling may raise anything)')


class _ReStub:
    def __init__(self):
        import re
        self.IGNORECASE = re.IGNORECASE
        self.calls = []
        self.to_raise = None
        self.pattern = object()

    def compile(self, pattern, flags=0):
        self.calls.append((pattern, flags))
        if self.to_raise is not None:
            raise self.to_raise
        return self.pattern

    def __getattr__(self, name):
        # everything else (error, Pattern, flags ...) is the real module's
        import re
        return getattr(re, name)


REGEX_SOURCES = ("'a+b'", 'x', '"q q"', '<<EOF\n^l$\nEOF\n', ':> a b  ')
REGEX_VALUES = ('a+b', 'x', 'q q', '^l$\n', 'a b')


def _pre_k3_stub(raises: bool, sel: int, ignore_case: bool, src: int) -> bool:
    if not (0 <= src < len(REGEX_SOURCES)):
        return False
    if raises:
        return 0 <= sel < exc.N and ob.pick(exc.NAMES, sel) in _exc_names(ob.case())
    return sel == 0


def k3_regex_validator(raises: bool, sel: int, ignore_case: bool, src: int) -> bool:
    """
    pre: _pre_k3_stub(raises, sel, ignore_case, src)
    post: _
    """
    import re
    from exactly_lib.impls.types.regex import parse_regex
    from exactly_lib.section_document.element_parsers.token_stream_parser import new_token_parser
    from exactly_lib.util.symbol_table import SymbolTable
    raises = ob.concrete_bool(raises)
    ignore_case = ob.concrete_bool(ignore_case)
    si = ob.concrete_int(src, 0, len(REGEX_SOURCES) - 1)
    stub = _ReStub()
    if raises:
        stub.to_raise = exc.instance(ob.pick(exc.NAMES, sel))
    bug = ob.case().get('oracle_bug')
    parse_regex.re = stub
    try:
        text = ('-ignore-case ' if ignore_case else '') + REGEX_SOURCES[si]
        sdv = parse_regex.ParserOfRegex().parse_from_token_parser(new_token_parser(text))
        ddv = sdv.resolve(SymbolTable())
        validator = ddv.validator()
        err = validator.validate_pre_sds_if_applicable(None)
        want_call = (REGEX_VALUES[si], (0 if bug else re.IGNORECASE) if ignore_case else 0)
        if stub.calls != [want_call]:
            return ob.post(False)
        if raises:
            # reported by the validator (before the sandbox exists, or at the latest after); never propagated
            err2 = validator.validate_post_sds_if_applicable(None)
            return ob.post(err is not None or err2 is not None)
        if err is not None or validator.validate_post_sds_if_applicable(None) is not None:
            return ob.post(False)
        # compiled once; the value is what compile returned
        return ob.post(ddv.value_when_no_dir_dependencies() is stub.pattern and ddv.value_of_any_dependency(None) is stub.pattern
                       and stub.calls == [want_call])
    finally:
        parse_regex.re = re


# catalogues of the replace kernel (real `re`)
RX = ('a', '(a)(b)?', '(?P<n>x)|y', 'a*', '', '[', '(', 'a{2,1}', '*', '(?P<n>a)(?P<n>b)', '\\', '(?i)A', 'b$', '.')
REPL = ('X', '', '\\1', '\\2', '\\g<n>', '\\g<0>', '\\g<1', '\\g<m>', '\\', 'a\\', '\\6', '\\n', '\\&', '\\g<-1>', '\\g<1>x\\0', '\\x')
TEXTS = ('', 'ab\n', 'a\nb', 'xay\n\nb', '\n', 'aab')


def _compiles(rx: str) -> bool:
    import re
    try:
        re.compile(rx)
        return True
    except Exception:  # noqa: "does not compile" is whatever re says
        return False


def _template_ok(rx: str, repl: str) -> bool:
    """re's own verdict on the replacement template for this pattern (decided on a text the pattern matches, so that
    the template is actually expanded)"""
    import re
    p = re.compile(rx)
    for probe in TEXTS + ('x', 'y', 'A', 'b'):
        try:
            p.sub(repl, probe)
        except Exception:  # noqa
            return False
    return True


RX_QUICK = ('a', '(a)(b)?', '(?P<n>x)|y', '', '[', '(', 'a{2,1}', '\\')
REPL_QUICK = ('X', '\\1', '\\g<n>', '\\6', '\\')
TEXTS_QUICK = ('ab\n', 'a\nb')


def _pre_k3_replace(r: int, p: int, t: int, preserve: bool, selection: bool) -> bool:
    if not (0 <= r < len(RX) and 0 <= p < len(REPL) and 0 <= t < len(TEXTS)):
        return False
    c = ob.case()
    lo, hi = c['rx']
    if not (lo <= r < hi):
        return False
    if c.get('quick'):
        # (round 6: `-at LINE-MATCHER` is part of the quick tier too: C18-r6m1 dropped the regex validator when it is present)
        if ob.pick(RX, r) not in RX_QUICK or ob.pick(REPL, p) not in REPL_QUICK or ob.pick(TEXTS, t) not in TEXTS_QUICK:
            return False
    if ob.excluded(REGION_REPLACE_TEMPLATE):
        rx, repl = ob.pick(RX, r), ob.pick(REPL, p)
        if _compiles(rx) and not _template_ok(rx, repl):
            # known finding: a replacement string that is not a valid template for the pattern is not validated
            return False
    return True


def _quote(s: str) -> str:
    return "'" + s + "'"


def k3_replace(r: int, p: int, t: int, preserve: bool, selection: bool) -> bool:
    """
    pre: _pre_k3_replace(r, p, t, preserve, selection)
    post: _
    """
    rx, repl, text = ob.pick(RX, r), ob.pick(REPL, p), ob.pick(TEXTS, t)
    preserve = ob.concrete_bool(preserve)
    selection = ob.concrete_bool(selection)
    bug = bool(ob.case().get('oracle_bug'))
    # everything is concrete from here on: the real code and the real `re` run natively (CrossHair's own model of
    # re.sub / Match.expand must not stand in for the engine: it does not raise as the engine does)
    with cli.no_tracing():
        verdict = _k3_replace_concrete(rx, repl, text, preserve, selection, bug)
    return ob.post(verdict)


def _k3_replace_concrete(rx: str, repl: str, text: str, preserve: bool, selection: bool, bug: bool) -> bool:
    import re
    from harness import C13
    from vsym import xly
    from exactly_lib.impls.types.string_source import constant_str
    from exactly_lib.impls.types.string_transformer import parse_string_transformer
    from exactly_lib.section_document.element_parsers.token_stream_parser import new_token_parser
    from exactly_lib.test_case.app_env import ApplicationEnvironment
    from exactly_lib.test_case.hard_error import HardErrorException
    src = 'replace %s%s%s %s' % ('-at line-num >= 1 ' if selection else '', '-preserve-new-lines ' if preserve else '',
                                 _quote(rx), _quote(repl))
    sdv = parse_string_transformer.parsers(False).full.parse_from_token_parser(new_token_parser(src))
    ddv = sdv.resolve(xly.symbol_table({}))
    err = ddv.validator.validate_pre_sds_if_applicable(None)
    if err is None:
        err = ddv.validator.validate_post_sds_if_applicable(None)
    if not _compiles(rx) or bug:
        # a regular expression that does not compile is reported by validation
        return err is not None
    if err is not None:
        # validation may also reject the replacement string - but only one that re rejects
        return not _template_ok(rx, repl)
    space = C13._NoFiles()
    tr = ddv.value_of_any_dependency(None).primitive(ApplicationEnvironment(None, None, space, 2 ** 20))
    pattern = re.compile(rx)
    parts = text.split('\n')
    lines_in = [x + '\n' for x in parts[:-1]] + ([parts[-1]] if parts[-1] != '' else [])
    try:
        result = tr.transform(constant_str.string_source(text, space))
        with result.contents().as_lines as lines:
            out = ''.join(lines)
    except HardErrorException:
        # "at the latest as HARD_ERROR when the instruction runs" - but only for a template that re rejects on this text
        return _raises_on(pattern, repl, lines_in, preserve)
    # any other exception propagates: the obligation fails
    if _raises_on(pattern, repl, lines_in, preserve):
        return False  # the engine rejects the template on this text: that must have been reported
    exp = ''
    for line in lines_in:
        if preserve and line.endswith('\n'):
            exp += pattern.sub(repl, line[:-1]) + '\n'
        else:
            exp += pattern.sub(repl, line)
    return out == exp


def _raises_on(pattern, repl: str, lines_in, preserve: bool) -> bool:
    """re's own verdict: does substituting in these lines raise?"""
    for line in lines_in:
        subject = line[:-1] if (preserve and line.endswith('\n')) else line
        try:
            pattern.sub(repl, subject)
        except Exception:  # noqa: whatever re says
            return True
    return False


# =========================================================================== K5  the last-resort nets

REAL_K5 = (
    'exactly_lib.execution.impl.single_instruction_executor.execute_element',
    'exactly_lib.execution.impl.phase_step_execution.execute_phase_prim',
    'exactly_lib.execution.impl.phase_step_execution.execute_phase',
    'exactly_lib.execution.impl.phase_step_execution.run_instructions_phase_step',
    'exactly_lib.execution.impl.phase_step_execution.execute_action_and_catch_internal_error_exception',
    'exactly_lib.execution.impl.phase_step_execution.PhaseStepFailureResultConstructor',
    'exactly_lib.execution.full_execution.execution.execute',
    'exactly_lib.execution.partial_execution.impl.executor._PartialExecutor.execute',
    'exactly_lib.common.result_reporting.print_error_message_for_full_result',
    'exactly_lib.common.result_reporting.print_major_blocks',
    'exactly_lib.processing.exit_values.from_full_result',
)
REAL_K5_PROC = (
    'exactly_lib.processing.processing_utils.ProcessorFromAccessorAndExecutor.apply',
    'exactly_lib.processing.processing_utils.AccessorFromParts.apply',
    'exactly_lib.processing.processing_utils.AccessorFromParts._apply',
    'exactly_lib.processing.exit_values.from_result',
    'exactly_lib.processing.standalone.result_reporting.TestCaseResultReporter.report',
    'exactly_lib.common.result_reporting.print_error_info',
    'exactly_lib.common.result_reporting.print_major_blocks',
)
K5_N = (1, 1, 1, 1, 1)
_K5_CELLS = []


def _k5_cells():
    if not _K5_CELLS:
        from harness import C01
        cells = [c for c, fam in C01.canonical(K5_N)]
        for c in (('ba', 'main', 0), ('assert', 'main', 0), ('cleanup', 'main', 0)):
            if c not in cells:
                cells.append(c)
        _K5_CELLS.extend(cells)
    return _K5_CELLS


HARD = 'HardErrorException'


K5_QUICK_CELLS = (('conf', 'main', 0), ('act', 'parse', 0), ('setup', 'sym', 0), ('assert', 'pre', 0), ('setup', 'main', 0),
                  ('ba', 'post', 0), ('act', 'prepare', 0), ('act', 'execute', 0), ('ba', 'main', 0), ('assert', 'main', 0),
                  ('cleanup', 'main', 0))


def _pre_k5_exe(cell: int, sel: int) -> bool:
    c = ob.case()
    lo, hi = c['cells']
    if not (lo <= cell < hi and -1 <= sel < exc.N):
        return False
    if c.get('quick') and ob.pick(_k5_cells(), cell) not in K5_QUICK_CELLS:
        return False
    if sel >= 0 and ob.pick(exc.NAMES, sel) not in _exc_names(c):
        return False
    return True


def k5_executor(cell: int, sel: int) -> bool:
    """
    pre: _pre_k5_exe(cell, sel)
    post: _
    """
    from vsym import exeharness as xh
    from exactly_lib.common import result_reporting
    from exactly_lib.processing import exit_values
    from exactly_lib.test_case.hard_error import HardErrorException
    from exactly_lib.util.file_printer import FilePrinter
    target = ob.pick(_k5_cells(), cell)
    sel = ob.concrete_int(sel, -1, exc.N - 1)
    bug = ob.case().get('oracle_bug')
    if sel < 0:
        the_exception = HardErrorException(xh._text('vsym hard error'))
    else:
        the_exception = exc.instance(exc.NAMES[sel])

    def observer(c, env, ctx):
        if c == target:
            raise the_exception

    plan = xh.Plan(lambda c: 0, observer)
    run = xh.execute(plan, xh.stub_test_case(plan, K5_N, None))
    if run.exception is not None or run.result is None:
        return ob.post(False)
    if target not in run.trace:
        return ob.post(False)
    status = run.result.status.name
    want = 'HARD_ERROR' if (sel < 0 and not bug) else 'INTERNAL_ERROR'
    if status != want:
        return ob.post(False)
    # the outcome can be reported: exit code and message by the real reporter, no exception on the way
    sink = cli.Sink()
    result_reporting.print_error_message_for_full_result(FilePrinter(sink), run.result)
    ev = exit_values.from_full_result(run.result.status)
    msg = sink.value()
    # ... and the message carries what the failing step said
    return ob.post(ev.exit_code == cli.OUTCOMES[want] and ev.exit_identifier == want
                   and ('vsym hard error' if sel < 0 else 'vsym injected') in msg)


UNITS = ('execute_element', 'catch_internal_error')
# what the wrapped action does
A_OK, A_RAISE, A_HARD, A_FAILURE_INFO = 0, 1, 2, 3


def _pre_k5_unit(unit: int, action: int, sel: int) -> bool:
    if not (0 <= unit < len(UNITS) and 0 <= action <= 3):
        return False
    if action == A_RAISE:
        return 0 <= sel < exc.N
    if action == A_FAILURE_INFO:
        return 0 <= sel <= 2
    return sel == 0


def k5_unit(unit: int, action: int, sel: int) -> bool:
    """
    pre: _pre_k5_unit(unit, action, sel)
    post: _
    """
    from vsym import exeharness as xh
    from exactly_lib.execution.impl import phase_step_execution as pse
    from exactly_lib.execution.impl import single_instruction_executor as sie
    from exactly_lib.execution import phase_step
    from exactly_lib.execution.result import ExecutionFailureStatus, PhaseStepFailureException
    from exactly_lib.test_case.hard_error import HardErrorException
    unit_name = ob.pick(UNITS, unit)
    action = ob.concrete_int(action, 0, 3)
    bug = ob.case().get('oracle_bug')
    the_exception = exc.instance(ob.pick(exc.NAMES, sel)) if action == A_RAISE else None
    statuses = (sie.PartialControlledFailureEnum.VALIDATION_ERROR, sie.PartialControlledFailureEnum.FAIL,
                sie.PartialControlledFailureEnum.HARD_ERROR)

    def act():
        if action == A_RAISE:
            raise the_exception
        if action == A_HARD:
            raise HardErrorException(xh._text('vsym hard error'))
        if action == A_FAILURE_INFO and unit_name == 'execute_element':
            return sie.PartialInstructionControlledFailureInfo(ob.pick(statuses, sel), xh._text('vsym failure'))
        return None

    if unit_name == 'execute_element':
        class Executor(sie.ControlledInstructionExecutor):
            def apply(self, instruction):
                return act()

        plan = xh.Plan(lambda c: 0)
        el = xh.element(xh.SetupStub(plan, 0), 7, 'the-source-line')
        res = sie.execute_element(Executor(), el, el.instruction_info)
        if action == A_OK:
            return ob.post(res is None)
        if res is None:
            return ob.post(False)
        loc_ok = (res.source_location_path is el.source_location_info.source_location_path)
        if action == A_RAISE:
            d = res.failure_details
            return ob.post(loc_ok and res.status is (ExecutionFailureStatus.HARD_ERROR if bug else ExecutionFailureStatus.INTERNAL_ERROR)
                           and d.exception is the_exception)
        if action == A_HARD:
            return ob.post(loc_ok and res.status is ExecutionFailureStatus.HARD_ERROR)
        want = (ExecutionFailureStatus.VALIDATION_ERROR, ExecutionFailureStatus.FAIL, ExecutionFailureStatus.HARD_ERROR)
        return ob.post(loc_ok and res.status is ob.pick(want, sel))
    # execute_action_and_catch_internal_error_exception
    con = pse.PhaseStepFailureResultConstructor(phase_step.ACT__EXECUTE, 'actor-name', 'phase source')
    passed_through = None
    if action == A_FAILURE_INFO:
        passed_through = PhaseStepFailureException(con.apply(ob.pick(
            (ExecutionFailureStatus.VALIDATION_ERROR, ExecutionFailureStatus.FAIL, ExecutionFailureStatus.HARD_ERROR), sel),
            xh.FailureDetails.new_constant_message('vsym')))

    def act2():
        if passed_through is not None:
            raise passed_through
        act()
        return 'the-value'

    try:
        v = pse.execute_action_and_catch_internal_error_exception(act2, con)
        failure = None
    except PhaseStepFailureException as e:
        v, failure = None, e
    # any other exception propagates: the obligation fails
    if action == A_OK:
        return ob.post(failure is None and v == 'the-value')
    if failure is None:
        return ob.post(False)
    if action == A_FAILURE_INFO:
        return ob.post(failure is passed_through)
    st = failure.failure.status
    if action == A_HARD:
        return ob.post(st is ExecutionFailureStatus.HARD_ERROR)
    fd = failure.failure.failure_info.failure_details
    return ob.post(st is (ExecutionFailureStatus.HARD_ERROR if bug else ExecutionFailureStatus.INTERNAL_ERROR)
                   and fd.exception is the_exception)


STAGES = ('read', 'preprocess', 'parse', 'transform', 'execute')


def _pre_k5_proc(stage: int, sel: int) -> bool:
    return 0 <= stage < len(STAGES) and 0 <= sel < exc.N and ob.pick(exc.NAMES, sel) in _exc_names(ob.case())


def k5_processor(stage: int, sel: int) -> bool:
    """
    pre: _pre_k5_proc(stage, sel)
    post: _
    """
    import pathlib
    from vsym import exeharness as xh
    from exactly_lib.common.process_result_reporter import Environment
    from exactly_lib.processing import processing_utils as pu, test_case_processing as tcp, exit_values
    from exactly_lib.processing.standalone import result_reporting as srr
    from exactly_lib.processing.standalone.settings import ReportingOption
    from exactly_lib.processing.test_case_handling_setup import TestCaseTransformer
    from exactly_lib.util.file_utils.std import StdOutputFiles
    st = ob.pick(STAGES, stage)
    name = ob.pick(exc.NAMES, sel)
    the_exception = exc.instance(name)
    bug = ob.case().get('oracle_bug')
    log = []

    def at(s):
        log.append(s)
        if s == st:
            raise the_exception

    plan = xh.Plan(lambda cell: 0)
    doc = xh.stub_test_case(plan, (0, 0, 0, 0, 0), None)

    class Reader(pu.SourceReader):
        def apply(self, test_case_file_path):
            at('read')
            return 'source'

    class Pre(tcp.Preprocessor):
        def apply(self, test_case_file_path, test_case_source):
            at('preprocess')
            return test_case_source

    class Parser(pu.Parser):
        def apply(self, test_case, test_case_plain_source):
            at('parse')
            return doc

    class Transformer(TestCaseTransformer):
        def transform(self, test_case):
            at('transform')
            return test_case

    class Executor(pu.Executor):
        def apply(self, test_case_file_path, test_case):
            at('execute')
            raise AssertionError('not reached')

    processor = pu.ProcessorFromAccessorAndExecutor(pu.AccessorFromParts(Reader(), Pre(), Parser(), Transformer()), Executor())
    result = processor.apply(tcp.TestCaseFileReference(pathlib.Path('/vsym/x.case'), pathlib.Path('/vsym')))
    if log != list(STAGES[:STAGES.index(st) + 1]):
        return ob.post(False)
    if result.status is not tcp.Status.INTERNAL_ERROR or result.error_info is None:
        return ob.post(False)
    out, err = cli.Sink(), cli.Sink()
    reporter = srr.RESULT_REPORTERS[ReportingOption.STATUS_CODE](Environment.new_plain(StdOutputFiles(out, err)))
    rc = reporter.report(result)
    return ob.post(rc == (0 if bug else 129) and out.value() == 'INTERNAL_ERROR\n'
                   and exit_values.from_result(result).exit_identifier == 'INTERNAL_ERROR'
                   and (type(the_exception).__name__ in err.value() or 'vsym injected' in err.value()))


# =========================================================================== K6  the whole program on mutated test cases

REAL_CLI = (
    'exactly_lib.cli.main_program.MainProgram.execute',
    'exactly_lib.processing.standalone.processor.Processor.process',
    'exactly_lib.processing.standalone.result_reporting.TestCaseResultReporter.report',
    'exactly_lib.processing.processors._Parser.apply',
    'exactly_lib.processing.processors._ParseErrorHandler',
    'exactly_lib.processing.processors._SourceReader.apply',
    'exactly_lib.processing.processors._Executor.apply',
    'exactly_lib.processing.processing_utils.ProcessorFromAccessorAndExecutor.apply',
    'exactly_lib.processing.processing_utils.AccessorFromParts.apply',
    'exactly_lib.processing.exit_values.from_result',
    'exactly_lib.section_document.element_parsers.parser_for_dictionary_of_instructions.InstructionParserForDictionaryOfInstructions',
    'exactly_lib.section_document.element_parsers.parser_for_dictionary_of_instructions._ErrMsgSourceConstructor',
    'exactly_lib.section_document.element_parsers.instruction_parser_exceptions',
    'exactly_lib.section_document.exceptions.FileSourceError',
    'exactly_lib.section_document.exceptions.FileAccessError',
    'exactly_lib.section_document.impl.document_parser',
    'exactly_lib.execution.impl.single_instruction_executor.execute_element',
    'exactly_lib.execution.impl.phase_step_execution.execute_phase_prim',
    'exactly_lib.execution.impl.phase_step_execution.execute_action_and_catch_internal_error_exception',
    'exactly_lib.execution.impl.symbol_validation.validate_symbol_usages',
    'exactly_lib.impls.types.integer.evaluate_integer.python_evaluate',
    'exactly_lib.impls.types.integer.integer_sdv.IntegerSdv',
    'exactly_lib.impls.types.integer.integer_ddv.IntegerDdv',
    'exactly_lib.impls.types.integer.validation.evaluate',
    'exactly_lib.impls.types.regex.parse_regex.ParserOfRegex',
    'exactly_lib.impls.types.regex.parse_regex._ValidatorWhichCreatesRegex',
    'exactly_lib.impls.types.string_transformer.impl.replace.setup.ParserOfReplace',
    'exactly_lib.impls.types.string_transformer.impl.replace.impl._ReplaceStringTransformer',
    'exactly_lib.impls.types.glob_pattern.parse',
    'exactly_lib.impls.types.matcher.impls.matches_glob_pattern.MatchesGlobPattern',
    'exactly_lib.common.result_reporting.print_error_message_for_full_result',
    'exactly_lib.common.result_reporting.print_error_info',
    'exactly_lib.common.result_reporting.print_major_blocks',
    'exactly_lib.cli_default.program_modes.test_case.default_instructions_setup.INSTRUCTIONS_SETUP',
)
REPORTED = ('SYNTAX_ERROR', 'VALIDATION_ERROR', 'HARD_ERROR')

_MUT = {}


def _mutants(level: int):
    if level not in _MUT:
        _MUT[level] = g.all_mutants(level)
    return _MUT[level]


def _shows(stderr: str, path: str, line_number, source_line: str) -> bool:
    """the error message names the file and the line, and quotes the line"""
    return ('%s, line %d\n' % (path, line_number)) in stderr and ('\n  ' + source_line.strip()) in stderr


def documented_outcome(r) -> bool:
    """one of the documented outcomes, reported the documented way, and not the internal-error one"""
    ident = r['ident']
    return (r['exc'] is None and ident in cli.OUTCOMES and cli.OUTCOMES[ident] == r['rc'] and r['stdout'] == ident + '\n'
            and ident != 'INTERNAL_ERROR' and 'Traceback' not in r['stderr'])


# ---- the STATUS of the test case (`[conf] status = PASS | FAIL | SKIP`) as a dimension of every whole-program catalogue.
# Added in round 5 (reported by the author of a seeded change: with status FAIL a validation error became XPASS).
# What the help says (configuration parameter `status`): PASS - "executed and the assert phase is expected to PASS" (the
# default); FAIL - "executed and the assert phase is expected to FAIL.  Outcome is XFAIL if assert FAILs.  If assert PASSes, the
# result is XPASS"; SKIP - "the test case is not executed.  Outcome is SKIPPED".  Nothing else depends on the status: a
# mistake is the same mistake, reported the same way, whatever the status - except that a test case that is not executed
# (SKIP) only shows the mistakes that are found by reading it.
STATUS = (None, 'PASS', 'FAIL', 'SKIP')
ST_NONE, ST_PASS, ST_FAIL, ST_SKIP = 0, 1, 2, 3
_STATUS_LINES = 2


def _with_status(text: str, st: int) -> str:
    """the test case with the status set, in a [conf] section of its own before everything else"""
    return '[conf]\nstatus = %s\n' % STATUS[st] + text


def _status_applicable(text: str) -> bool:
    """lines before the first header belong to the default phase: a section put in front would give them to [conf]"""
    return text.startswith('[')


def _normalised_report(r, shift: int):
    """(identifier, exit code, message) with the scratch directory of the run replaced by a fixed word and the line numbers of
    the test case file lowered by `shift`"""
    import re
    work = r['path'].rsplit('/h/case/', 1)[0]
    err = r['stderr'].replace(work, '<work>')
    if shift:
        err = re.sub(r'(?m)^(<work>/h/case/t\.case, line )(\d+)$', lambda m: m.group(1) + str(int(m.group(2)) - shift), err)
    return r['ident'], r['rc'], err


def _found_by_reading_the_file(r) -> bool:
    """the outcome is a mistake found when the file is read: it names a line of a file and nothing was set up"""
    return r['ident'] in ('SYNTAX_ERROR', 'FILE_ACCESS_ERROR', 'PRE_PROCESS_ERROR') and (r['path'] + ', line ') in r['stderr']


def status_relation(st: int, base, r, bug: bool = False) -> bool:
    """`base`: the outcome of a test case without a status line; `r`: the outcome of the same test case with the status st"""
    if not documented_outcome(r):
        return False
    ident, rc, message = _normalised_report(r, _STATUS_LINES)
    base_ident, base_rc, base_message = _normalised_report(base, 0)
    # (the message of a failing assertion describes what it found - which may be the test case file itself, now two lines
    # longer: it is not compared)
    same_message = base_ident == 'FAIL' or message == base_message
    same_actions = r['process_starts'] == base['process_starts'] and r['sandboxes'] == base['sandboxes']
    same = ident == base_ident and rc == base_rc and same_message and same_actions
    if st == ST_PASS:
        return same
    if st == ST_FAIL:
        if base_ident in ('PASS', 'FAIL') or (bug and base_ident != 'SYNTAX_ERROR'):
            # seeded oracle error: "expected to fail: either it fails, or it unexpectedly passes"
            return ident == ('XFAIL' if base_ident == 'FAIL' else 'XPASS') and rc == 33 and same_message and same_actions
        return same
    # SKIP: not executed
    if r['process_starts'] != 0 or r['sandboxes'] != 0:
        return False
    if _found_by_reading_the_file(base):
        return same
    if ident == 'SKIPPED':
        return rc == 0 and message == ''
    # the configuration phase is what sets the status: a mistake that shows there may still show
    return same and 'In [conf]\n' in base_message


_BASE_RUNS = {}


def _run_base(text: str):
    """the outcome of the test case without a status line; kept per process (keyed on the concrete text): every status is
    compared with it"""
    if text not in _BASE_RUNS:
        if len(_BASE_RUNS) > 200:
            _BASE_RUNS.clear()
        _BASE_RUNS[text] = cli.run_cli(text)
    return _BASE_RUNS[text]


def _pre_k6(i: int, st: int) -> bool:
    c = ob.case()
    lo, hi = c['range']
    if not (lo <= i < hi and 0 <= st < len(STATUS)):
        return False
    if c.get('status_sample') and (st == ST_PASS or st == ST_SKIP) and i % 4 != st:
        return False  # quick tier: no status and FAIL for every mutant, PASS and SKIP for every fourth
    m = ob.pick(_mutants(c['level'])[lo:hi], i - lo)
    for region in g.regions_of(m[1], m[3]):
        if ob.excluded(region):
            return False
    return True


def k6_cli(i: int, st: int) -> bool:
    """
    pre: _pre_k6(i, st)
    post: _
    """
    c = ob.case()
    lo, hi = c['range']
    bi, name, phase, text, act, exp, use = ob.pick(_mutants(c['level'])[lo:hi], i - lo)
    st = ob.concrete_int(st, 0, len(STATUS) - 1)
    if c.get('oracle_bug') == 'all-are-mistakes':
        exp = g.MISTAKE  # seeded oracle error: every mutant is claimed to be a mistake
    case, first, use_line = g.case_text(phase, text, act, use=use)
    if st != ST_NONE:
        # the same test case with a status: the outcome without one (judged in the path st = none) is carried over
        return ob.post(status_relation(st, _run_base(case), cli.run_cli(_with_status(case, st)), c.get('oracle_bug') == 'status'))
    r = _run_base(case)
    if not documented_outcome(r):
        return ob.post(False)
    ident, err = r['ident'], r['stderr']
    if exp == g.MISTAKE:
        if ident not in REPORTED:
            return ob.post(False)
        # ... with the offending source lines: the instruction, or the instruction that uses the defined symbol,
        # or (act phase, actor) the source of the act phase
        first_line = text.split('\n')[0]
        shown = (_shows(err, r['path'], first, first_line)
                 or (use is not None and _shows(err, r['path'], use_line, use[1]))
                 or ('In [act]\n' in err and (phase in ('act', 'conf'))
                     and ('  ' + (first_line if phase == 'act' else act).strip() + '\n') in err))
        return ob.post(shown)
    if ident in REPORTED or ident in cli.NOT_EXECUTED:
        # whatever was found wrong, the report says where
        return ob.post((r['path'] + ', line ') in err or 'In [act]\n' in err)
    return ob.post(True)


# =========================================================================== K7  document-level mistakes, odd characters

SYN, VAL, FAE = ('SYNTAX_ERROR',), ('VALIDATION_ERROR',), ('FILE_ACCESS_ERROR',)
# (name, text, accepted identifiers, line number that must be named (None: act phase), source line that must be quoted)
DOC_MISTAKES = (
    ('unknown-phase', '[setup]\ndir d\n[nosuchphase]\nx\n', SYN, 3, '[nosuchphase]'),
    ('header-not-closed', '[setup]\n[setup\n', SYN, 2, '[setup'),
    ('empty-header', '[]\n', SYN, 1, '[]'),
    ('text-after-header', '[setup] x\n', SYN, 1, '[setup] x'),
    ('unknown-instruction-conf', '[conf]\nnosuch arg\n', SYN, 2, 'nosuch arg'),
    ('unknown-instruction-setup', '[setup]\ndir d\nnosuch arg\n', SYN, 3, 'nosuch arg'),
    ('unknown-instruction-before-assert', '[before-assert]\nnosuch\n', SYN, 2, 'nosuch'),
    ('unknown-instruction-assert', '[assert]\nnosuch = 1\n', SYN, 2, 'nosuch = 1'),
    ('unknown-instruction-cleanup', '[cleanup]\n\n# c\nnosuch\n', SYN, 4, 'nosuch'),
    ('instruction-of-other-phase', '[setup]\nexit-code == 0\n', SYN, 2, 'exit-code == 0'),
    ('stdin-in-assert', '[assert]\nstdin = x\n', SYN, 2, 'stdin = x'),
    ('instruction-name-only', '[setup]\nfile\n\n', SYN, 2, 'file'),
    ('description-not-closed', '[setup]\n`desc\ndir d\n', SYN, 2, '`desc'),
    ('description-without-instruction', '[setup]\n`desc`\n', SYN, 2, '`desc`'),
    ('included-file-missing', '[setup]\nincluding nosuch.xly\n', FAE, 2, 'including nosuch.xly'),
    ('included-file-is-dir', '[setup]\nincluding home-dir\n', FAE, 2, 'including home-dir'),
    ('including-without-argument', '[setup]\nincluding\n', SYN, 2, 'including'),
    ('including-two-arguments', '[setup]\nincluding a b\n', SYN, 2, 'including a b'),
    ('included-file-with-mistake', '[setup]\nincluding existing.txt\n', SYN, 1, 'e'),
    ('status-invalid', '[conf]\nstatus = NOSUCH\n', SYN, 2, 'status = NOSUCH'),
    ('actor-invalid', '[conf]\nactor = nosuch\n', SYN, 2, 'actor = nosuch'),
    ('symbol-defined-twice', '[setup]\ndef string A = x\ndef string A = y\n', VAL, 3, 'def string A = y'),
    ('symbol-defined-twice-other-phase', '[setup]\ndef string A = x\n[cleanup]\ndef list A = y\n', VAL, 4, 'def list A = y'),
    ('symbol-name-invalid', '[setup]\ndef string a-b = x\n', SYN, 2, 'def string a-b = x'),
    ('symbol-type-unknown', '[setup]\ndef nosuchtype X = y\n', SYN, 2, 'def nosuchtype X = y'),
    ('symbol-name-builtin', '[setup]\ndef string EXACTLY_HOME = x\n', VAL, 2, 'def string EXACTLY_HOME = x'),
    ('symbol-value-missing', '[setup]\ndef string X =\n\n', SYN, 2, 'def string X ='),
    ('symbol-used-before-definition', '[setup]\nenv V = @[LATER]@\ndef string LATER = x\n', VAL, 2, 'env V = @[LATER]@'),
    ('symbol-refers-to-itself', '[setup]\ndef string A = @[A]@\n', VAL, 2, 'def string A = @[A]@'),
    ('symbol-cycle', '[setup]\ndef text-matcher M = ! M2\ndef text-matcher M2 = M\n', VAL, 2, 'def text-matcher M = ! M2'),
    ('act-two-commands', '[act]\n$ echo a\n$ echo b\n', SYN, None, '$ echo a'),
    ('act-quote-not-closed', "[act]\n'unterminated arg\n", SYN, None, "'unterminated arg"),
    ('act-program-missing', '[act]\nnosuch-program arg\n', VAL, None, 'nosuch-program arg'),
    ('here-doc-not-closed', '[setup]\nfile f.txt = <<EOF\nline\n', SYN, 2, 'file f.txt = <<EOF'),
    ('here-doc-other-marker', '[setup]\nfile f.txt = <<EOF\nline\nEOF2\n', SYN, 2, 'file f.txt = <<EOF'),
    ('file-list-not-closed', '[setup]\ndir d = {\n file x\n', SYN, 2, 'dir d = {'),
    ('negative-timeout', '[setup]\ntimeout = -1\n', VAL, 2, 'timeout = -1'),
    ('negative-depth', '[assert]\ndir-contents . : -recursive -max-depth -1 is-empty\n', VAL, 2,
     'dir-contents . : -recursive -max-depth -1 is-empty'),
    ('line-range-three-parts', '[assert]\nstdout -transformed-by filter -line-nums 1:2:3\n is-empty\n', VAL, 2,
     'stdout -transformed-by filter -line-nums 1:2:3'),
    ('superfluous-argument', '[assert]\nexit-code == 0 0\n', SYN, 2, 'exit-code == 0 0'),
    ('operator-missing', '[assert]\nexit-code 0\n', SYN + VAL, 2, 'exit-code 0'),
    ('file-type-unknown', '[assert]\nexists f : type nosuch\n', SYN, 2, 'exists f : type nosuch'),
    ('relativity-unknown', '[setup]\nfile -rel-nosuch f = x\n', SYN, 2, 'file -rel-nosuch f = x'),
    ('relativity-not-accepted', '[setup]\nfile -rel-home f = x\n', SYN, 2, 'file -rel-home f = x'),
    ('home-missing', '[conf]\nhome = nosuch\n', VAL, 2, 'home = nosuch'),
    ('copy-source-missing', '[setup]\ncopy nosuch\n', VAL, 2, 'copy nosuch'),
    ('file-name-empty', "[setup]\nfile '' = x\n", VAL + SYN, 2, "file '' = x"),
    ('file-list-name-escapes', '[setup]\ndir d = { file ../x }\n', VAL + SYN, 2, 'dir d = { file ../x }'),
    ('file-condition-name-absolute', '[assert]\ndir-contents . : matches { /abs }\n', VAL + SYN, 2, 'dir-contents . : matches { /abs }'),
    ('shell-command-empty', '[setup]\n$\n', SYN, 2, '$'),
)
# The act phase is parsed by the actor, outside the net around instruction parsers: an unterminated quote at every
# position of a PROGRAM (bad quoting must be SYNTAX_ERROR, quoting the source of the act phase)
_ACT_QUOTING = (
    "'prog", "prog 'arg", 'prog "arg', "-rel-home 'prog", "-rel 'PD prog", "-rel PD 'prog", "% 'prog", "% prog 'arg", "-python 'arg",
    "-python -c :> 'not a token", "@ 'PR", "@ PR 'arg", "prog.py -existing-file 'x", "prog.py -existing-file -rel-home 'x",
    "prog.py -existing-file -rel 'PD x", "prog.py -existing-dir -rel PD 'x", "prog.py -existing-path 'x", "prog.py a\n -stdin 'x",
    "prog.py a\n -transformed-by replace 'x y", "( 'prog )", "( prog 'a )",
)
_ACT_QUOTING_PRELUDE = '[setup]\ndef path PD = -rel-home home-dir\ndef program PR = % echo\n'
DOC_MISTAKES = DOC_MISTAKES + tuple(
    ('act-quoting-%d' % k, _ACT_QUOTING_PRELUDE + '[act]\n' + a + '\n', SYN, None, a.split('\n')[0])
    for k, a in enumerate(_ACT_QUOTING) if a != "-python -c :> 'not a token"
) + (
    ('act-quoting-file-actor', "[conf]\nactor = file % python3\n[act]\nprog.py 'arg\n", SYN, None, "prog.py 'arg"),
    ('act-quoting-file-actor-path', "[conf]\nactor = file % python3\n[act]\n'prog.py\n", SYN, None, "'prog.py"),
    ('act-quoting-file-actor-interpreter', "[conf]\nactor = file % 'python3\n[act]\nprog.py\n", SYN, 2, "actor = file % 'python3"),
    ('act-quoting-source-actor-interpreter', "[conf]\nactor = source % python3 'x\n[act]\npass\n", SYN, 2, "actor = source % python3 'x"),
)
# texts that need not be mistakes: only a documented outcome is required
DOC_ODD = (
    ('empty', ''), ('comment-only', '# c\n'), ('header-only', '[assert]'), ('blank-lines', '\n\n \t\n'),
    ('crlf', '[setup]\r\ndir d\r\n'), ('vertical-tab', '[setup]\ndir d\x0b\n'), ('form-feed-line', '[setup]\n\x0c\ndir d\n'),
    ('non-ascii', '[setup]\ndir \xe9\u4e2d\n[act]\n$ echo \xe9\n'), ('long-name', '[setup]\ndir ' + 'x' * 300 + '\n'),
    ('deep-path', '[setup]\ndir ' + 'x/' * 3000 + '\n'), ('no-final-newline', '[assert]\nexit-code == 0'),
    ('phase-twice', '[setup]\ndir a\n[assert]\nexists a\n[setup]\ndir b\n'), ('huge-integer', '[assert]\nexit-code == ' + '9' * 400 + '\n'),
    ('huge-power', '[assert]\nstdout any line : line-num == 10**10**2\n'), ('nested-parentheses', '[assert]\nexit-code ' + '( ' * 40 + '== 0' + ' )' * 40 + '\n'),
    ('many-negations', '[assert]\nexit-code ' + '! ' * 200 + '== 0\n'), ('backslash-at-end', '[setup]\n% echo a \\\n'),
    ('reserved-word-as-name', '[setup]\nfile = = =\n'), ('env-name-with-equals', "[setup]\nenv 'A=B' = x\n"),
    ('nul-in-env-name', '[setup]\nenv A\x00 = x\n'), ('nul-in-string', "[setup]\ndef string S = 'a\x00b'\n"),
    ('nul-in-file-name', '[setup]\ndir a\x00b\n'), ('nul-in-file-name-2', '[setup]\nfile a\x00b = x\n'),
    ('nul-in-path-argument', '[assert]\nexists a\x00b\n'),
    # a file name the OS refuses, at every kind of place a path reaches the OS (fix 4f7c440: home, cd, program of [act])
    ('long-file-name-home', '[conf]\nhome = ' + 'a' * 300 + '\n'), ('long-file-name-act-home', '[conf]\nact-home = ' + 'a' * 300 + '\n'),
    ('long-file-name-cd', '[setup]\ncd ' + 'a' * 300 + '\n'), ('long-file-name-act-program', '[act]\n' + 'a' * 300 + '\n'),
    ('long-file-name-file', '[setup]\nfile ' + 'a' * 300 + '\n'), ('long-file-name-copy', '[setup]\ncopy ' + 'a' * 300 + '\n'),
    ('long-file-name-exists', '[assert]\nexists ' + 'a' * 300 + '\n'), ('long-file-name-contents', '[assert]\ncontents ' + 'a' * 300 + ' : is-empty\n'),
    ('long-file-name-dir-contents', '[assert]\ndir-contents ' + 'a' * 300 + ' : is-empty\n'),
    ('long-file-name-run', '[setup]\nrun ' + 'a' * 300 + '\n'), ('long-file-name-contents-of', '[setup]\nfile f = -contents-of ' + 'a' * 300 + '\n'),
    ('long-file-name-including', '[setup]\nincluding ' + 'a' * 300 + '\n'),
    ('long-file-name-file-actor', '[conf]\nactor = file % sh\n[act]\n' + 'a' * 300 + '\n'),
    ('long-file-name-existing-file-arg', '[setup]\nrun % echo -existing-file ' + 'a' * 300 + '\n'),
    ('nul-in-including-path', '[setup]\nincluding a\x00b\n'), ('nul-in-including-path-act', '[act]\nincluding \x00\n'),  # fix a1b1ace
    ('act-rest-of-line-with-quote', "[act]\n-python -c :> 'not a token\n"),
)


# mistakes that must be reported (exit 65, or HARD_ERROR at the latest); each lies in the region of a finding made while
# this harness was written (None: control)
_IND_P = '[setup]\ndef path P = -rel-act x\ndef string S = @[P]@\n'
_IND_L = '[setup]\ndef list L = a b\ndef string S1 = @[L]@\ndef string S2 = x@[S1]@\n'
DOC_LATEST = (
    ('integer-expression-syntax', '[assert]\nexit-code == 1+\n', None),
    ('integer-expression-division-by-zero', '[assert]\nexit-code == 1//0\n', REGION_EVAL),
    ('integer-expression-float-overflow', '[setup]\ntimeout = 10.0**400\n', REGION_EVAL),
    ('integer-expression-index-error', '[assert]\nstdout num-lines == [][0]\n', REGION_EVAL),
    ('integer-expression-attribute-error', '[assert]\ndir-contents . : -recursive -max-depth ().x is-empty\n', REGION_EVAL),
    ('integer-expression-exit', '[assert]\nexit-code == exit()\n', REGION_EVAL_EXIT),
    ('integer-expression-exit-7', '[setup]\ntimeout = quit(7)\n', REGION_EVAL_EXIT),
    ('replacement-group-that-does-not-exist', "[setup]\nfile f.txt = 'a' -transformed-by replace a '\\6'\n", REGION_REPLACE_TEMPLATE),
    ('replacement-group-name-not-closed', "[assert]\ncontents -rel-home existing.txt : -transformed-by replace e '\\g<1' is-empty\n",
     REGION_REPLACE_TEMPLATE),
    ('replacement-ends-with-backslash', "[assert]\ncontents -rel-home existing.txt : -transformed-by replace e 'x\\' is-empty\n",
     REGION_REPLACE_TEMPLATE),
    ('regex-not-closed', "[assert]\ncontents -rel-home existing.txt : matches '('\n", None),
    ('glob-pattern-empty-for-path', "[assert]\nexists -rel-home existing.txt : path ''\n", REGION_PATH_GLOB),
    ('glob-pattern-dot-for-path', "[assert]\ndir-contents -rel-home home-dir : -selection path . is-empty\n", REGION_PATH_GLOB),
    ('glob-pattern-not-closed', "[assert]\nexists -rel-home existing.txt : name '['\n", None),
    # Python's message holds what a careless format() / % of a message template trips over; messages are formatted when the
    # report is printed
    ('integer-expression-brace-not-closed', '[assert]\nexit-code == 1+{\n', None),
    ('integer-expression-brace-unmatched', '[setup]\ntimeout = 1}\n', None),
    ('integer-expression-brace-mismatch', '[assert]\nstdout num-lines == (1}\n', None),
    ('integer-expression-message-with-braces', '[assert]\ndir-contents . : -recursive -max-depth "int(\'{x}\')" is-empty\n', None),
    ('integer-expression-message-with-percent', '[assert]\nexit-code == "int(\'%s %(y)d\')"\n', None),
    ('line-range-brace-unmatched', '[assert]\nstdout -transformed-by filter -line-nums 1}\n is-empty\n', None),
    ('integer-expression-brace-via-symbol', '[setup]\ndef string E = 1+{\n[assert]\nexit-code == @[E]@\n', None, 4),
    ('integer-too-large-to-display', '[assert]\nexit-code == 10**5000\n', None),
    ('integer-too-large-to-display-negative-timeout', '[setup]\ntimeout = -10**5000\n', None),
    # a wrong-type symbol reached only indirectly (a string whose definition refers, at some depth, to a symbol that is not a
    # string), used where only strings are allowed
    ('indirect-path-in-integer', _IND_P + '[assert]\nexit-code == @[S]@\n', None, 5),
    ('indirect-list-depth-2-in-timeout', _IND_L + 'timeout = @[S2]@\n', None, 5),
    ('indirect-path-in-line-range', _IND_P + '[assert]\nstdout -transformed-by filter -line-nums @[S]@\n is-empty\n', None, 5),
    ('indirect-list-depth-2-in-program-name', _IND_L + '% @[S2]@\n', None, 5),
    ('indirect-path-in-files-condition-name', _IND_P + '[assert]\ndir-contents . : matches { @[S]@ }\n', None, 5),
    ('indirect-path-in-env-name', _IND_P + 'env @[S]@ = v\n', None, 4),
    ('indirect-path-in-file-list-name', _IND_P + 'dir d = { file @[S]@ }\n', None, 4),
    ('indirect-list-depth-2-in-file-name', _IND_L + 'file @[S2]@ = x\n', None, 5),
    ('indirect-path-in-depth', _IND_P + '[assert]\ndir-contents . : -recursive -min-depth @[S]@ is-empty\n', None, 5),
)


def _doc_in_region_nul(text: str) -> bool:
    return '\x00' in text and any(w in text for w in ('dir ', 'file ', 'exists ', 'copy ', 'cd ', 'contents '))


def _pre_k7(i: int, st: int) -> bool:
    c = ob.case()
    lo, hi = c['range']
    if not (lo <= i < hi and 0 <= st < len(STATUS)):
        return False
    if st != ST_NONE and not _status_applicable(ob.pick({'odd': DOC_ODD, 'latest': DOC_LATEST, 'mistakes': DOC_MISTAKES}[c['odd']], i)[1]):
        return False
    if c['odd'] == 'odd' and ob.excluded(REGION_NUL) and _doc_in_region_nul(ob.pick(DOC_ODD, i)[1]):
        return False
    if c['odd'] == 'latest':
        region = ob.pick(DOC_LATEST, i)[2]
        if region is not None and ob.excluded(region):
            return False
    return True


def k7_document(i: int, st: int) -> bool:
    """
    pre: _pre_k7(i, st)
    post: _
    """
    c = ob.case()
    st = ob.concrete_int(st, 0, len(STATUS) - 1)
    if st != ST_NONE:
        # the same test case with a status: the outcome without one (judged in the path st = none) is carried over
        text = ob.pick({'odd': DOC_ODD, 'latest': DOC_LATEST, 'mistakes': DOC_MISTAKES}[c['odd']], i)[1]
        return ob.post(status_relation(st, _run_base(text), cli.run_cli(_with_status(text, st)), c.get('oracle_bug') == 'status'))
    if c['odd'] == 'odd':
        name, text = ob.pick(DOC_ODD, i)
        r = _run_base(text)
        return ob.post(documented_outcome(r))
    if c['odd'] == 'latest':
        item = ob.pick(DOC_LATEST, i)
        name, text, region = item[:3]
        line = item[3] if len(item) > 3 else 2
        r = _run_base(text)
        if name.startswith('glob-pattern-'):
            # a glob pattern has no invalid form in the manual: any documented outcome (but not INTERNAL_ERROR)
            return ob.post(documented_outcome(r))
        # an integer expression or a regular expression is known before anything runs: exit 65; a replacement string is
        # only expanded when a match is found: exit 65, or HARD_ERROR of the instruction at the latest
        accepted = REPORTED if name.startswith('replacement-') else cli.NOT_EXECUTED[:2]
        return ob.post(documented_outcome(r) and r['ident'] in accepted
                       and _shows(r['stderr'], r['path'], line, text.split('\n')[line - 1]))
    name, text, idents, line, quoted = ob.pick(DOC_MISTAKES, i)
    if c.get('oracle_bug') == 'identifier':
        idents = VAL
    r = _run_base(text)
    if not documented_outcome(r) or r['ident'] not in idents or r['rc'] != 65:
        return ob.post(False)
    if r['process_starts'] != 0 or r['sandboxes'] != 0:
        return ob.post(False)
    err = r['stderr']
    if line is None:
        return ob.post('In [act]\n' in err and ('  ' + quoted + '\n') in err)
    if name == 'included-file-with-mistake':
        return ob.post((r['path'] + ', line 2\n') in err and ('existing.txt, line %d\n' % line) in err and ('  ' + quoted + '\n') in err)
    return ob.post(_shows(err, r['path'], line, quoted))


# =========================================================================== obligations

def _chunks(n: int, size: int):
    return [(lo, min(n, lo + size)) for lo in range(0, n, size)]


# =========================================================================== K8: "Exactly terminates"
# Whole program in a CHILD process under a wall-clock limit: an integer expression is handed to eval() as it stands, and
# a C-level computation that does not end (9**9**9**9) cannot be interrupted from inside the process.  Added in round 4
# (reported by the author of a seeded change): listed as a known finding, region REGION_EVAL_UNBOUNDED.

K8_LIMIT_S = 20
DOC_TERMINATES = (
    ('control-power', '[assert]\nexit-code == 2**10\n', None),
    ('control-large-power', '[setup]\ntimeout = 10**400\n', None),
    ('control-nested-small-powers', '[assert]\nexit-code == 2**3**2**2\n', None),
    ('control-too-large-to-display', '[assert]\nexit-code == 10**5000\n', None),
    ('control-deep-parentheses', '[assert]\nexit-code == ' + '(' * 40 + '1' + ')' * 40 + '\n', None),
    ('control-long-sum', '[assert]\nexit-code == ' + '+'.join(['1'] * 400) + '\n', None),
    ('power-tower-in-exit-code', '[assert]\nexit-code == 9**9**9**9\n', REGION_EVAL_UNBOUNDED),
    ('power-tower-in-timeout', '[setup]\ntimeout = 9**9**9**9\n', REGION_EVAL_UNBOUNDED),
    ('power-tower-via-symbol', '[setup]\ndef string E = 9**9**9**9\n[assert]\nexit-code == @[E]@\n', REGION_EVAL_UNBOUNDED),
)
STUB_K8 = ('the real program `exactly FILE` in a child process of the interpreter that runs the harness (PYTHONPATH = the source '
           'tree under analysis), killed after %d s of wall-clock time; the selector is made concrete first and CrossHair tracing is '
           'suspended: the solver enumerates the catalogue' % K8_LIMIT_S)


def _k8_untraced():
    import contextlib
    try:
        from crosshair.tracers import NoTracing, is_tracing
    except ImportError:
        return contextlib.nullcontext()
    return NoTracing() if is_tracing() else contextlib.nullcontext()


def _k8_run(text: str):
    """-> (finished, exit code, stdout, stderr)"""
    import os, subprocess, sys, shutil
    import exactly_lib
    from vsym import scratch
    src = os.path.dirname(os.path.dirname(os.path.abspath(exactly_lib.__file__)))
    d = scratch.new_dir('c18k8-')
    try:
        os.makedirs(os.path.join(d, 'tmp'))
        f = os.path.join(d, 'k8.case')
        with open(f, 'w') as fo:
            fo.write(text)
        prog = ("import sys; from exactly_lib.cli_default.default_main_program_setup import main; "
                "sys.argv = ['exactly', %r]; sys.exit(main())" % f)
        env = dict(os.environ, PYTHONPATH=src, TMPDIR=os.path.join(d, 'tmp'), PYTHONDONTWRITEBYTECODE='1')
        try:
            r = subprocess.run([sys.executable, '-W', 'ignore', '-c', prog], stdout=subprocess.PIPE, stderr=subprocess.PIPE,
                               stdin=subprocess.DEVNULL, env=env, cwd=d, timeout=K8_LIMIT_S)
        except subprocess.TimeoutExpired:
            return False, None, '', ''
        return True, r.returncode, r.stdout.decode('utf-8', 'replace'), r.stderr.decode('utf-8', 'replace')
    finally:
        shutil.rmtree(d, ignore_errors=True)


def _pre_k8(i: int) -> bool:
    if not (0 <= i < len(DOC_TERMINATES)):
        return False
    region = ob.pick(DOC_TERMINATES, i)[2]
    return not (region is not None and ob.excluded(region))


def k8_terminates(i: int) -> bool:
    """
    pre: _pre_k8(i)
    post: _
    """
    name, text, region = ob.pick(DOC_TERMINATES, i)
    with _k8_untraced():
        finished, rc, out, err = _k8_run(text)
    if ob.case().get('oracle_bug'):
        return ob.post(finished and rc == 0)
    good = (finished and rc in cli.OUTCOMES.values() and rc != cli.OUTCOMES['INTERNAL_ERROR']
            and 'Traceback (most recent call last)' not in err
            and out.split('\n', 1)[0] in cli.OUTCOMES and cli.OUTCOMES[out.split('\n', 1)[0]] == rc)
    return ob.post(good)


# =========================================================================== K9  mistakes that need several files
# The test case is a tree of files (harness/_C18_files): cycles of `including`, and chains of inclusions that end in a file
# that cannot be read or that holds a mistake.  Added in round 5 (reported by the author of a seeded change: a cycle
# that is closed through a path that is not in canonical form).

REAL_FILES = REAL_CLI + (
    'exactly_lib.section_document.document_parser.DocumentParser.parse_file',
    'exactly_lib.section_document.document_parser.DocumentParser.parse_source',
    'exactly_lib.section_document.impl.document_parser.parse_file',
    'exactly_lib.section_document.impl.document_parser._Impl._include_files',
    'exactly_lib.section_document.impl.file_access.read_source_file',
    'exactly_lib.section_document.source_location.FileLocationInfo',
    'exactly_lib.processing.parse.file_inclusion_directive_parser.FileInclusionDirectiveParser.parse',
    'exactly_lib.common.err_msg.source_location',
)
STUBS_FILES = cli.STUBS + ('the tree of files (regular files, directories, symbolic links) is made on a real file system below a '
                           'scratch directory',)
ENTRY_FILES = 'MainProgram.execute([FILE]) (through the real argument parser)'
# what can be wrong with the last file of a chain of inclusions: as a file; not at all (control); inside it
K9_FAULTS = files.FILE_FAULTS + (files.CONTROL,) + tuple(m for m in DOC_MISTAKES if not m[0].startswith('included-file'))
_K9_NL, _K9_NS, _K9_NP, _K9_NM = len(files.LAYOUTS), len(files.SPELLINGS), len(files.PHASES), len(files.MAIN_SPELLINGS)
_K9_NUL = K9_FAULTS.index('nul-in-name')
_K9_CONTROL = K9_FAULTS.index(files.CONTROL)  # the faults after it are mistakes inside the file
_K9_FIRST_LINK_SPELLING = files.SPELLINGS.index('symlink-to-file')  # the spellings from here on are through symbolic links
assert all(x.startswith('symlink') for x in files.SPELLINGS[_K9_FIRST_LINK_SPELLING:])


def _k9_fault_name(f) -> str:
    return f if isinstance(f, str) else f[0]


def _pre_k9_cycle(tail: int, layout: int, spelling: int, everywhere: bool, phase: int, main: int) -> bool:
    c = ob.case()
    if not (0 <= tail <= 1 and 0 <= layout < _K9_NL and 0 <= spelling < _K9_NS and 0 <= phase < _K9_NP and 0 <= main < _K9_NM):
        return False
    if 'tail' in c and tail != c['tail']:
        return False
    if 'layout' in c and layout != c['layout']:
        return False
    if c.get('diag'):
        # quick tier: section and the naming of the test case file are not crossed with the rest but vary along with it
        if phase != (layout + spelling) % _K9_NP or main != (spelling + c['n'] + tail) % _K9_NM:
            return False
    return True


def _nothing_executed(r) -> bool:
    return r['process_starts'] == 0 and r['sandboxes'] == 0


def k9_cycle(tail: int, layout: int, spelling: int, everywhere: bool, phase: int, main: int) -> bool:
    """
    pre: _pre_k9_cycle(tail, layout, spelling, everywhere, phase, main)
    post: _
    """
    c = ob.case()
    tail, layout, spelling = ob.concrete_int(tail, 0, 1), ob.concrete_int(layout, 0, _K9_NL - 1), ob.concrete_int(spelling, 0, _K9_NS - 1)
    everywhere, phase, main = ob.concrete_bool(everywhere), ob.concrete_int(phase, 0, _K9_NP - 1), ob.concrete_int(main, 0, _K9_NM - 1)
    # everything is concrete from here on: the tree is built, the program run and its output read natively
    with cli.no_tracing():
        sc = files.cycle(c['n'], tail, layout, spelling, everywhere, phase, main)
        r = files.run(sc)
        # an inclusion that cannot be carried out: the file cannot be accessed.  (Seeded oracle error: a syntax error.)
        want = 'SYNTAX_ERROR' if c.get('oracle_bug') else 'FILE_ACCESS_ERROR'
        verdict = (documented_outcome(r) and r['ident'] == want and r['rc'] == 65 and _nothing_executed(r)
                   and files.shows_chain(r, sc))
    return ob.post(verdict)


def _pre_k9_defect(fault: int, layout: int, spelling: int, everywhere: bool, phase: int, main: int) -> bool:
    c = ob.case()
    lo, hi = c['faults']
    if not (lo <= fault < hi and 0 <= layout < _K9_NL and 0 <= spelling < _K9_NS and 0 <= phase < _K9_NP and 0 <= main < _K9_NM):
        return False
    if fault == _K9_NUL and spelling >= _K9_FIRST_LINK_SPELLING:
        return False  # a symbolic link to such a name cannot be made
    diag = c.get('diag')
    if diag:
        # quick tier: one layout per (fault, spelling), two spellings per mistake inside a file; thorough tier: all of them.
        # Section and naming of the test case file vary along
        if diag == 'quick':
            if everywhere or layout != (fault + spelling + c['depth']) % _K9_NL:
                return False
            if fault > _K9_CONTROL and spelling % 5 != fault % 5:
                return False
        if phase != (layout + spelling + fault) % _K9_NP or main != (spelling + c['depth'] + fault) % _K9_NM:
            return False
    return True


def k9_defect(fault: int, layout: int, spelling: int, everywhere: bool, phase: int, main: int) -> bool:
    """
    pre: _pre_k9_defect(fault, layout, spelling, everywhere, phase, main)
    post: _
    """
    c = ob.case()
    lo, hi = c['faults']
    f = K9_FAULTS[ob.concrete_int(fault, lo, hi - 1)]
    layout, spelling = ob.concrete_int(layout, 0, _K9_NL - 1), ob.concrete_int(spelling, 0, _K9_NS - 1)
    everywhere, phase, main = ob.concrete_bool(everywhere), ob.concrete_int(phase, 0, _K9_NP - 1), ob.concrete_int(main, 0, _K9_NM - 1)
    # everything is concrete from here on: the tree is built, the program run and its output read natively
    with cli.no_tracing():
        sc = files.defect(c['depth'], f, layout, spelling, everywhere, phase, main)
        verdict = _k9_defect_verdict(f, sc, files.run(sc), c.get('oracle_bug'))
    return ob.post(verdict)


def _k9_defect_verdict(f, sc, r, bug) -> bool:
    if not documented_outcome(r):
        return False
    if f == files.CONTROL:
        return r['ident'] == 'PASS'
    if isinstance(f, str):
        # the file cannot be read: reported at the directive that names it
        return (r['ident'] == ('SYNTAX_ERROR' if bug else 'FILE_ACCESS_ERROR') and r['rc'] == 65 and _nothing_executed(r)
                and files.shows_chain(r, sc))
    # "equivalent to having the contents of the included file in the including file": the mistake of the catalogue, at its line
    # of the included file, below the chain of directives that lead there
    name, text, idents, line, quoted = f
    if r['ident'] not in (VAL if bug else idents) or r['rc'] != 65 or not _nothing_executed(r):
        return False
    if line is None:
        return 'In [act]\n' in r['stderr'] and ('  ' + quoted + '\n') in r['stderr']
    return files.shows_chain(r, sc)


def obligations(tier: str) -> List[Ob]:
    quick = tier == 'quick'
    obs = []
    names = 'the sample %s of the exception catalogue' % (list(exc.QUICK),) if quick else \
        'every exception class of the catalogue (%d: all Exception subclasses of builtins, Exception, re.error, an unknown class)' % exc.N
    # ---- K1
    b1 = ('eval returns every integer n in Z (str(n) succeeds or raises ValueError) / each of %d non-integer values / raises %s / raises '
          'SystemExit' % (len(NON_INTS), names))
    obs.append(Ob(name='K1:evaluate', fn='k1_evaluate', case=dict(quick=quick), kernel='K1', bound=b1, timeout=300,
                  real=REAL_K1[:2], stubs=(STUB_EVAL, STUB_STR, STUB_EXC), entry='evaluate_integer.python_evaluate',
                  outside=('which exceptions eval really raises for which text',)))
    obs.append(Ob(name='K1:evaluate:seeded-oracle-error', fn='k1_evaluate', case=dict(quick=True, oracle_bug=True), kernel='K1',
                  bound='seeded: an integer is claimed to be rejected', timeout=300, expect=ob.REFUTE))
    for cons in CONSUMERS:
        nb = (3 if quick else 6) if cons.endswith('non-negative') else None
        obs.append(Ob(name='K1:consumer:' + cons, fn='k1_consumer', case=dict(quick=quick, consumer=cons, n_bound=nb), kernel='K1',
                      bound=(b1 if nb is None else b1.replace('n in Z', 'n in [-%d, %d]' % (nb, nb))) +
                            '; consumer %s built by MandatoryIntegerParser from the token' % cons, timeout=400,
                      outside=(() if nb is None else ('integers outside [-%d, %d] under the non-negative restriction (its message '
                                                      'formats n)' % (nb, nb),)),
                      real=REAL_K1, stubs=(STUB_EVAL, STUB_STR, STUB_EXC), entry='parse_integer.MandatoryIntegerParser.parse -> validate'))
    obs.append(Ob(name='K1:consumer:seeded-oracle-error', fn='k1_consumer',
                  case=dict(quick=True, consumer='ddv-validator-non-negative', oracle_bug=True, n_bound=3), kernel='K1',
                  bound='seeded: 0 is claimed to be rejected by the non-negative restriction', timeout=300, expect=ob.REFUTE))
    sites = SITES if not quick else [s for s in SITES if s[0] in ('timeout', 'exit-code', 'max-depth', 'line-nums-lower', 'string-symbol')]
    for s in sites:
        nb = (3 if quick else 6) if s[3] == 'non-negative' else None
        obs.append(Ob(name='K1:site:' + s[0], fn='k1_site', case=dict(quick=True if quick else False, site=s[0], n_bound=nb), kernel='K1',
                      bound=(b1 if nb is None else b1.replace('n in Z', 'n in [-%d, %d]' % (nb, nb))) +
                            '; test case `[%s] %s` through the real parser and executor' % (s[1], s[2].replace('\n', ' / ')),
                      outside=(() if nb is None else ('integers outside [-%d, %d] under the non-negative restriction (its message '
                                                      'formats n)' % (nb, nb),)),
                      timeout=900, real=REAL_K1_SITE, stubs=(STUB_EVAL, STUB_STR, STUB_EXC, 'stub actor (vsym.exeharness)', 'counting sandbox resolver'),
                      entry='processors._Parser.apply -> full_execution.execute'))
    obs.append(Ob(name='K1:site:seeded-oracle-error', fn='k1_site', case=dict(quick=True, site='timeout', oracle_bug=True, n_bound=3),
                  kernel='K1', bound='seeded: timeout = 0 is claimed to be a validation error', timeout=600, expect=ob.REFUTE))
    for n in range(0, (3 if quick else 5) + 1):
        obs.append(Ob(name='K1:range:len%d' % n, fn='k1_range', case=dict(n=n), kernel='K1',
                      bound='every LINE-NUMBER-RANGE text of exactly %d characters of {1, :, -, space, x}: rejected by validation iff it is '
                            'not INT / INT: / :INT / INT:INT, otherwise the limits are the denoted integers' % n,
                      timeout=900, real=REAL_K1_RANGE, stubs=(STUB_LITERALS,),
                      entry='resolvers._RangeValidator(text).validate_pre_sds_if_applicable'))
    obs.append(Ob(name='K1:range:seeded-oracle-error', fn='k1_range', case=dict(n=2, oracle_bug=True), kernel='K1',
                  bound='seeded: `:INT` is claimed to be rejected', timeout=300, expect=ob.REFUTE))
    # ---- K2
    k2_cases = [('i', 0, 'quick' if quick else 'all'), ('i', 1, 'quick' if quick else 'all'), ('i', 2, 'mini' if quick else 'quick'), ('x', 1, 'mini'),
                ('', 1, 'mini')]
    if not quick:
        k2_cases.append(('', 2, 'mini'))
        for ch in K2_ALPHABET:
            k2_cases.append(('i' + ch, 2, 'mini' if ch in 'ix' else 'quick'))
        for a in ' \n':
            for b in K2_ALPHABET:
                k2_cases.append(('i' + a + b, 2, 'mini'))
    for prefix, n, sample in k2_cases:
        obs.append(Ob(name='K2:%r+%d' % (prefix, n), fn='k2_dictionary_parser', case=dict(prefix=prefix, n=n, names=sample), kernel='K2',
                      bound='source `lead` newline %r followed by exactly %d characters of {i, x, space, newline}; the stub parser '
                            'consumes 0..2 lines and 0..len+1 characters, then returns / reports invalid arguments / raises %s'
                            % (prefix, n, _names_text(sample)),
                      timeout=1200, real=REAL_K2, stubs=(STUB_K2_PARSER, STUB_EXC),
                      entry='InstructionParserForDictionaryOfInstructions.parse'))
    obs.append(Ob(name='K2:seeded-oracle-error', fn='k2_dictionary_parser', case=dict(prefix='i', n=2, names='mini', oracle_bug=True),
                  kernel='K2', bound='seeded: only the first line is ever reported', timeout=600, expect=ob.REFUTE))
    # ---- K3
    obs.append(Ob(name='K3:validator', fn='k3_regex_validator', case=dict(quick=quick), kernel='K3', selector=True,
                  bound='REGEX given as %s, with / without -ignore-case; compile succeeds or raises %s' % (list(REGEX_SOURCES), names),
                  timeout=600, real=REAL_K3, stubs=(STUB_RE, STUB_EXC), entry='parse_regex.ParserOfRegex -> validator'))
    obs.append(Ob(name='K3:validator:seeded-oracle-error', fn='k3_regex_validator', case=dict(quick=True, oracle_bug=True),
                  kernel='K3', selector=True, bound='seeded: -ignore-case is claimed not to reach compile', timeout=300,
                  expect=ob.REFUTE))
    for lo, hi in _chunks(len(RX), 2 if not quick else 5):
        rxs = [x for x in RX[lo:hi] if not quick or x in RX_QUICK]
        obs.append(Ob(name='K3:replace:%d-%d' % (lo, hi - 1), fn='k3_replace', case=dict(rx=(lo, hi), quick=quick), kernel='K3', selector=True,
                      bound='`replace %s[-preserve-new-lines] REGEX STRING` with REGEX in %s, STRING in %s, applied to '
                            'each of the texts %s' % ('' if quick else '[-at line-num >= 1] ', rxs, list(REPL_QUICK if quick else REPL),
                                                      list(TEXTS_QUICK if quick else TEXTS)),
                      timeout=1200, real=REAL_K3_REPLACE, entry='parse_string_transformer.parsers().full -> validator -> transform',
                      outside=('which patterns and templates `re` accepts (taken from `re` itself)',)))
    obs.append(Ob(name='K3:replace:seeded-oracle-error', fn='k3_replace', case=dict(rx=(0, 1), oracle_bug=True), kernel='K3',
                  selector=True, bound='seeded: a valid pattern is claimed to be rejected', timeout=300, expect=ob.REFUTE))
    # ---- K5
    ncells = len(_k5_cells())
    k5_sample = 'mini' if quick else 'all'
    for lo, hi in _chunks(ncells, 11 if quick else 2):
        cells = [c for c in _k5_cells()[lo:hi] if not quick or c in K5_QUICK_CELLS]
        obs.append(Ob(name='K5:executor:cells%d-%d' % (lo, hi - 1), fn='k5_executor', case=dict(quick=quick, names=k5_sample, cells=(lo, hi)),
                      kernel='K5', selector=True,
                      bound='the stub step %s raises HardErrorException or %s' % (cells, _names_text(k5_sample)),
                      timeout=1500, real=REAL_K5, stubs=('stub instructions / actor (vsym.exeharness)', STUB_EXC),
                      entry='full_execution.execute -> print_error_message_for_full_result'))
    obs.append(Ob(name='K5:executor:seeded-oracle-error', fn='k5_executor', case=dict(names='mini', cells=(5, 6), oracle_bug=True),
                  kernel='K5', selector=True, bound='seeded: HardErrorException is claimed to give INTERNAL_ERROR', timeout=300,
                  expect=ob.REFUTE))
    obs.append(Ob(name='K5:unit', fn='k5_unit', case={}, kernel='K5', selector=True,
                  bound='execute_element / execute_action_and_catch_internal_error_exception around an action that succeeds, '
                        'reports a failure, raises HardErrorException or raises each of the %d exceptions of the catalogue' % exc.N,
                  timeout=600, real=REAL_K5[:6], stubs=(STUB_EXC,)))
    obs.append(Ob(name='K5:unit:seeded-oracle-error', fn='k5_unit', case=dict(oracle_bug=True), kernel='K5', selector=True,
                  bound='seeded: an arbitrary exception is claimed to give HARD_ERROR', timeout=300, expect=ob.REFUTE))
    obs.append(Ob(name='K5:processor', fn='k5_processor', case=dict(names=k5_sample), kernel='K5', selector=True,
                  bound='reader / preprocessor / parser / transformer / executor raises %s; the result is reported by the real '
                        'reporter' % _names_text(k5_sample),
                  timeout=900, real=REAL_K5_PROC, stubs=('stub reader, preprocessor, parser, transformer, executor', STUB_EXC)))
    obs.append(Ob(name='K5:processor:seeded-oracle-error', fn='k5_processor', case=dict(names='mini', oracle_bug=True), kernel='K5',
                  selector=True, bound='seeded: exit code 0 is claimed for an internal error', timeout=300, expect=ob.REFUTE))
    # ---- K6
    st_text = ('; each as it stands and with `[conf] status = PASS | FAIL | SKIP` put in front: with PASS the same outcome and message; with '
               'FAIL the same, but XPASS / XFAIL for PASS / FAIL; with SKIP the same if the mistake is found by reading the file, '
               'else SKIPPED and nothing executed (a mistake that shows in [conf] may still show)')
    level = 0 if quick else 1
    muts = _mutants(level)
    for lo, hi in _chunks(len(muts), 42 if quick else 64):
        bases = sorted({m[0] for m in muts[lo:hi]})
        obs.append(Ob(name='K6:mutants:%d-%d' % (lo, hi - 1), fn='k6_cli', case=dict(level=level, range=(lo, hi), status_sample=quick), kernel='K6',
                      selector=True,
                      bound='mutants %d..%d of the catalogue (%d mutants of %d valid instructions; here of the instructions %s): '
                            'token deletion / duplication / transposition / replacement by reserved words, truncation, quote '
                            'imbalance, wrong-type and undefined symbols, invalid / extreme integers, regexes, globs, strings, paths'
                            % (lo, hi - 1, len(muts), len(g.BASES), [g.line_of(g.BASES[b][1])[:40] for b in bases][:6]) + st_text +
                            (' (PASS and SKIP: every fourth mutant)' if quick else ''),
                      timeout=1500, real=REAL_CLI, stubs=cli.STUBS, entry='MainProgram.execute([FILE]) past its argument parser: MainProgram.execute_test_case(settings).report(environment)',
                      outside=('mutants not in the catalogue; processes are not started (exit code 0, no output)',)))
    obs.append(Ob(name='K6:seeded-oracle-error', fn='k6_cli', case=dict(level=0, range=(0, 12), oracle_bug='all-are-mistakes'), kernel='K6',
                  selector=True, bound='seeded: every mutant is claimed to be a mistake', timeout=600, expect=ob.REFUTE))
    obs.append(Ob(name='K6:status:seeded-oracle-error', fn='k6_cli', case=dict(level=0, range=(0, 12), oracle_bug='status'), kernel='K6',
                  selector=True, bound='seeded: with status FAIL every outcome but FAIL (and a syntax error) is claimed to be XPASS',
                  timeout=600, expect=ob.REFUTE))
    # ---- K7
    for lo, hi in _chunks(len(DOC_MISTAKES), 25):
        obs.append(Ob(name='K7:mistakes:%d-%d' % (lo, hi - 1), fn='k7_document', case=dict(odd='mistakes', range=(lo, hi)), kernel='K7',
                      selector=True, bound='document-level mistakes %s: exit 65 with the stated identifier, file, line number and '
                                           'source line; nothing executed' % [d[0] for d in DOC_MISTAKES[lo:hi]] + st_text,
                      timeout=900, real=REAL_CLI, stubs=cli.STUBS, entry='MainProgram.execute([FILE]) past its argument parser: MainProgram.execute_test_case(settings).report(environment)'))
    obs.append(Ob(name='K7:odd-texts', fn='k7_document', case=dict(odd='odd', range=(0, len(DOC_ODD))), kernel='K7', selector=True,
                  bound='odd texts %s: a documented outcome other than INTERNAL_ERROR' % [d[0] for d in DOC_ODD] + st_text +
                        ' (texts that begin with a section header only)',
                  timeout=900, real=REAL_CLI, stubs=cli.STUBS, entry='MainProgram.execute([FILE]) past its argument parser: MainProgram.execute_test_case(settings).report(environment)'))
    obs.append(Ob(name='K7:reported-at-the-latest-when-run', fn='k7_document', case=dict(odd='latest', range=(0, len(DOC_LATEST))),
                  kernel='K7', selector=True,
                  bound='mistakes in integer expressions, regular expressions, replacement strings and glob patterns %s: exit 65 or '
                        'HARD_ERROR, naming the instruction' % [d[0] for d in DOC_LATEST] + st_text,
                  timeout=900, real=REAL_CLI, stubs=cli.STUBS, entry='MainProgram.execute([FILE]) past its argument parser: MainProgram.execute_test_case(settings).report(environment)'))
    obs.append(Ob(name='K7:seeded-oracle-error', fn='k7_document', case=dict(odd='mistakes', range=(0, 2), oracle_bug='identifier'), kernel='K7',
                  selector=True, bound='seeded: a syntax error is claimed to be a validation error', timeout=300, expect=ob.REFUTE))
    obs.append(Ob(name='K7:status:seeded-oracle-error', fn='k7_document', case=dict(odd='latest', range=(0, 3), oracle_bug='status'),
                  kernel='K7', selector=True, bound='seeded: with status FAIL every outcome but FAIL (and a syntax error) is claimed to be '
                                                    'XPASS', timeout=300, expect=ob.REFUTE))
    # ---- K8
    obs.append(Ob(name='K8:terminates', fn='k8_terminates', case=dict(), kernel='K8', selector=True,
                  bound='test cases with the integer expressions %s: the program ends within %d s with a documented outcome other than '
                        'INTERNAL_ERROR, identifier and exit code in agreement, no traceback' % ([d[0] for d in DOC_TERMINATES], K8_LIMIT_S),
                  timeout=600, real=REAL_CLI + ('exactly_lib.impls.types.integer.evaluate_integer.python_evaluate',), stubs=(STUB_K8,),
                  entry='exactly FILE (child process)',
                  outside=('expressions outside the catalogue: what eval() makes of a text is not modelled (C boundary); termination is '
                           'observed as "within %d s on this machine"' % K8_LIMIT_S,)))
    obs.append(Ob(name='K8:seeded-oracle-error', fn='k8_terminates', case=dict(oracle_bug=True), kernel='K8', selector=True,
                  bound='seeded: every test case is claimed to PASS', timeout=300, expect=ob.REFUTE))
    # ---- K9
    sp_text = 'the closing directive, or every directive, spelled %s' % (list(files.SPELLINGS),)
    lay_text = 'files laid out as %s' % ([l[0] for l in files.LAYOUTS],)
    what_cycle = ('FILE_ACCESS_ERROR, exit 65, nothing executed, the message shows every `including` line of the chain in order (file - by '
                  'the name used and denoting that file -, line number, source line)')
    if quick:
        for n in (1, 2, 3):
            obs.append(Ob(name='K9:cycle:len%d' % n, fn='k9_cycle', case=dict(n=n, diag=True), kernel='K9', selector=True,
                          bound='a cycle of %d file(s) including each other, entered at once or after one other file; %s; %s; the '
                                'section of the first directive (%s) and the way the test case file is named (%s) vary along with layout '
                                'and spelling (not crossed): %s' % (n, lay_text, sp_text, list(files.PHASES), list(files.MAIN_SPELLINGS),
                                                                     what_cycle),
                          timeout=600, real=REAL_FILES, stubs=STUBS_FILES, entry=ENTRY_FILES,
                          outside=('cycles of more than 3 files; hard links, bind mounts; `including` in [act] is source code of the actor',)))
    else:
        for n in (1, 2, 3):
            for tail in (0, 1):
                for li, lay in enumerate(files.LAYOUTS):
                    obs.append(Ob(name='K9:cycle:len%d:tail%d:%s' % (n, tail, lay[0]), fn='k9_cycle', case=dict(n=n, tail=tail, layout=li),
                                  kernel='K9', selector=True,
                                  bound='a cycle of %d file(s) including each other, entered after %d other file(s); files laid out as %s; '
                                        '%s; the first directive in each of the sections %s; the test case file named in each of the '
                                        'ways %s: %s' % (n, tail, lay[0], sp_text, list(files.PHASES), list(files.MAIN_SPELLINGS), what_cycle),
                                  timeout=1500, real=REAL_FILES, stubs=STUBS_FILES, entry=ENTRY_FILES,
                                  outside=('cycles of more than 3 files; hard links, bind mounts',)))
    obs.append(Ob(name='K9:cycle:seeded-oracle-error', fn='k9_cycle', case=dict(n=2, tail=0, layout=1, diag=True, oracle_bug=True), kernel='K9',
                  selector=True, bound='seeded: a cycle is claimed to be a syntax error', timeout=300, expect=ob.REFUTE))
    nf = len(K9_FAULTS)
    for depth in ((1, 2) if quick else (1, 2, 3)):
        for lo, hi in _chunks(nf, 21 if quick else 8):
            obs.append(Ob(name='K9:defect:depth%d:%d-%d' % (depth, lo, hi - 1), fn='k9_defect',
                          case=dict(depth=depth, faults=(lo, hi), diag='quick' if quick else 'thorough'), kernel='K9', selector=True,
                          bound='a chain of %d inclusion(s) whose last file is %s; %s (%s); %s; section of the first directive and naming of '
                                'the test case file vary along: a file that cannot be read is FILE_ACCESS_ERROR at the directive that names '
                                'it, a mistake in the file has the identifier of the catalogue and is shown below the chain of directives, '
                                'at its line of its file; exit 65, nothing executed; the control PASSes'
                                % (depth, [_k9_fault_name(f) for f in K9_FAULTS[lo:hi]], lay_text,
                                   'one layout per fault and spelling' if quick else 'each', sp_text if not quick else
                                   'the last directive spelled %s (a mistake inside the file: two of them)' % (list(files.SPELLINGS),)),
                          timeout=900 if quick else 2400, real=REAL_FILES, stubs=STUBS_FILES, entry=ENTRY_FILES,
                          outside=('files that cannot be read for lack of permission (the check may run as root)',)))
    obs.append(Ob(name='K9:defect:seeded-oracle-error', fn='k9_defect', case=dict(depth=1, faults=(0, 12), diag='quick', oracle_bug=True),
                  kernel='K9', selector=True, bound='seeded: a file that cannot be read is claimed to be a syntax error, a syntax error '
                                                    'in an included file a validation error', timeout=300, expect=ob.REFUTE))
    return obs


def selftest(tier: str) -> int:
    """Concrete checks of the harness' own parts against the real thing."""
    n = exc.selftest()
    n += files.selftest()
    # the valid bases of the grammar are valid: the real program runs them to PASS or FAIL
    for b in g.BASES:
        phase, tokens, act = g.base_parts(b)
        text, first, use_line = g.case_text(phase, g.line_of(tokens), act, use=g.use_of(tokens))
        r = cli.run_cli(text)
        if r['exc'] is not None or r['ident'] not in ('PASS', 'FAIL'):
            raise AssertionError('base is not a valid test case: %r -> %r %r' % (g.line_of(tokens), r['ident'], r['stderr'][:300]))
        n += 1
    # the entry used (MainProgram.execute_test_case on directly built settings) agrees with MainProgram.execute([FILE])
    def norm(r):
        return (r['rc'], r['stdout'], r['stderr'].replace(r['path'].rsplit('/h/case/', 1)[0], '<work>'), r['process_starts'], r['sandboxes'])
    sample = _mutants(0)[::7] if tier == 'quick' else _mutants(0)
    for bi, name, phase, text, act, exp, use in sample:
        if g.regions_of(name, text):
            continue
        case, first, use_line = g.case_text(phase, text, act, use=use)
        a, b = cli.run_cli(case), cli.run_cli(case, through_argument_parser=True)
        if norm(a) != norm(b):
            raise AssertionError('entries differ on %r: %r / %r' % (text, norm(a), norm(b)))
        n += 1
    # the stub eval sits where the real eval is looked up
    from exactly_lib.impls.types.integer import evaluate_integer
    if evaluate_integer.python_evaluate(' 1+2 ') != 3:
        raise AssertionError('python_evaluate')
    _install_eval(K_INT, 0, 42)
    try:
        if evaluate_integer.python_evaluate('whatever') != 42:
            raise AssertionError('eval stub is not reached')
    finally:
        _uninstall_eval()
    # reference of K2 against hand-computed examples
    for rest, consumed, want in (('i a\nb', 0, ['i a']), ('i a\nb', 3, ['i a']), ('i a\nb', 4, ['i a']), ('i a\nb', 5, ['i a', 'b']),
                                 ('i a  \n\n', 7, ['i a']), ('i\n x \ny', 5, ['i', ' x']), ('i', 1, ['i'])):
        if _k2_expected_lines(rest, consumed) != want:
            raise AssertionError('K2 reference: %r %r -> %r' % (rest, consumed, _k2_expected_lines(rest, consumed)))
        n += 1
    return n


ASSUMPTIONS = [
    'eval and re.compile may return or raise anything (stubs); which exception they really raise for which text is `re` / Python',
    'subprocess.call is the only way exactly_lib starts processes; it is replaced by a recording stub that starts nothing '
    '(exit code 0, no output), so HARD_ERROR / FAIL outcomes that depend on real program results are not produced',
    'the catalogue of exception classes is that of the running interpreters (3.11.7 / 3.12.1), checked by the self-test',
    'K6 / K7 enter the program past its command-line parser (MainProgram.execute_test_case on the settings object that '
    'argument_parsing.parse builds for `exactly FILE`); the self-test compares this entry with MainProgram.execute([FILE]) on the '
    'quick-tier mutants (exit code, stdout, stderr, process starts, sandboxes)',
    'tool work-around: CrossHair is kept from "short-circuiting" its own contract-carrying replacements of the builtins hash() and '
    'repr() (harness/_C18_cli._chfix_builtin_contracts); the real functions are always executed - nothing is assumed',
    'K3:replace, K6, K7 [selector]: once the selectors are concrete the real code runs natively on concrete data (CrossHair tracing '
    'suspended, harness/_C18_cli.no_tracing): CrossHair\'s own model of re.sub / Match.expand does not raise like the real engine for '
    'an invalid replacement string; the solver decides the enumeration of the selector space, not the run itself',
    'K9 [selector]: the trees of files are made on the real file system (regular files, directories, symbolic links) below a scratch '
    'directory; the self-test checks, with the OS as the judge, that every spelling of a path denotes the file meant and that the '
    'cycles are cycles; the program is entered through MainProgram.execute([FILE]) with FILE spelled in five ways',
    'status (K6, K7): the status line is put in a [conf] section of its own in front of the test case, so the line numbers of the '
    'messages move by two - the comparison with the run without a status allows for exactly that; the message of a failing '
    'assertion is not compared (it may describe the test case file itself)',
]
OUTSIDE = [
    'every UTF-8 text: the program is run on a finite catalogue of mutants of a grammar of valid test cases (K6, K7); '
    'instruction names alone exceed any symbolic string bound',
    'errors that need a real child process (non-zero exit codes, output, time-outs)',
    'test suites (C16, C17); the symbol / help commands',
    'document and token level for all bounded symbolic texts: C07-K3/K6 and C09-K1 (their post-conditions let no exception of '
    'an undocumented class pass)',
]
