"""C08  Symbols: defined before use, defined once, type-checked, substituted faithfully.

Kernels (DESIGN.md section 4, C08):
  K1  validation.  Programs of def / reference statements are GENERATED as test-case text from symbolic
      selectors (statement kind, defined name, referenced name, value form, reference context, file layout),
      parsed by the REAL test-case parser and the REAL default actor and handed to the REAL
      `parse_atc_and_validate_symbols` (= `SymbolsValidator.validate` over `validate_symbol_usages`, the first
      thing the executor does) with the builtin symbols of the main program predefined.  Oracle: a def/reference
      interpreter written from the manual (`_C08_lib.Model`): walk the phases in execution order, file order
      inside a phase; error iff a name is defined twice (builtins count), a reference precedes / lacks its
      definition, or the referenced symbol - directly or through the symbols it is built from - has a type (or
      path relativity) the context forbids.  Accepted <=> no error; rejected = VALIDATION_ERROR; the table of an
      accepted case is the builtins plus the definitions, with the defined types and values.
        K1:order   names / order / phases / layouts (strings only)
        K1:types   chains  X0 := constant; X1 := f(X0); ...; context(X_last)  over all 13 value types
        K1:cli     the same programs through the REAL MainProgram.execute: exit code + identifier, and nothing
                   executed (no process, no sandbox) when rejected.                             [selector]
        K1:suite   several case files run by ONE main program (`suite`): every case is judged from the builtins
                   alone - a definition of one case is not visible in the next.                 [selector]
  K2  visibility at execution time: REAL `def` instructions (parsed from text) in symbolic phases, probe stub
      instructions after every position and a probe action-to-check, through the REAL executor:
      `environment.symbols` of every main step (and of act prepare / execute) holds exactly the builtins plus the
      names defined earlier in execution order, each resolving to its defined value.             [selector]
  K3  substitution: REAL parse of `def string / def list` values with references, validated by the real
      validator, resolved by the real SDV/DDV classes; the VALUES of the referenced symbols are symbolic strings
      (|s| <= 2 / 3) and a symbolic list of <= 2 symbolic strings.  Oracle: concatenation; splicing of list
      elements; a list inside a string joined by single spaces.
        K3:cli     concrete values through the whole program, observed as the argv handed to subprocess:
                   strings, lists, paths as absolute paths.                                      [selector]
  K4  a definition whose main step is SKIPPED because an earlier instruction failed (hard error in setup /
      before-assert / assert, FAIL in assert), referenced from [cleanup] (which always runs), through the REAL
      MainProgram.execute: the outcome is the one of the first failure (or a hard error of the cleanup
      instruction) - never INTERNAL_ERROR / an exception.                                        [selector]

      K4:act-option: the same with `--act FILE` (before-assert and assert are not executed) and no failure.
  K5  a symbol is visible to EVERY STEP of every later instruction (definitions that DO run): the validation steps of
      an instruction run before the main step of the definition it refers to, yet must find the symbol.
        K5:steps   REAL `def` of every value type (a constant; optionally a second one built from it) in symbolic
                   phases, using stubs in every phase / position after it and a using stub action to check, through
                   the REAL executor: every step that is given an environment (validate-pre-sds, validate-post-setup,
                   main; act: prepare, execute) finds the symbol in `environment.symbols`, of the defined type, and
                   resolves it (transitively) against that table to the defined value.            [selector]
        K5:cli     REAL instructions that resolve their references in validate-post-setup (`exists`, reaching 12
                   value types), validate-pre-sds and main, after a `def` in setup / before-assert / assert, through
                   the REAL MainProgram.execute: PASS / FAIL according to the DEFINED value.        [selector]
  K6  references written in the ACT phase, for EVERY actor (command line, file interpreter, source interpreter, null) and every
      place of a reference (program name, arguments, -stdin, -transformed-by, program symbol + extra arguments, shell command
      line, executable file, file name and arguments of the file interpreter, source lines, the ACT-INTERPRETER of `actor = ...`),
      the actor named in [conf] of the case, in [conf] of a suite, by --actor or not at all; the referenced symbol undefined,
      defined in [setup] / [before-assert] / [assert] / [cleanup], of any value type (a constant, or built from another symbol),
      through the REAL MainProgram.execute: VALIDATION_ERROR with nothing executed (no process - not even the one of [setup] -
      and no sandbox) unless the symbol is defined in [setup] with a type the place accepts; then PASS and the process of the
      action to check receives the DEFINED value (argv / command line / stdin / source file / transformed stdout).  [selector]

Regions (known findings; switched on by known_findings.json):
  C08-cleanup-references-skipped-definition   the definition passed validation but never ran, and a [cleanup]
      instruction evaluates the symbol: KeyError in SymbolTable.lookup -> INTERNAL_ERROR (exit 129)
  C08-act-option-cleanup-references-skipped-definition   the same, the definition being skipped because its phase
      ([before-assert] / [assert]) is not executed with --act: traceback, exit 129
"""
import itertools
from typing import List

from vsym import ob
from vsym.ob import Ob

from harness import _C08_lib as lib
from harness._C08_lib import ANY, STR, TEXT, PATHSTR, PATH, TYPE, ALL_REL, REL_WRITE, REL_CD, REL_READ, Model, Sym

PROPERTY = 'C08'

REAL_VALIDATION = (
    'exactly_lib.execution.impl.symbol_validation.validate_symbol_usages',
    'exactly_lib.execution.impl.symbol_validation.validate_symbol_usage',
    'exactly_lib.execution.impl.symbol_validation._validate_symbol_definition',
    'exactly_lib.execution.impl.symbol_validation._validate_symbol_reference',
    'exactly_lib.execution.impl.symbol_validation._validate_reference',
    'exactly_lib.execution.partial_execution.impl.symbol_validation.SymbolsValidator',
    'exactly_lib.execution.partial_execution.impl.symbol_validation.ValidateSymbolsExecutor',
    'exactly_lib.execution.partial_execution.impl.executor.parse_atc_and_validate_symbols',
    'exactly_lib.symbol.sdv_structure.SymbolDefinition',
    'exactly_lib.symbol.sdv_structure.SymbolReference',
    'exactly_lib.symbol.sdv_structure.SymbolContainer',
    'exactly_lib.util.symbol_table.SymbolTable',
    'exactly_lib.type_val_deps.sym_ref.w_str_rend_restrictions.reference_restrictions.ReferenceRestrictionsOnDirectAndIndirect',
    'exactly_lib.type_val_deps.sym_ref.w_str_rend_restrictions.reference_restrictions.OrReferenceRestrictions',
    'exactly_lib.type_val_deps.sym_ref.w_str_rend_restrictions.value_restrictions.ArbitraryValueWStrRenderingRestriction',
    'exactly_lib.type_val_deps.sym_ref.w_str_rend_restrictions.value_restrictions.PathAndRelativityRestriction',
    'exactly_lib.type_val_deps.sym_ref.restrictions.ValueTypeRestriction',
    'exactly_lib.type_val_deps.types.path.references.path_or_string_reference_restrictions',
    'exactly_lib.impls.instructions.multi_phase.define_symbol.parser.EmbryoParser.parse',
    'exactly_lib.impls.instructions.multi_phase.define_symbol.parser._parse',
    'exactly_lib.impls.instructions.multi_phase.define_symbol.parser.TheInstructionEmbryo',
    'exactly_lib.impls.instructions.multi_phase.define_symbol.type_setup.TYPE_SETUPS_LIST',
    'exactly_lib.impls.instructions.multi_phase.define_symbol.type_parser',
    'exactly_lib.symbol.symbol_syntax.split',
    'exactly_lib.symbol.symbol_syntax.parse_symbol_reference__from_str',
    'exactly_lib.impls.types.string_.parse_string.string_sdv_from_fragments',
    'exactly_lib.impls.types.list_.parse_list.parse_list_from_token_parser',
    'exactly_lib.impls.types.path.parse_path._Parser',
    'exactly_lib.cli_default.program_modes.test_case.builtin_symbols.strings.all_strings',
    'exactly_lib.cli_default.program_modes.test_case.builtin_symbols.test_case_dir_symbols.ALL',
    'exactly_lib.processing.parse.test_case_parser.new_parser',
)

# ============================================================================ K1:order

ORDER_NAMES = ('A', 'TAB', 'B')  # TAB is a builtin
D, R, DR = 0, 1, 2  # def string N = constant | reference to R | def string N = x@[R]@y


def _layouts(phases) -> List[tuple]:
    """All orders of the statements in the FILE that keep the relative order of statements of the same phase
    (the sequence order is the file order inside a phase); the first is the identity."""
    k = len(phases)
    out = []
    for perm in itertools.permutations(range(k)):
        ok = True
        for a in range(k):
            for b in range(a + 1, k):
                if phases[perm[a]] == phases[perm[b]] and perm[a] > perm[b]:
                    ok = False
        if ok:
            out.append(perm)
    return out


def order_program(phases, kinds, names, refs, perm):
    """-> (statements (phase, line) in file order, expected) where expected is None (rejected) or
    {name: (type, value)} of the definitions."""
    k = len(phases)
    stm = []
    for i in range(k):
        n, r = ORDER_NAMES[names[i]], ORDER_NAMES[refs[i]]
        if kinds[i] == D:
            stm.append('def string %s = v%d' % (n, i))
        elif kinds[i] == DR:
            stm.append('def string %s = x@[%s]@y' % (n, r))
        elif phases[i] == 'act':
            stm.append(None)
        else:
            stm.append('env V%d = "q@[%s]@"' % (i, r))
    act_refs = [ORDER_NAMES[refs[i]] for i in range(k) if phases[i] == 'act']
    statements = []
    act_done = False
    for i in perm:
        if phases[i] == 'act':
            if not act_done:
                statements.append(('act', '$ echo ' + ' '.join('@[%s]@' % r for r in act_refs)))
                act_done = True
        else:
            statements.append((phases[i], stm[i]))
    # ---- reference interpreter
    m = Model()
    defs = {}
    for i in lib.execution_order(phases):
        n, r = ORDER_NAMES[names[i]], ORDER_NAMES[refs[i]]
        if kinds[i] == D:
            ok = m.define(n, Sym('string', (), value='v%d' % i), [])
        elif kinds[i] == DR:
            ok = m.define(n, Sym('string', (r,)), [(r, ANY)])
            if ok:
                m.table[n].value = 'x' + m.table[r].value + 'y'
        else:
            ok = m.ref_ok(r, ANY)
        if not ok:
            return statements, None
        if kinds[i] != R:
            defs[n] = ('string', m.table[n].value)
    return statements, defs


def render(statements) -> str:
    """The test-case text: one section header per statement, in the order given."""
    return ''.join('[%s]\n%s\n' % (ph, line) for ph, line in statements)


def _check_validation(text, expected, oracle_bug: bool = False) -> bool:
    """Runs the real validation on `text` (a test-case text: real parse of the whole; or a list of statements:
    real parse per statement, cached) and compares with the model's expectation."""
    res = lib.validate(text)
    if expected is None:
        return res[0] == 'VALIDATION_ERROR'
    if res[0] != 'OK':
        return False
    symbols = res[1]
    types = lib.types_of(symbols)
    want = {n: t for n, (t, _rel, _v) in lib.BUILTINS.items()}
    for n, (t, v) in expected.items():
        want[n] = t
    if oracle_bug and expected:
        del want[sorted(expected)[0]]
    if types != want:
        return False
    for n, (t, v) in expected.items():
        if t == 'string' and v is not None and lib.string_value(symbols, n) != v:
            return False
    return True


def _pre_order(k0, n0, r0, k1, n1, r1, k2, n2, r2, k3, n3, r3, lay) -> bool:
    case = ob.case()
    phases = case['phases']
    ks, ns, rs = (k0, k1, k2, k3), (n0, n1, n2, n3), (r0, r1, r2, r3)
    for i in range(4):
        if i >= len(phases):
            if ks[i] != 0 or ns[i] != 0 or rs[i] != 0:
                return False
            continue
        if not (0 <= ks[i] < case['kinds'] and 0 <= ns[i] < case['names'] and 0 <= rs[i] < case['names']):
            return False
        if phases[i] == 'act' and ks[i] != R:
            return False  # the act phase holds the action to check: no instructions, hence no definitions
        if ks[i] == D and rs[i] != 0:
            return False  # unused selector
        if ks[i] == R and ns[i] != 0:
            return False  # unused selector
    return 0 <= lay < _n_layouts(case)


def _n_layouts(case) -> int:
    n = len(_layouts(case['phases']))
    return n if case['layouts'] == 'all' else min(n, 2) if case['layouts'] == 'two' else 1


def _layout(case, lay: int) -> tuple:
    ls = _layouts(case['phases'])
    if case['layouts'] == 'two':
        ls = [ls[0], ls[-1]]  # identity and the full reversal of the phases
    return ls[lay]


def k1_order(k0: int, n0: int, r0: int, k1: int, n1: int, r1: int, k2: int, n2: int, r2: int,
             k3: int, n3: int, r3: int, lay: int) -> bool:
    """
    pre: _pre_order(k0, n0, r0, k1, n1, r1, k2, n2, r2, k3, n3, r3, lay)
    post: _
    """
    case = ob.case()
    phases = case['phases']
    k = len(phases)
    kinds = [ob.concrete_int(x, 0, 2) for x in (k0, k1, k2, k3)[:k]]
    names = [ob.concrete_int(x, 0, 2) for x in (n0, n1, n2, n3)[:k]]
    refs = [ob.concrete_int(x, 0, 2) for x in (r0, r1, r2, r3)[:k]]
    perm = _layout(case, ob.concrete_int(lay, 0, 23))
    statements, expected = order_program(phases, kinds, names, refs, perm)
    if case.get('oracle_bug') == 'dup' and expected is None:
        # seeded oracle error: the oracle forgets that a builtin name cannot be defined again
        names2 = [(2 if ORDER_NAMES[n] == 'TAB' and kinds[i] != R else n) for i, n in enumerate(names)]
        expected = order_program(phases, kinds, names2, refs, perm)[1]
    if case.get('via') == 'cli':
        return ob.post(_check_cli(render(statements), expected))
    if case.get('via') == 'text':
        return ob.post(_check_validation(render(statements), expected))
    return ob.post(_check_validation(statements, expected, case.get('oracle_bug') == 'table'))


def _check_cli(text: str, expected) -> bool:
    r = lib.run_cli(text)
    if r['exc'] is not None:
        return False
    if expected is None:
        return r['rc'] == 65 and r['ident'] == 'VALIDATION_ERROR' and not r['calls'] and not r['sandboxes']
    return r['rc'] == 0 and r['ident'] == 'PASS' and len(r['sandboxes']) == 1


# ---------------------------------------------------------------------------- K1:suite

def _pre_suite(k0: int, n0: int, r0: int, k1: int, n1: int, r1: int, k2: int, n2: int, r2: int) -> bool:
    case = ob.case()
    ks, ns, rs = (k0, k1, k2), (n0, n1, n2), (r0, r1, r2)
    for i in range(3):
        if i >= case['cases']:
            if ks[i] != 0 or ns[i] != 0 or rs[i] != 0:
                return False
            continue
        if not (0 <= ks[i] < case['kinds'] and 0 <= ns[i] < case['names'] and 0 <= rs[i] < case['names']):
            return False
        if (ks[i] == D and rs[i] != 0) or (ks[i] == R and ns[i] != 0):
            return False  # unused selectors
    return True


def k1_suite(k0: int, n0: int, r0: int, k1: int, n1: int, r1: int, k2: int, n2: int, r2: int) -> bool:
    """
    pre: _pre_suite(k0, n0, r0, k1, n1, r1, k2, n2, r2)
    post: _
    """
    case = ob.case()
    n = case['cases']
    texts, want = [], []
    for k, nm, rf in ((k0, n0, r0), (k1, n1, r1), (k2, n2, r2))[:n]:
        k, nm, rf = ob.concrete_int(k, 0, 2), ob.concrete_int(nm, 0, 2), ob.concrete_int(rf, 0, 2)
        # every case of a suite is a test case of its own: one statement in [setup], judged from the builtins alone
        statements, expected = order_program(('setup',), (k,), (nm,), (rf,), (0,))
        texts.append(render(statements))
        want.append('VALIDATION_ERROR' if expected is None else 'PASS')
    if case.get('oracle_bug'):
        want[-1] = 'PASS'
    r = lib.run_suite(texts)
    return ob.post(r['exc'] is None and r['statuses'] == want)


# ============================================================================ K1:types

# (label, type, value syntax, relativity of a path)
CONSTS = (
    ('string', 'string', 'sv', None),
    ('list', 'list', 'e1 e2', None),
    ('path-act', 'path', '-rel-act f', 'act'),
    ('path-home', 'path', '-rel-home f', 'hds-case'),
    ('path-result', 'path', '-rel-result f', 'result'),
    ('path-tmp', 'path', '-rel-tmp f', 'tmp'),
    ('path-cd', 'path', '-rel-cd f', 'cwd'),
    ('path-act-home', 'path', '-rel-act-home f', 'hds-act'),
    ('path-abs', 'path', '/abs/f', 'abs'),
    ('path-default', 'path', 'f', 'cwd'),
    ('integer-matcher', 'integer-matcher', '== 1', None),
    ('line-matcher', 'line-matcher', 'contents matches x', None),
    ('file-matcher', 'file-matcher', 'type file', None),
    ('files-matcher', 'files-matcher', 'is-empty', None),
    ('files-condition', 'files-condition', '{ f }', None),
    ('files-source', 'files-source', '{ file f }', None),
    ('text-source', 'text-source', "'x'", None),
    ('text-matcher', 'text-matcher', 'is-empty', None),
    ('text-transformer', 'text-transformer', 'char-case -to-upper', None),
    ('program', 'program', '% echo', None),
    # builtins: no definition line, the chain starts at the builtin
    ('builtin-TAB', None, 'TAB', None),
    ('builtin-EXACTLY_HOME', None, 'EXACTLY_HOME', None),
    ('builtin-EXACTLY_RESULT', None, 'EXACTLY_RESULT', None),
    ('builtin-EXACTLY_ACT', None, 'EXACTLY_ACT', None),
)
N_WSTR_CONSTS = 10  # the first ten are the types with string rendering

# (label, type, value syntax with {x}, references in order of appearance: (who, restriction) with who = 'x' (the previous
#  symbol of the chain) or the name of a builtin, relativity rule of a path)
def _x(restriction):
    return (('x', restriction),)


LINKS = (
    ('string', 'string', 'p@[{x}]@q', _x(ANY), None),
    ('list', 'list', 'a @[{x}]@', _x(ANY), None),
    ('path-prefix', 'path', '@[{x}]@/g', _x(PATHSTR(ALL_REL)), ('of', '{x}', 'cwd')),
    ('path-rel', 'path', '-rel {x} g', _x(PATH(ALL_REL)), ('of', '{x}', None)),
    ('path-suffix', 'path', '-rel-tmp @[{x}]@', _x(STR), 'tmp'),
    ('string-TAB-x', 'string', '@[TAB]@@[{x}]@', (('TAB', ANY), ('x', ANY)), None),
    ('string-x-TAB', 'string', '"@[{x}]@ @[TAB]@"', (('x', ANY), ('TAB', ANY)), None),
    ('list-ACT-x', 'list', '@[EXACTLY_ACT]@ @[{x}]@', (('EXACTLY_ACT', ANY), ('x', ANY)), None),
    ('path-suffix-home', 'path', '-rel-home d/@[{x}]@', _x(STR), 'hds-case'),
    ('path-suffix-2', 'path', '-rel-act @[NEW_LINE]@@[{x}]@', (('NEW_LINE', STR), ('x', STR)), 'act'),
    ('list-quoted', 'list', '"@[{x}]@" b', _x(ANY), None),
    ('path-whole', 'path', '@[{x}]@', _x(PATHSTR(ALL_REL)), ('of', '{x}', 'cwd')),
    # references in the SUFFIX (file-name components) of a path without a relativity option / after a leading path
    # symbol / after `-rel SYMBOL`: strings built from strings only
    ('path-norel-suffix', 'path', 'a/@[{x}]@', _x(STR), 'cwd'),
    ('path-norel-infix', 'path', 'out-@[{x}]@.txt', _x(STR), 'cwd'),
    ('path-head-suffix', 'path', '@[EXACTLY_TMP]@/d-@[{x}]@', (('EXACTLY_TMP', PATHSTR(ALL_REL)), ('x', STR)),
     ('of', 'EXACTLY_TMP', 'cwd')),
    ('path-rel-sym-suffix', 'path', '-rel EXACTLY_ACT @[{x}]@', (('EXACTLY_ACT', PATH(ALL_REL)), ('x', STR)),
     ('of', 'EXACTLY_ACT', None)),
    # -- types without string rendering
    ('integer-matcher-ref', 'integer-matcher', '{x}', _x(TYPE('integer-matcher')), None),
    ('integer-matcher-operand', 'integer-matcher', '== @[{x}]@', _x(STR), None),
    ('line-matcher-ref', 'line-matcher', '{x}', _x(TYPE('line-matcher')), None),
    ('line-matcher-regex', 'line-matcher', 'contents matches @[{x}]@', _x(ANY), None),
    ('line-matcher-negation', 'line-matcher', '! {x}', _x(TYPE('line-matcher')), None),
    ('file-matcher-ref', 'file-matcher', '{x}', _x(TYPE('file-matcher')), None),
    ('files-matcher-ref', 'files-matcher', '{x}', _x(TYPE('files-matcher')), None),
    ('files-condition-ref', 'files-condition', '{x}', _x(TYPE('files-condition')), None),
    ('files-condition-name', 'files-condition', '{{ @[{x}]@ }}', _x(STR), None),
    ('files-source-ref', 'files-source', '{x}', _x(TYPE('files-source')), None),
    ('text-source-ref', 'text-source', '@[{x}]@', _x(TEXT), None),
    ('text-source-string', 'text-source', '"@[{x}]@"', _x(ANY), None),
    ('text-matcher-ref', 'text-matcher', '{x}', _x(TYPE('text-matcher')), None),
    ('text-transformer-ref', 'text-transformer', '{x}', _x(TYPE('text-transformer')), None),
    ('text-transformer-filter', 'text-transformer', 'filter {x}', _x(TYPE('line-matcher')), None),
    ('program-ref', 'program', '@ {x}', _x(TYPE('program')), None),
    ('program-arg', 'program', '% echo @[{x}]@', _x(ANY), None),
    ('program-name', 'program', '% @[{x}]@', _x(STR), None),
    ('program-name-and-arg', 'program', '% @[OS_PATH_SEP]@ @[{x}]@', (('OS_PATH_SEP', STR), ('x', ANY)), None),
)
N_WSTR_LINKS = 16

# (label, phase, line with {x}, restriction on x)
CTXS = (
    ('argument', 'setup', '% echo @[{x}]@', ANY),
    ('integer', 'setup', 'timeout = @[{x}]@', STR),
    ('cd', 'setup', 'cd @[{x}]@', PATHSTR(REL_CD)),
    ('file-dst', 'setup', "file @[{x}]@/f.txt = 'c'", PATHSTR(REL_WRITE)),
    ('copy-src', 'setup', 'copy @[{x}]@', PATHSTR(REL_READ)),
    ('dir-rel', 'setup', 'dir -rel {x} d', PATH(REL_WRITE)),
    ('text', 'setup', 'file f.txt = @[{x}]@', TEXT),
    ('act-argument', 'act', '$ echo @[{x}]@', ANY),
    # references in the suffix of a path (see LINKS)
    ('file-dst-norel-suffix', 'setup', "file out-@[{x}]@ = 'c'", STR),
    ('cd-head-suffix', 'setup', 'cd @[EXACTLY_ACT]@/@[{x}]@', STR),
    ('dir-norel-suffix', 'before-assert', 'dir a/@[{x}]@', STR),
    # -- types without string rendering
    ('line-matcher', 'assert', 'contents f.txt : any line : {x}', TYPE('line-matcher')),
    ('integer-matcher', 'assert', 'exit-code {x}', TYPE('integer-matcher')),
    ('text-matcher', 'assert', 'stdout {x}', TYPE('text-matcher')),
    ('file-matcher', 'assert', 'exists f : {x}', TYPE('file-matcher')),
    ('files-matcher', 'assert', 'dir-contents . : {x}', TYPE('files-matcher')),
    ('files-condition', 'assert', 'dir-contents . : matches {x}', TYPE('files-condition')),
    ('files-source', 'before-assert', 'dir d = {x}', TYPE('files-source')),
    ('text-transformer', 'cleanup', "file f.txt = 'c' -transformed-by {x}", TYPE('text-transformer')),
    ('program', 'setup', 'run @ {x}', TYPE('program')),
    ('act-program', 'act', '@ {x} arg', TYPE('program')),
    ('act-executable', 'act', '@[{x}]@ arg', PATHSTR(REL_READ)),
    ('env-name', 'cleanup', 'env @[{x}]@ = v', STR),
    ('assert-integer', 'assert', 'exit-code == @[{x}]@', STR),
    ('string-in-text', 'before-assert', 'file f.txt = "a @[{x}]@ b"', ANY),
)
N_WSTR_CTXS = 11
_CTX_LABELS = [c[0] for c in CTXS]
MATCHING_CTX = {'string': _CTX_LABELS.index('argument'), 'list': _CTX_LABELS.index('argument'),
                'path': _CTX_LABELS.index('argument')}
for _t in ('line-matcher', 'integer-matcher', 'text-matcher', 'file-matcher', 'files-matcher', 'files-condition',
           'files-source', 'text-transformer', 'program'):
    MATCHING_CTX[_t] = _CTX_LABELS.index(_t)
MATCHING_CTX['text-source'] = _CTX_LABELS.index('text')


def chain_program(const, links, ctx, model_cls=Model):
    """X0 := constant `const` (or a builtin); X_j := link_j(X_{j-1}); finally a reference to the last in `ctx`.
    -> (statements, expected)"""
    m = model_cls()
    statements = []
    defs = {}
    ok = True
    clabel, ctype, cval, crel = const
    if ctype is None:
        prev = cval
    else:
        prev = 'X0'
        statements.append(('setup', 'def %s X0 = %s' % (ctype, cval)))
        ok = m.define('X0', Sym(ctype, (), rel=crel), [])
        defs['X0'] = (ctype, None)
    for j, (llabel, ltype, lval, lrefs, lrel) in enumerate(links):
        name = 'X%d' % (j + 1)
        statements.append(('setup', 'def %s %s = %s' % (ltype, name, lval.format(x=prev))))
        if ok:
            rel = lrel
            if isinstance(lrel, tuple):
                rel = ('of', (prev if lrel[1] == '{x}' else lrel[1]), lrel[2])
            refs = [((prev if who == 'x' else who), restr) for who, restr in lrefs]
            ok = m.define(name, Sym(ltype, [n for n, _ in refs], rel=rel), refs)
            defs[name] = (ltype, None)
        prev = name
    xlabel, xphase, xline, xrestr = ctx
    statements.append((xphase, xline.format(x=prev)))
    if ok:
        ok = m.ref_ok(prev, xrestr)
    return statements, (defs if ok else None)


class _ModelDirectOnly(Model):
    """Seeded oracle error: only the directly referenced symbol is checked."""

    def all_strings(self, name):
        return True


def _pre_types(c: int, l1: int, l2: int, l3: int, x: int) -> bool:
    case = ob.case()
    ls = (l1, l2, l3)
    for j in range(3):
        if j < case['k']:
            if not (0 <= ls[j] < len(case['links'])):
                return False
        elif ls[j] != 0:
            return False
    if case['ctxs'] == 'match':
        return 0 <= c < len(case['consts']) and x == 0
    return 0 <= c < len(case['consts']) and 0 <= x < len(case['ctxs'])


def k1_types(c: int, l1: int, l2: int, l3: int, x: int) -> bool:
    """
    pre: _pre_types(c, l1, l2, l3, x)
    post: _
    """
    case = ob.case()
    const = CONSTS[ob.pick(case['consts'], c)]
    links = [LINKS[ob.pick(case['links'], l)] for l in (l1, l2, l3)[:case['k']]]
    if case['ctxs'] == 'match':
        # the context that demands exactly the type of the last definition: acceptance is decided by the chain
        last = links[-1][1] if links else (const[1] or lib.BUILTINS[const[2]][0])
        ctx = CTXS[MATCHING_CTX[last]]
    else:
        ctx = CTXS[ob.pick(case['ctxs'], x)]
    statements, expected = chain_program(const, links, ctx)
    if case.get('oracle_bug') and expected is None:
        expected = chain_program(const, links, ctx, _ModelDirectOnly)[1]
    if case.get('via') == 'text':
        return ob.post(_check_validation(render(statements), expected))
    return ob.post(_check_validation(statements, expected))


# ============================================================================ K2

REAL_K2 = (
    'exactly_lib.execution.partial_execution.impl.executor._PartialExecutor.execute',
    'exactly_lib.execution.partial_execution.impl.executor._PartialExecutor._setup_post_sds_environment',
    'exactly_lib.execution.partial_execution.impl.executor._PartialExecutor._post_sds_main_environments',
    'exactly_lib.execution.partial_execution.impl.executor._PartialExecutor._construct_act_phase_executor',
    'exactly_lib.execution.partial_execution.impl.executor._PartialExecutor._setup_pre_sds_environment',
    'exactly_lib.execution.partial_execution.impl.executor.parse_atc_and_validate_symbols',
    'exactly_lib.execution.partial_execution.impl.symbol_validation.SymbolsValidator',
    'exactly_lib.execution.impl.symbol_validation.validate_symbol_usages',
    'exactly_lib.impls.instructions.multi_phase.define_symbol.parser.TheInstructionEmbryo.main',
    'exactly_lib.impls.instructions.multi_phase.define_symbol.parser.TheInstructionEmbryo.custom_main',
    'exactly_lib.impls.instructions.multi_phase.define_symbol.parser.EmbryoParser.parse',
    'exactly_lib.util.symbol_table.SymbolTable',
    'exactly_lib.execution.full_execution.execution.execute',
)

K2_PHASES = ('setup', 'before-assert', 'assert', 'cleanup')
K2_NAMES = ('A', 'B', 'C')


def _k2_plan(phases, drefs):
    """-> per slot (name, line, value) with a reference to the previously defined name where drefs says so;
    None if a dref has no earlier definition to refer to."""
    order = sorted(range(len(phases)), key=lambda i: (K2_PHASES.index(phases[i]), i))
    out = [None] * len(phases)
    prev = None
    for i in order:
        name = K2_NAMES[i]
        if drefs[i]:
            if prev is None:
                return None
            out[i] = (name, 'def string %s = x@[%s]@' % (name, prev[0]), 'x' + prev[1])
        else:
            out[i] = (name, 'def string %s = v%s' % (name, name.lower()), 'v' + name.lower())
        prev = (out[i][0], out[i][2])
    return out


def _pre_k2(p0: int, p1: int, p2: int, d0: bool, d1: bool, d2: bool) -> bool:
    k = ob.case()['k']
    ps, ds = (p0, p1, p2), (d0, d1, d2)
    for i in range(3):
        if i < k:
            if not (0 <= ps[i] < 4):
                return False
        elif ps[i] != 0 or ds[i]:
            return False
    if not ob.case()['drefs'] and (d0 or d1 or d2):
        return False
    phases = [K2_PHASES[ps[i]] for i in range(k)]
    return _k2_plan(phases, ds[:k]) is not None


def k2_visibility(p0: int, p1: int, p2: int, d0: bool, d1: bool, d2: bool) -> bool:
    """
    pre: _pre_k2(p0, p1, p2, d0, d1, d2)
    post: _
    """
    from vsym import exeharness as xh
    from exactly_lib.section_document.model import SectionContents
    from exactly_lib.test_case import test_case_doc
    case = ob.case()
    k = case['k']
    phases = [ob.pick(K2_PHASES, p) for p in (p0, p1, p2)[:k]]
    drefs = [ob.concrete_bool(d) for d in (d0, d1, d2)[:k]]
    slots = _k2_plan(phases, drefs)
    seen = {}  # cell -> {name: value} of the symbols other than builtins; None for an unexpected table

    def observer(cell, env, ctx):
        if cell[1] not in ('main', 'prepare', 'execute') or env is None:
            return
        names = env.symbols.names_set
        if not names.issuperset(lib.BUILTINS):
            seen[cell] = None
            return
        seen[cell] = {n: lib.string_value(env.symbols, n) for n in sorted(names) if n not in lib.BUILTINS}

    plan = xh.Plan(lambda cell: 0, observer)
    stub_of = {'setup': (xh.SetupStub, 'setup'), 'before-assert': (xh.BeforeAssertStub, 'ba'),
               'assert': (xh.AssertStub, 'assert'), 'cleanup': (xh.CleanupStub, 'cleanup')}
    sections = {}
    expected = {}
    visible = {}
    for ph in ('setup', 'act', 'before-assert', 'assert', 'cleanup'):
        if ph == 'act':
            expected[('act', 'prepare', 0)] = dict(visible)
            expected[('act', 'execute', 0)] = dict(visible)
            continue
        cls, cellname = stub_of[ph]
        elements = [xh.element(cls(plan, 0), 1, 'probe')]
        expected[(cellname, 'main', 0)] = dict(visible)
        pos = 0
        for i in range(k):
            if phases[i] == ph:
                name, line, value = slots[i]
                elements.extend(lib.elements_of(ph, line))
                visible[name] = value
                pos += 1
                elements.append(xh.element(cls(plan, pos), 1 + 2 * pos, 'probe'))
                expected[(cellname, 'main', pos)] = dict(visible)
        sections[ph] = SectionContents(tuple(elements))
    if case.get('oracle_bug'):
        # seeded oracle error: the oracle believes a definition is visible from the start of its phase
        for i in range(k):
            cellname = stub_of[phases[i]][1]
            expected[(cellname, 'main', 0)] = expected[(cellname, 'main', 1)]
    tc = test_case_doc.TestCase(SectionContents(()), sections['setup'], xh.section([xh.ActSourceStub()], 'act'),
                                sections['before-assert'], sections['assert'], sections['cleanup'])
    run = xh.execute(plan, tc, predefined_symbols=lib.parsing()['builtins']())
    if run.exception is not None or run.result is None:
        return False
    return ob.post(run.result.status.name == 'PASS' and seen == expected)


# ============================================================================ K3

REAL_K3 = (
    'exactly_lib.type_val_deps.types.string_.string_sdv_impls.SymbolStringFragmentSdv.resolve',
    'exactly_lib.type_val_deps.types.string_.string_sdv_impls.ConstantStringFragmentSdv.resolve',
    'exactly_lib.type_val_deps.types.string_.string_sdv.StringSdv',
    'exactly_lib.type_val_deps.types.string_.string_ddv.StringDdv.value_when_no_dir_dependencies',
    'exactly_lib.type_val_deps.types.string_.strings_ddvs.ListFragmentDdv',
    'exactly_lib.type_val_deps.types.string_.strings_ddvs.StringDdvFragmentDdv',
    'exactly_lib.type_val_deps.types.string_.strings_ddvs.ConstantFragmentDdv',
    'exactly_lib.type_val_deps.types.list_.list_sdv.ListSdv.resolve',
    'exactly_lib.type_val_deps.types.list_.list_sdv.SymbolReferenceElementSdv.resolve',
    'exactly_lib.type_val_deps.types.list_.list_sdv.StringElementSdv.resolve',
    'exactly_lib.type_val_deps.types.list_.list_ddv.ListDdv.value_when_no_dir_dependencies',
    'exactly_lib.impls.types.string_.parse_string.string_sdv_from_fragments',
    'exactly_lib.impls.types.list_.parse_list.parse_list_from_token_parser',
    'exactly_lib.symbol.symbol_syntax.split',
    'exactly_lib.impls.instructions.multi_phase.define_symbol.parser.EmbryoParser.parse',
    'exactly_lib.execution.impl.symbol_validation.validate_symbol_usages',
    'exactly_lib.execution.partial_execution.impl.executor.parse_atc_and_validate_symbols',
)

# A string template: (quoted?, parts) with parts ('c', text) | ('r', name).
# A program: sequence of (type, name, template | list of templates); S, T are strings and L is a list, predefined with
# symbolic values.


def _st(quoted, *parts):
    return (quoted, parts)


K3_PROGRAMS = {
    'string:pre-S-post': (('string', 'R', _st(False, ('c', 'pre'), ('r', 'S'), ('c', 'post'))),),
    'string:S-T': (('string', 'R', _st(False, ('r', 'S'), ('r', 'T'))),),
    'string:S-sep-T-quoted': (('string', 'R', _st(True, ('r', 'S'), ('c', ' - '), ('r', 'T'))),),
    'string:S-S': (('string', 'R', _st(True, ('r', 'S'), ('c', ' '), ('r', 'S'))),),
    'string:only-S': (('string', 'R', _st(False, ('r', 'S'))),),
    'string:L-quoted': (('string', 'R', _st(True, ('r', 'L'))),),
    'string:L-unquoted': (('string', 'R', _st(False, ('r', 'L'))),),
    'string:x-L-y': (('string', 'R', _st(False, ('c', 'x'), ('r', 'L'), ('c', 'y'))),),
    'string:S-L-quoted': (('string', 'R', _st(True, ('r', 'S'), ('c', ' '), ('r', 'L'))),),
    'list:a-L-b': (('list', 'R', [_st(False, ('c', 'a')), _st(False, ('r', 'L')), _st(False, ('c', 'b'))]),),
    'list:S-L': (('list', 'R', [_st(False, ('r', 'S')), _st(False, ('r', 'L'))]),),
    'list:L-L': (('list', 'R', [_st(False, ('r', 'L')), _st(False, ('r', 'L'))]),),
    'list:L-quoted-c': (('list', 'R', [_st(True, ('r', 'L')), _st(False, ('c', 'c'))]),),
    'list:xS-Ty': (('list', 'R', [_st(False, ('c', 'x'), ('r', 'S')), _st(False, ('r', 'T'), ('c', 'y'))]),),
    'list:xL': (('list', 'R', [_st(False, ('c', 'x'), ('r', 'L'))]),),
    'string:builtins': (('string', 'R', _st(True, ('r', 'TAB'), ('c', '|'), ('r', 'NEW_LINE'), ('c', '|'), ('r', 'OS_LINE_SEP'),
                                            ('c', '|'), ('r', 'OS_PATH_SEP'), ('c', '|'), ('r', 'S'))),),
    'chain:string-string': (('string', 'R1', _st(False, ('c', 'a'), ('r', 'S'))),
                            ('string', 'R', _st(False, ('r', 'R1'), ('r', 'T'), ('r', 'R1')))),
    'chain:list-string': (('list', 'R1', [_st(False, ('r', 'S')), _st(False, ('r', 'L')), _st(False, ('c', 'x'))]),
                          ('string', 'R', _st(True, ('c', '<'), ('r', 'R1'), ('c', '>')))),
    'chain:string-list-list': (('string', 'R1', _st(True, ('r', 'L'))),
                               ('list', 'R2', [_st(False, ('r', 'R1')), _st(False, ('r', 'L'))]),
                               ('list', 'R', [_st(False, ('c', 'h')), _st(False, ('r', 'R2')), _st(True, ('r', 'R2'))])),
}


def _template_text(t) -> str:
    quoted, parts = t
    body = ''.join(p[1] if p[0] == 'c' else '@[%s]@' % p[1] for p in parts)
    return '"%s"' % body if quoted else body


def _as_string(v) -> str:
    """A list inside a string: the elements joined by single spaces."""
    return ' '.join(v) if isinstance(v, list) else v


def _template_value(t, env) -> str:
    out = ''
    for p in t[1]:
        out = out + (p[1] if p[0] == 'c' else _as_string(env[p[1]]))
    return out


def k3_program(prog, env):
    """-> (statements, {name: expected value}) of the program with the symbol values `env`."""
    env = dict(env)
    statements = []
    expected = {}
    for ty, name, tpl in prog:
        if ty == 'string':
            statements.append(('setup', 'def string %s = %s' % (name, _template_text(tpl))))
            v = _template_value(tpl, env)
        else:
            statements.append(('setup', 'def list %s = %s' % (name, ' '.join(_template_text(t) for t in tpl))))
            v = []
            for t in tpl:
                quoted, parts = t
                if not quoted and len(parts) == 1 and parts[0][0] == 'r' and isinstance(env[parts[0][1]], list):
                    v = v + list(env[parts[0][1]])  # a reference to a list as an element: its elements are spliced in
                else:
                    v = v + [_template_value(t, env)]
        env[name] = v
        expected[name] = v
    return statements, expected


def _pre_k3(s: str, t: str, l0: str, l1: str, n: int) -> bool:
    case = ob.case()
    mx = case['maxlen']
    if not (len(s) <= mx and len(t) <= mx and len(l0) <= mx and len(l1) <= mx and 0 <= n <= 2):
        return False
    used = case['used']
    if 'S' not in used and s != '':
        return False
    if 'T' not in used and t != '':
        return False
    if 'L' not in used and (n != 0 or l0 != '' or l1 != ''):
        return False
    if n < 2 and l1 != '':
        return False
    if n < 1 and l0 != '':
        return False
    return True


def k3_substitution(s: str, t: str, l0: str, l1: str, n: int) -> bool:
    """
    pre: _pre_k3(s, t, l0, l1, n)
    post: _
    """
    from exactly_lib.symbol.sdv_structure import SymbolContainer
    from exactly_lib.symbol.value_type import ValueType
    from exactly_lib.type_val_deps.types.list_ import list_sdvs
    from exactly_lib.type_val_deps.types.string_ import string_sdvs
    case = ob.case()
    prog = K3_PROGRAMS[case['program']]
    n = ob.concrete_int(n, 0, 2)
    elements = [l0, l1][:n]
    predefined = lib.parsing()['builtins']()
    predefined.put('S', SymbolContainer(string_sdvs.str_constant(s), ValueType.STRING, None))
    predefined.put('T', SymbolContainer(string_sdvs.str_constant(t), ValueType.STRING, None))
    predefined.put('L', SymbolContainer(list_sdvs.from_str_constants(elements), ValueType.LIST, None))
    env = {name: v for name, (_t, _rel, v) in lib.BUILTINS.items() if v is not None}
    env.update({'S': s, 'T': t, 'L': elements})
    statements, expected = k3_program(prog, env)
    res = lib.validate(statements, predefined)
    if res[0] != 'OK':
        return False
    symbols = res[1]
    ok = True
    for name in sorted(expected):
        got = symbols.lookup(name).sdv.resolve(symbols).value_when_no_dir_dependencies()
        want = expected[name]
        if case.get('oracle_bug') and isinstance(want, list) and len(want) > 1:
            want = want[:-1]
        if isinstance(want, list):
            if len(got) != len(want):
                ok = False
            else:
                for a, b in zip(got, want):
                    if a != b:
                        ok = False
        elif got != want:
            ok = False
    return ob.post(ok)


_K3_DUMMY_ENV = dict({n: '' for n in lib.BUILTINS}, S='', T='', L=[])


def _k3_used(prog) -> str:
    used = set()
    defined = set()
    for ty, name, tpl in prog:
        for t in ([tpl] if ty == 'string' else tpl):
            for p in t[1]:
                if p[0] == 'r' and p[1] not in defined and p[1] in 'STL':
                    used.add(p[1])
        defined.add(name)
    return ''.join(sorted(used))


# ---------------------------------------------------------------------------- K3:text

def _strings_over(alphabet: str, maxlen: int) -> List[str]:
    out = []
    for n in range(maxlen + 1):
        out += [''.join(t) for t in itertools.product(alphabet, repeat=n)]
    return out


_K3T_CAT = {}


def _k3t_cat(case):
    key = (case['palpha'], case['plen'], case['qalpha'], case['qlen'])
    if key not in _K3T_CAT:
        _K3T_CAT[key] = (_strings_over(case['palpha'], case['plen']), _strings_over(case['qalpha'], case['qlen']))
    return _K3T_CAT[key]


def _pre_k3t(pi: int, qi: int, v: str) -> bool:
    case = ob.case()
    ps, qs = _k3t_cat(case)
    return 0 <= pi < len(ps) and 0 <= qi < len(qs) and len(v) <= case['vlen']


def _ref_split_seeded_error(s: str):
    """ref_split with a seeded error: after an incomplete `@[` the reading resumes two characters late."""
    out = []
    lit = ''
    i = 0
    n = len(s)
    while i < n:
        if s[i:i + 2] == '@[':
            j = i + 2
            while j < n and (s[j].isalnum() or s[j] == '_'):
                j += 1
            if j > i + 2 and s[j:j + 2] == ']@':
                if lit != '':
                    out.append((False, lit))
                    lit = ''
                out.append((True, s[i + 2:j]))
                i = j + 2
                continue
            lit = lit + s[i:j + 2]
            i = j + 2
            continue
        lit = lit + s[i]
        i += 1
    if lit != '':
        out.append((False, lit))
    return out


def k3_text(pi: int, qi: int, v: str) -> bool:
    """
    pre: _pre_k3t(pi, qi, v)
    post: _
    """
    from exactly_lib.execution.impl import symbol_validation
    from exactly_lib.impls.types.string_ import parse_string
    from exactly_lib.symbol.sdv_structure import SymbolContainer
    from exactly_lib.symbol.value_type import ValueType
    from exactly_lib.type_val_deps.types.string_ import string_sdvs
    from exactly_lib.util.parse.token import Token, TokenType
    case = ob.case()
    ps, qs = _k3t_cat(case)
    t = ob.pick(ps, pi) + case['mid'] + ob.pick(qs, qi)
    # the token the tokenizer delivers for the soft-quoted argument "t" (t holds no quote character)
    sdv = parse_string.parse_string_sdv_from_token(Token(TokenType.QUOTED, t, '"' + t + '"'))
    table = lib.parsing()['builtins']()
    table.put('S', SymbolContainer(string_sdvs.str_constant(v), ValueType.STRING, None))
    failure = symbol_validation.validate_symbol_usages(sdv.references, table)
    frs = _ref_split_seeded_error(t) if case.get('oracle_bug') else lib.ref_split(t)
    want = ''
    undefined = False
    for is_sym, x in frs:
        if not is_sym:
            want = want + x
        elif x == 'S':
            want = want + v
        else:
            undefined = True  # no other name over the alphabets is defined
    if undefined:
        return ob.post(failure is not None and failure.status.name == 'VALIDATION_ERROR')
    if failure is not None:
        return ob.post(False)
    return ob.post(sdv.resolve(table).value_when_no_dir_dependencies() == want)


# ---------------------------------------------------------------------------- K3:cli

K3C_S = (('ab', 'ab'), ("'a b'", 'a b'))  # (syntax, value)
K3C_L = (("x @[S]@ 'y z'", lambda sv: ['x', sv, 'y z']), ('', lambda sv: []), ('@[S]@', lambda sv: [sv]),
         ('"@[S]@ w" @[S]@', lambda sv: [sv + ' w', sv]))
# (syntax, root, suffix as a function of the value of S)
K3C_P = (('-rel-act @[S]@/f', 'act', lambda sv: sv + '/f'), ('-rel-home h', 'home', lambda sv: 'h'),
         ('-rel-tmp @[S]@', 'tmp', lambda sv: sv), ('@[EXACTLY_RESULT]@/r', 'result', lambda sv: 'r'),
         ('-rel-cd c/d', 'cwd', lambda sv: 'c/d'),
         # the builtin directory symbols
         ('@[EXACTLY_ACT]@/a', 'act', lambda sv: 'a'), ('@[EXACTLY_TMP]@/@[S]@', 'tmp', lambda sv: sv),
         ('@[EXACTLY_HOME]@/h', 'home', lambda sv: 'h'), ('-rel EXACTLY_ACT_HOME h', 'home', lambda sv: 'h'),
         # a string used as a path: relative to the default relativity of `def path` (the current directory)
         ('@[S]@/f', 'cwd', lambda sv: sv + '/f'))
K3C_PROBE = (('act', '% echo '), ('setup', '% echo '), ('cleanup', 'run % echo '), ('assert', 'run % echo '))
K3C_ARGS = '@[S]@ @[L]@ "@[L]@" @[P]@ "@[P]@/x" @[T]@ pre@[S]@post @[P2]@'


def _pre_k3c(si: int, li: int, pi: int, qi: int) -> bool:
    case = ob.case()
    lo, hi = case['paths']
    return 0 <= si < len(K3C_S) and 0 <= li < case['lists'] and lo <= pi < hi and qi == case['only']


def k3_cli(si: int, li: int, pi: int, qi: int) -> bool:
    """
    pre: _pre_k3c(si, li, pi, qi)
    post: _
    """
    import os
    case = ob.case()
    s_syntax, sv = ob.pick(K3C_S, si)
    l_syntax, l_of = ob.pick(K3C_L, li)
    p_syntax, p_root, p_suffix = ob.pick(K3C_P, pi)
    probe_phase, probe = ob.pick(K3C_PROBE, qi)
    lines = ['[setup]', 'def string S = ' + s_syntax, 'def list L = ' + l_syntax, 'def path P = ' + p_syntax,
             'def string T = "p @[L]@ q @[P]@"', 'def path P2 = @[P]@/sub']
    if probe_phase != 'setup':
        lines.append('[%s]' % probe_phase)
    lines.append(probe + K3C_ARGS)
    r = lib.run_cli('\n'.join(lines) + '\n')
    if r['exc'] is not None or r['rc'] != 0 or r['ident'] != 'PASS' or len(r['sandboxes']) != 1 or len(r['calls']) != 1:
        return False
    sds = os.path.realpath(r['sandboxes'][0])
    roots = {'act': sds + '/act', 'tmp': sds + '/tmp', 'result': sds + '/result',
             'home': os.path.realpath(r['case_dir']), 'cwd': sds + '/act'}  # no `cd` in these programs: cwd = act dir
    lv = l_of(sv)
    pv = roots[p_root] + '/' + p_suffix(sv)
    joined = ' '.join(lv)
    if case.get('oracle_bug'):
        joined = ','.join(lv)
    want = ['echo', sv] + lv + [joined, pv, pv + '/x', 'p ' + joined + ' q ' + pv, 'pre' + sv + 'post', pv + '/sub']
    argv, shell, cwd = r['calls'][0]
    return ob.post(list(argv) == want and not shell)


# ============================================================================ K4

REGION_SKIPPED_DEF = 'C08-cleanup-references-skipped-definition'

REAL_K4 = (
    'exactly_lib.cli.main_program.MainProgram.execute',
    'exactly_lib.execution.partial_execution.impl.executor._PartialExecutor.execute',
    'exactly_lib.execution.partial_execution.impl.executor._PartialExecutor._sequence_with_cleanup',
    'exactly_lib.execution.partial_execution.impl.executor._PartialExecutor._continue_from_before_assert',
    'exactly_lib.execution.partial_execution.impl.executor._PartialExecutor._finish_with_cleanup_phase',
    'exactly_lib.execution.partial_execution.impl.executor._PartialExecutor._cleanup_main',
    'exactly_lib.execution.partial_execution.impl.executor._PartialExecutor._post_sds_main_environments',
    'exactly_lib.execution.partial_execution.impl.executor._PartialExecutor._setup_post_sds_environment',
    'exactly_lib.execution.partial_execution.impl.symbol_validation.SymbolsValidator.validate',
    'exactly_lib.execution.impl.symbol_validation.validate_symbol_usages',
    'exactly_lib.impls.instructions.multi_phase.define_symbol.parser.TheInstructionEmbryo.main',
    'exactly_lib.util.symbol_table.SymbolTable.lookup',
)

# (label, phase, failing instruction, outcome of the case when nothing else goes wrong)
K4_FAILURES = (
    ('none', None, None, 'PASS'),
    ('setup:cd-missing-dir', 'setup', 'cd missing-dir', 'HARD_ERROR'),
    ('setup:run-failing-program', 'setup', 'run % ' + lib.FAILING_PROGRAM, 'HARD_ERROR'),
    ('before-assert:cd-missing-dir', 'before-assert', 'cd missing-dir', 'HARD_ERROR'),
    ('before-assert:failing-program', 'before-assert', '% ' + lib.FAILING_PROGRAM, 'HARD_ERROR'),
    ('assert:exit-code', 'assert', 'exit-code == 1', 'FAIL'),  # the stub action to check exits with 0
    ('assert:cd-missing-dir', 'assert', 'cd missing-dir', 'HARD_ERROR'),
    ('assert:run-failing-program', 'assert', 'run % ' + lib.FAILING_PROGRAM, 'FAIL'),
)
K4_DEF_PHASES = ('setup', 'before-assert', 'assert', 'cleanup')
# references from [cleanup]; the last does not evaluate the symbol
K4_REFS = ('file f.txt = @[S]@', '% echo @[S]@', 'env V = "@[S]@"', 'def string T = @[S]@\n% echo "@[T]@"',
           'def string T = @[S]@')
K4_N_EVALUATING_REFS = 4
K4_EXIT = {'PASS': 0, 'FAIL': 32, 'HARD_ERROR': 128}


def _k4_skipped(fail, dphase: str, after: bool) -> bool:
    """Is the main step of the definition skipped: it comes after the failing instruction in execution order
    and is not in [cleanup] (which is always executed)?"""
    flabel, fphase, fline, _ = fail
    if fphase is None or dphase == 'cleanup':
        return False
    fi, di = lib.EXE_ORDER.index(fphase), lib.EXE_ORDER.index(dphase)
    return di > fi or (di == fi and after)


def _pre_k4(f: int, dp: int, after: bool, rf: int) -> bool:
    case = ob.case()
    if not (f in case['failures'] and 0 <= dp < len(K4_DEF_PHASES) and rf in case['refs']):
        return False
    fail = K4_FAILURES[f]
    if after and K4_DEF_PHASES[dp] != fail[1]:
        return False  # `after` orders the definition and the failing instruction inside one phase only
    if (ob.excluded(REGION_SKIPPED_DEF) and _k4_skipped(fail, K4_DEF_PHASES[dp], after)
            and rf < K4_N_EVALUATING_REFS):
        # known finding: the definition was validated but never executed; [cleanup] evaluates the reference
        return False
    return True


def k4_text(f: int, dp: int, after: bool, rf: int) -> str:
    flabel, fphase, fline, _ = K4_FAILURES[f]
    dphase = K4_DEF_PHASES[dp]
    secs = {'setup': [], 'act': ['$ true'], 'before-assert': [], 'assert': [], 'cleanup': []}
    if fphase is not None:
        secs[fphase].append(fline)
    if after or fphase != dphase:
        secs[dphase].append('def string S = x')
    else:
        secs[dphase].insert(0, 'def string S = x')
    secs['cleanup'].append(K4_REFS[rf])
    return ''.join('[%s]\n%s\n' % (ph, '\n'.join(secs[ph])) for ph in lib.EXE_ORDER if secs[ph])


def k4_cleanup_reference(f: int, dp: int, after: bool, rf: int) -> bool:
    """
    pre: _pre_k4(f, dp, after, rf)
    post: _
    """
    case = ob.case()
    f = ob.concrete_int(f, 0, len(K4_FAILURES) - 1)
    dp = ob.concrete_int(dp, 0, len(K4_DEF_PHASES) - 1)
    after = ob.concrete_bool(after)
    rf = ob.concrete_int(rf, 0, len(K4_REFS) - 1)
    fail = K4_FAILURES[f]
    r = lib.run_cli(k4_text(f, dp, after, rf))
    if r['exc'] is not None:
        return ob.post(False)
    first = fail[3]
    if case.get('oracle_bug'):
        first = 'PASS'
    if _k4_skipped(fail, K4_DEF_PHASES[dp], after) and rf < K4_N_EVALUATING_REFS:
        # the symbol cannot evaluate to its defined value (its definition never ran): any documented outcome of a
        # case that failed - the first failure, or a hard error of the cleanup instruction - but no internal error
        ok = (r['ident'], r['rc']) in (('FAIL', 32), ('HARD_ERROR', 128)) and (r['ident'] == first or r['ident'] == 'HARD_ERROR')
    else:
        ok = r['ident'] == first and r['rc'] == K4_EXIT[first]
    if ok and r['ident'] == 'PASS':
        # everything ran: the reference evaluated to the defined value
        if rf == 1:
            ok = (['echo', 'x'], False) in [(list(c[0]) if not isinstance(c[0], str) else c[0], c[1]) for c in r['calls']]
    return ob.post(ok)


# ---------------------------------------------------------------------------- K4: --act

REGION_ACT_OPTION = 'C08-act-option-cleanup-references-skipped-definition'


def _k4a_skipped(dphase: str) -> bool:
    """With --act the phases before-assert and assert are not executed; setup, act and cleanup are."""
    return dphase in ('before-assert', 'assert')


def _pre_k4a(dp: int, rf: int) -> bool:
    case = ob.case()
    if not (0 <= dp < len(K4_DEF_PHASES) and rf in case['refs']):
        return False
    if ob.excluded(REGION_ACT_OPTION) and _k4a_skipped(K4_DEF_PHASES[dp]) and rf < K4_N_EVALUATING_REFS:
        # known finding: the definition was validated but its phase is not executed with --act; [cleanup] evaluates it
        return False
    return True


def k4_act_option(dp: int, rf: int) -> bool:
    """
    pre: _pre_k4a(dp, rf)
    post: _
    """
    case = ob.case()
    dp = ob.concrete_int(dp, 0, len(K4_DEF_PHASES) - 1)
    rf = ob.concrete_int(rf, 0, len(K4_REFS) - 1)
    r = lib.run_cli(k4_text(0, dp, False, rf), ('--act',))
    if r['exc'] is not None:
        return ob.post(False)
    want = 0  # --act: the exit code is the one of the action to check (the stub process exits with 0)
    if case.get('oracle_bug'):
        want = 1
    if _k4a_skipped(K4_DEF_PHASES[dp]) and rf < K4_N_EVALUATING_REFS:
        # the symbol cannot evaluate to its defined value: the exit code of the action, or a hard error of the cleanup
        # instruction - but no internal error
        return ob.post(r['rc'] in (want, 128) and 'Traceback' not in r['stderr'])
    return ob.post(r['rc'] == want and 'Traceback' not in r['stderr'])


# ============================================================================ K5

REAL_K5 = (
    'exactly_lib.execution.partial_execution.impl.executor._PartialExecutor.execute',
    'exactly_lib.execution.partial_execution.impl.executor._PartialExecutor._setup_pre_sds_environment',
    'exactly_lib.execution.partial_execution.impl.executor._PartialExecutor._setup_post_sds_environment',
    'exactly_lib.execution.partial_execution.impl.executor._PartialExecutor._post_setup_validation_environments',
    'exactly_lib.execution.partial_execution.impl.executor._PartialExecutor._post_sds_main_environments',
    'exactly_lib.execution.partial_execution.impl.executor._PartialExecutor._post_sds_environment',
    'exactly_lib.execution.partial_execution.impl.executor._PartialExecutor._construct_act_phase_executor',
    'exactly_lib.execution.partial_execution.impl.executor.parse_atc_and_validate_symbols',
    'exactly_lib.execution.partial_execution.impl.symbol_validation.SymbolsValidator',
    'exactly_lib.execution.impl.symbol_validation.validate_symbol_usages',
    'exactly_lib.execution.impl.phase_step_executors.SetupValidatePostSetupExecutor',
    'exactly_lib.execution.impl.phase_step_executors.BeforeAssertValidatePostSetupExecutor',
    'exactly_lib.execution.impl.phase_step_executors.AssertValidatePostSetupExecutor',
    'exactly_lib.execution.impl.phase_step_executors.AssertValidatePreSdsExecutor',
    'exactly_lib.execution.impl.phase_step_executors.CleanupValidatePreSdsExecutor',
    'exactly_lib.execution.partial_execution.impl.atc_execution.ActionToCheckExecutor',
    'exactly_lib.impls.instructions.multi_phase.define_symbol.parser.TheInstructionEmbryo.main',
    'exactly_lib.impls.instructions.multi_phase.define_symbol.parser.EmbryoParser.parse',
    'exactly_lib.util.symbol_table.SymbolTable',
    'exactly_lib.execution.full_execution.execution.execute',
)

K5_PHASES = ('setup', 'before-assert', 'assert', 'cleanup')
# The steps of an instruction (of the action to check) that are given an environment, per phase: the methods of the public
# base classes SetupPhaseInstruction, ActionToCheck, BeforeAssertPhaseInstruction, AssertPhaseInstruction and
# CleanupPhaseInstruction (which has no validate_post_setup); in an accepted, passing test case every one of them is run.
K5_STEPS = {'setup': ('pre', 'main', 'post'), 'act': ('pre', 'post', 'prepare', 'execute'),
            'before-assert': ('pre', 'post', 'main'), 'assert': ('pre', 'post', 'main'), 'cleanup': ('pre', 'main')}


def k5_program(type_row, def_phases, oracle_bug: bool = False):
    """X0 := a constant of the type, defined in def_phases[0]; X1 := a value of the same type built from X0, defined in
    def_phases[1] (if given; after X0).  Using instructions: in every phase one before the definitions of the phase and one
    after them, each referring to the symbol defined last before it (none if there is no such symbol); the action to check
    refers to the symbol defined last in [setup].
    -> (sections, reference of the action to check, expected log): every step of every using instruction finds its symbol,
    of the defined type, resolving to the defined value."""
    from harness import _C08_steps as steps
    type_, const, link, v_const, v_link = type_row
    defs = [(def_phases[0], 'X0', 'def %s X0 = %s' % (type_, const), v_const)]
    if len(def_phases) > 1:
        defs.append((def_phases[1], 'X1', 'def %s X1 = %s' % (type_, link.format(x='X0')), v_link))
    sections = {}
    expected = {}
    atc_uses = None
    latest = None  # (name, value, phase of the definition)

    def expect(ph, pos):
        for step in K5_STEPS[ph]:
            e = (type_, latest[1])
            if oracle_bug and step == 'pre':
                # seeded oracle error: the validation that precedes the execution is handed the builtin symbols only
                e = steps.MISSING
            expected[(ph, pos, step)] = e

    for ph in lib.EXE_ORDER:
        if ph == 'act':
            if latest is not None:
                atc_uses = (latest[0], type_)
                expect('act', 0)
            continue
        sec = []
        if latest is not None:
            sec.append(('use', (latest[0], type_)))
            expect(ph, len(sec))
        here = [d for d in defs if d[0] == ph]
        for _ph, name, line, value in here:
            sec.append(('def', line))
            latest = (name, value, ph)
        if here:
            sec.append(('use', (latest[0], type_)))
            expect(ph, len(sec))
        sections[ph] = sec
    return sections, atc_uses, expected


def _pre_k5(ty: int, p0: int, p1: int) -> bool:
    case = ob.case()
    if not (0 <= ty < len(case['types']) and 0 <= p0 < len(K5_PHASES)):
        return False
    if case['chain']:
        return p0 <= p1 < len(K5_PHASES)
    return p1 == 0  # unused selector


def k5_steps(ty: int, p0: int, p1: int) -> bool:
    """
    pre: _pre_k5(ty, p0, p1)
    post: _
    """
    from harness import _C08_steps as steps
    case = ob.case()
    type_row = steps.TYPES[ob.pick(case['types'], ty)]
    def_phases = [ob.pick(K5_PHASES, p0)]
    if case['chain']:
        def_phases.append(ob.pick(K5_PHASES, p1))
    sections, atc_uses, expected = k5_program(type_row, def_phases, bool(case.get('oracle_bug')))
    log = {}
    run = steps.run(sections, atc_uses, log)
    if run.exception is not None or run.result is None:
        return ob.post(False)
    return ob.post(run.result.status.name == 'PASS' and log == expected)


REAL_K5_CLI = REAL_K5[:-1] + (
    'exactly_lib.cli.main_program.MainProgram.execute',
    'exactly_lib.impls.instructions.assert_.existence_of_file._Instruction.validate_pre_sds',
    'exactly_lib.impls.instructions.assert_.existence_of_file._Instruction.validate_post_setup',
    'exactly_lib.impls.instructions.assert_.existence_of_file._Instruction.main',
    'exactly_lib.impls.instructions.assert_.utils.instruction_of_matcher.Instruction',
    'exactly_lib.util.symbol_table.SymbolTable.lookup',
)


def _pre_k5c(use: int, dp: int, holds: bool) -> bool:
    from harness import _C08_steps as steps
    case = ob.case()
    if not (use in case['uses'] and 0 <= dp < len(steps.CLI_DEF_PHASES)):
        return False
    return holds or steps.CLI_USES[use][3] is not None


def k5_cli(use: int, dp: int, holds: bool) -> bool:
    """
    pre: _pre_k5c(use, dp, holds)
    post: _
    """
    from harness import _C08_steps as steps
    case = ob.case()
    use = ob.concrete_int(use, 0, len(steps.CLI_USES) - 1)
    dp = ob.concrete_int(dp, 0, len(steps.CLI_DEF_PHASES) - 1)
    holds = ob.concrete_bool(holds)
    r = lib.run_cli(steps.cli_text(use, dp, holds))
    if r['exc'] is not None:
        return ob.post(False)
    # the test case is accepted and executed; the assertion is judged on the DEFINED value
    want = ('PASS', 0) if (holds or case.get('oracle_bug')) else ('FAIL', 32)
    ok = (r['ident'], r['rc']) == want and len(r['sandboxes']) == 1
    if ok and steps.CLI_USES[use][1] == 'list':
        # a list in the arguments of a program: its elements, one argument each
        ok = ['prog', 'a', 'b'] in [list(c[0])[:3] for c in r['calls'] if not isinstance(c[0], str)]
    return ob.post(ok)


# ============================================================================ K6

REAL_K6 = (
    'exactly_lib.cli.main_program.MainProgram.execute',
    'exactly_lib.execution.partial_execution.impl.executor._PartialExecutor.execute',
    'exactly_lib.execution.partial_execution.impl.executor.parse_atc_and_validate_symbols',
    'exactly_lib.execution.partial_execution.impl.symbol_validation.SymbolsValidator',
    'exactly_lib.execution.impl.symbol_validation.validate_symbol_usages',
    'exactly_lib.impls.instructions.configuration.utils.actor_utils.parse',
    'exactly_lib.impls.actors.util.parse_act_interpreter.parser',
    'exactly_lib.impls.actors.util.actor_from_parts.parts.ActorFromParts',
    'exactly_lib.impls.actors.util.actor_from_parts.parts.ActionToCheckFromParts',
    'exactly_lib.impls.actors.program.actor.actor',
    'exactly_lib.impls.actors.program.parse.Parser',
    'exactly_lib.impls.actors.program.executable_object.ProgramToExecute',
    'exactly_lib.impls.actors.program.execution.Executor',
    'exactly_lib.impls.actors.file_interpreter.actor',
    'exactly_lib.impls.actors.file_interpreter._Actor',
    'exactly_lib.impls.actors.file_interpreter._ActionToCheck',
    'exactly_lib.impls.actors.file_interpreter._Parsing',
    'exactly_lib.impls.actors.file_interpreter._SourceInfoForInterpreterWithArgumentList',
    'exactly_lib.impls.actors.source_interpreter.actor.actor',
    'exactly_lib.impls.actors.source_interpreter.parser.Parser',
    'exactly_lib.impls.actors.source_interpreter.parser.InterpreterAndSourceInfo',
    'exactly_lib.impls.actors.source_interpreter.executor.Executor',
    'exactly_lib.impls.actors.null.actor',
    'exactly_lib.cli.program_modes.common.argument_parsing_of_actor.resolve_actor_from_argparse_argument',
    'exactly_lib.impls.types.program.parse.parse_program.program_parser',
    'exactly_lib.impls.types.program.parse.parse_arguments.parser',
    'exactly_lib.impls.instructions.multi_phase.define_symbol.parser.EmbryoParser.parse',
    'exactly_lib.impls.instructions.multi_phase.define_symbol.parser.TheInstructionEmbryo.main',
)


def _k6_cell_is_meaningful(dp: int, const, link) -> bool:
    """No definition at all: the reference is to the undefined name (first constant, unused selector) or to a builtin;
    a builtin is not defined: with a definition phase it is the start of a chain."""
    if dp == 0:
        return link is None and (const[1] is None or const[0] == 'string')
    return const[1] is not None or link is not None


def _k6_cell(st: int, wy: int, dp: int, c: int, l: int):
    """The selectors made concrete -> (site, way, phase of the definitions, constant, link)"""
    from harness import _C08_act as act
    case = ob.case()
    site = act.SITES[ob.pick(case['sites'], st)]
    way = ob.pick(case['ways'], wy)
    dphase = ob.pick(case['phases'], dp)
    const = act.CONSTS[ob.pick(case['consts'], c)]
    li = ob.pick(case['links'], l)
    return site, way, dphase, const, (None if li is None else act.LINKS[li])


def _pre_k6(st: int, wy: int, dp: int, c: int, l: int) -> bool:
    from harness import _C08_act as act
    case = ob.case()
    if not (0 <= st < len(case['sites']) and 0 <= wy < len(case['ways']) and 0 <= dp < len(case['phases'])
            and 0 <= c < len(case['consts']) and 0 <= l < len(case['links'])):
        return False
    site, way, dphase, const, link = _k6_cell(st, wy, dp, c, l)
    if not (act.way_applies(site, way) and _k6_cell_is_meaningful(0 if dphase is None else 1, const, link)):
        return False  # the way does not exist for the actor / unused selectors
    with ob.untraced():  # every selector is concrete by now
        # a legal reference that names a file that does not exist is outside the bound: the sites say nothing about it
        return act.supported(site, way, dphase, const, link)


def k6_act(st: int, wy: int, dp: int, c: int, l: int) -> bool:
    """
    pre: _pre_k6(st, wy, dp, c, l)
    post: _
    """
    from harness import _C08_act as act
    site, way, dphase, const, link = _k6_cell(st, wy, dp, c, l)
    with ob.untraced():  # every selector is concrete by now
        res = act.check(site, way, dphase, const, link, ob.case().get('oracle_bug'))
    return ob.post(res is True)


# ============================================================================ obligations

def _order_ob(name, phases, kinds, names, layouts, timeout, **extra):
    via = extra.get('via')
    return Ob(name=name, fn='k1_order',
              case=dict(phases=tuple(phases), kinds=kinds, names=names, layouts=layouts, **extra),
              kernel='K1', selector=True,
              bound='%d statements in phases %s (sequence order = file order inside a phase); each statement: %s; names %s '
                    '(TAB is a builtin); file layouts: %s' % (
                        len(phases), list(phases),
                        ' | '.join(['def string N = constant', 'reference to R', 'def string N = x@[R]@y'][:kinds]),
                        list(ORDER_NAMES[:names]),
                        {'canon': 'phases in sequence order, one header per statement',
                         'two': 'sequence order and fully reversed', 'all': 'every order of the statements in the file'}[layouts]),
              timeout=timeout,
              real=REAL_VALIDATION + (('exactly_lib.cli.main_program.MainProgram.execute',
                                       'exactly_lib.execution.partial_execution.impl.executor._PartialExecutor.execute') if via == 'cli' else ()),
              stubs=(_STUBS_CLI if via == 'cli' else ()),
              entry=('MainProgram.execute([FILE])' if via == 'cli' else
                     'test_case_parser.new_parser(...).apply on the whole text -> parse_atc_and_validate_symbols(default actor, builtins, '
                     'test case)' if via == 'text' else
                     'real instruction parsers per statement -> parse_atc_and_validate_symbols(default actor, builtins, test case)'),
              outside=('programs of more statements; names other than the listed',))


def _phase_tuples(k: int):
    """Phase assignments to k statements, up to the order of statements of different phases (which the
    layout selector covers): non-decreasing in execution order."""
    return [t for t in itertools.product(lib.EXE_ORDER, repeat=k)
            if all(lib.EXE_ORDER.index(t[i]) <= lib.EXE_ORDER.index(t[i + 1]) for i in range(k - 1))]


def _refute(o: Ob) -> Ob:
    o.expect = ob.REFUTE
    return o


def _types_ob(name, k, consts, links, ctxs, timeout, **extra):
    return Ob(name=name, fn='k1_types', case=dict(k=k, consts=tuple(consts), links=tuple(links),
                                                  ctxs=(ctxs if ctxs == 'match' else tuple(ctxs)), **extra),
              kernel='K1', selector=True,
              bound='chain X0 := one of %s; %s; then a reference to the last in %s' % (
                  [CONSTS[i][0] for i in consts],
                  ('%d definitions X_j := one of %s applied to X_(j-1)' % (k, [LINKS[i][0] for i in links])) if k else 'no further definition',
                  ('the context demanding the type of the last definition' if ctxs == 'match'
                   else 'one of the contexts %s' % [CTXS[i][0] for i in ctxs])),
              timeout=timeout, real=REAL_VALIDATION,
              entry='real instruction parsers per statement -> parse_atc_and_validate_symbols(default actor, builtins, test case)',
              outside=('value forms and contexts other than the catalogued', 'strings denoting absolute paths'))


def _chunks(seq, n):
    return [seq[i:i + n] for i in range(0, len(seq), n)]


_STUBS_CLI = ('subprocess module at process_executor / preprocessor: recording stub that starts nothing',
              'counting sandbox resolver (MainProgram constructor argument)', 'in-memory stdout/stderr')


def obligations(tier: str) -> List[Ob]:
    """The thorough tier is the quick tier plus the larger bounds."""
    obs = []
    thorough = tier == 'thorough'
    cl = {c[0]: i for i, c in enumerate(CONSTS)}
    ll = {c[0]: i for i, c in enumerate(LINKS)}
    xl = {c[0]: i for i, c in enumerate(CTXS)}
    all_c, all_l, all_x = list(range(len(CONSTS))), list(range(len(LINKS))), list(range(len(CTXS)))

    # ------------------------------------------------------------------ K1:order
    obs.append(_order_ob('K1:order:k1', ('setup',), 3, 3, 'canon', 300))
    for ph in _phase_tuples(2):
        obs.append(_order_ob('K1:order:k2:%s' % '+'.join(ph), ph, 3, 2, 'canon', 600))
    for ph in _phase_tuples(3):
        if set(ph) <= {'setup', 'act', 'cleanup'}:
            obs.append(_order_ob('K1:order:k3:%s' % '+'.join(ph), ph, 2, 2, 'canon', 600))
    if thorough:
        for ph in _phase_tuples(2):
            obs.append(_order_ob('K1:order:k2-names3:%s' % '+'.join(ph), ph, 3, 3, 'canon', 1200))
        for ph in _phase_tuples(3):
            obs.append(_order_ob('K1:order:k3-kinds3:%s' % '+'.join(ph), ph, 3, 2, 'canon', 2400))
            obs.append(_order_ob('K1:order:k3-names3:%s' % '+'.join(ph), ph, 2, 3, 'canon', 1800))
        for ph in _phase_tuples(4):
            if 'before-assert' not in ph:
                obs.append(_order_ob('K1:order:k4:%s' % '+'.join(ph), ph, 2, 2, 'canon', 1800))
    obs.append(_refute(_order_ob('K1:order:seeded-oracle-error:builtin-redefinable', ('setup', 'assert'), 2, 2, 'canon', 300,
                                 oracle_bug='dup')))
    obs.append(_refute(_order_ob('K1:order:seeded-oracle-error:table', ('setup', 'assert'), 2, 2, 'canon', 300,
                                 oracle_bug='table')))
    # ------------------------------------------------------------------ K1: whole text (file layouts, real document parser)
    quick_layout = (('setup', 'assert'), ('act', 'cleanup'), ('before-assert', 'before-assert'))
    for ph in (_phase_tuples(2) if thorough else quick_layout):
        obs.append(_order_ob('K1:layout:k2:%s' % '+'.join(ph), ph, 2, 2, 'all', 900, via='text'))
    if thorough:
        for ph in (('setup', 'act', 'assert'), ('setup', 'before-assert', 'cleanup'), ('act', 'assert', 'cleanup'),
                   ('setup', 'setup', 'cleanup'), ('assert', 'cleanup', 'cleanup')):
            obs.append(_order_ob('K1:layout:k3:%s' % '+'.join(ph), ph, 2, 2, 'all', 3000, via='text'))
    # ------------------------------------------------------------------ K1: whole program
    if thorough:
        cli = tuple((ph, 'two') for ph in _phase_tuples(2))
    else:
        cli = ((('setup', 'act'), 'two'), (('before-assert', 'cleanup'), 'canon'), (('assert', 'assert'), 'canon'))
    for ph, lay in cli:
        obs.append(_order_ob('K1:cli:k2:%s' % '+'.join(ph), ph, 2, 2, lay, 2400, via='cli'))
    obs.append(_refute(_order_ob('K1:cli:seeded-oracle-error', ('setup', 'setup'), 2, 2, 'canon', 900, via='cli',
                                 oracle_bug='dup')))
    # ------------------------------------------------------------------ K1: the cases of a suite are judged one by one
    for ncases, kinds, names in (((2, 3, 2), (3, 2, 2), (2, 3, 3)) if thorough else ((2, 2, 2),)):
        obs.append(Ob(name='K1:suite:cases%d:kinds%d:names%d' % (ncases, kinds, names), fn='k1_suite',
                      case=dict(cases=ncases, kinds=kinds, names=names), kernel='K1', selector=True,
                      bound='a suite of %d case files run by one main program; each case holds one [setup] statement: %s; names %s' % (
                          ncases, ' | '.join(['def string N = constant', 'reference to R', 'def string N = x@[R]@y'][:kinds]),
                          list(ORDER_NAMES[:names])),
                      timeout=2400, real=REAL_VALIDATION + (
                          'exactly_lib.cli.main_program.MainProgram.execute',
                          'exactly_lib.processing.processors._Executor._exe_conf_that_may_be_updated',
                          'exactly_lib.execution.partial_execution.impl.executor._PartialExecutor.execute'),
                      stubs=_STUBS_CLI + ('sandbox_dir_resolving.mk_tmp_dir_with_prefix -> counter-named directories',),
                      entry='MainProgram.execute(["suite", FILE])',
                      outside=('suites of more cases; sub-suites; cases run in separate processes (C17)',)))
    obs.append(_refute(Ob(name='K1:suite:seeded-oracle-error', fn='k1_suite', case=dict(cases=2, kinds=2, names=1, oracle_bug=True),
                          kernel='K1', selector=True, bound='seeded: a definition of an earlier case is visible in the next',
                          timeout=900)))
    # ------------------------------------------------------------------ K1:types
    for i, xs in enumerate(_chunks(all_x, 6)):
        obs.append(_types_ob('K1:types:direct:%d' % i, 0, all_c, [], xs, 900))
    one_per_type = [i for i, c in enumerate(CONSTS) if c[0] not in ('path-tmp', 'path-cd', 'path-act-home', 'path-default',
                                                                    'path-abs', 'path-home')]
    for i, ls in enumerate(_chunks(all_l, 7)):
        obs.append(_types_ob('K1:types:def-of-def:%d' % i, 1, one_per_type, ls, 'match', 900))
    c2 = [cl[x] for x in ('string', 'list', 'path-act', 'path-result')]
    l2 = [ll[x] for x in ('string', 'list', 'path-prefix', 'path-rel', 'path-suffix')]
    x2 = [xl[x] for x in ('argument', 'integer', 'file-dst', 'dir-rel', 'copy-src', 'text')]
    for c in (c2 if thorough else c2[1:]):
        obs.append(_types_ob('K1:types:chain2:%s' % CONSTS[c][0], 2, [c], l2, x2[:4], 900))
    x1 = [xl[x] for x in ('argument', 'integer', 'file-dst', 'dir-rel', 'file-dst-norel-suffix', 'cd-head-suffix')]
    for i, ls in enumerate(_chunks(list(range(N_WSTR_LINKS)), 6)):
        obs.append(_types_ob('K1:types:chain1:%d' % i, 1, c2, ls, x1, 900))
    if thorough:
        for i, ls in enumerate(_chunks(list(range(N_WSTR_LINKS)), 6)):
            obs.append(_types_ob('K1:types:chain1-all-contexts:%d' % i, 1, c2, ls, list(range(N_WSTR_CTXS)), 900))
    if thorough:
        for x in all_x:
            obs.append(_types_ob('K1:types:direct+1:%s' % CTXS[x][0], 1, one_per_type, all_l, [x], 1800))
        for c in one_per_type:
            if CONSTS[c][1] in lib.W_STR:
                obs.append(_types_ob('K1:types:def-of-def-of-def:%s' % CONSTS[c][0], 2, [c], all_l, 'match', 1800))
            elif CONSTS[c][1] is not None:
                # a value without string rendering can only be continued by definitions of the other kinds
                obs.append(_types_ob('K1:types:def-of-def-of-def:%s' % CONSTS[c][0], 2, [c],
                                     [ll['string'], ll['list'], ll['path-prefix']] + all_l[N_WSTR_LINKS:], 'match', 1800))
        c2t = [cl[x] for x in ('string', 'list', 'path-act', 'path-home', 'path-result', 'path-abs', 'builtin-TAB',
                               'builtin-EXACTLY_HOME', 'builtin-EXACTLY_RESULT', 'builtin-EXACTLY_ACT')]
        for c in c2t:
            obs.append(_types_ob('K1:types:chain2-all:%s' % CONSTS[c][0], 2, [c], list(range(N_WSTR_LINKS)),
                                 list(range(N_WSTR_CTXS)), 2400))
        c3 = [cl[x] for x in ('string', 'list', 'path-act', 'path-result', 'path-home')]
        l3 = [ll[x] for x in ('string', 'list', 'path-prefix', 'path-rel', 'path-suffix', 'string-TAB-x')]
        for c in c3:
            obs.append(_types_ob('K1:types:chain3:%s' % CONSTS[c][0], 3, [c], l3, x2, 2400))
    obs.append(_refute(_types_ob('K1:types:seeded-oracle-error:direct-only', 2, [cl['list']], [ll['string']], [xl['integer']], 300,
                                 oracle_bug=True)))
    # ------------------------------------------------------------------ K2
    for k, drefs in (((1, False), (2, True), (3, True)) if thorough else ((1, False), (2, True))):
        obs.append(Ob(name='K2:visibility:k%d' % k, fn='k2_visibility', case=dict(k=k, drefs=drefs), kernel='K2',
                      selector=True,
                      bound='%d real `def string` instructions named A, B, C, each in any of the phases %s (sequence order = '
                            'file order inside a phase), each a constant or built from the previously defined symbol; probe '
                            'instructions before and after every definition in every phase and a probe action to check' % (
                                k, list(K2_PHASES)),
                      timeout=(300, 600, 1800)[k - 1], real=REAL_K2,
                      stubs=('stub probe instructions / stub actor (vsym.exeharness)', 'deterministic sandbox resolver'),
                      entry='full_execution.execution.execute on real def instructions + probes',
                      outside=('symbol tables handed to the validation steps (they see all definitions by design): K5',)))
    obs.append(_refute(Ob(name='K2:seeded-oracle-error', fn='k2_visibility', case=dict(k=1, drefs=False, oracle_bug=True),
                          kernel='K2', selector=True, bound='seeded: a definition is visible from the start of its phase',
                          timeout=300)))
    # ------------------------------------------------------------------ K3
    for maxlen in ((2, 4) if thorough else (2,)):
        for name, prog in K3_PROGRAMS.items():
            used = _k3_used(prog)
            obs.append(Ob(name='K3:%s%s' % (name, ':len4' if maxlen == 4 else ''), fn='k3_substitution',
                          case=dict(program=name, maxlen=maxlen, used=used), kernel='K3',
                          bound='program `%s` with %s: every string value of <= %d characters (any characters), L of 0..2 elements' % (
                              '; '.join(l for _, l in k3_program(prog, _K3_DUMMY_ENV)[0]),
                              ', '.join({'S': 'string S', 'T': 'string T', 'L': 'list L'}[u] for u in used), maxlen),
                          timeout=600 if maxlen == 2 else 2400, real=REAL_K3,
                          stubs=('S, T, L are predefined symbols holding constant SDVs with symbolic values',),
                          entry='real def parser -> parse_atc_and_validate_symbols -> sdv.resolve(symbols).value_when_no_dir_dependencies()',
                          outside=('the syntax of the VALUES of S, T, L (they are not parsed: C09)',
                                   'paths inside strings (K3:cli, C12)')))
    real_k3t = ('exactly_lib.symbol.symbol_syntax.split', 'exactly_lib.symbol.symbol_syntax._extract_fragment',
                'exactly_lib.symbol.symbol_syntax._find_symbol_reference', 'exactly_lib.symbol.symbol_syntax._extract_symbol_name',
                'exactly_lib.impls.types.string_.parse_string.parse_string_sdv_from_token',
                'exactly_lib.impls.types.string_.parse_string.string_sdv_from_fragments',
                'exactly_lib.execution.impl.symbol_validation.validate_symbol_usages',
                'exactly_lib.type_val_deps.types.string_.string_sdv_impls.SymbolStringFragmentSdv.resolve',
                'exactly_lib.type_val_deps.types.string_.string_ddv.StringDdv.value_when_no_dir_dependencies')
    k3t = [('S', '@[S]@', '@[a]', 3, ']@', 1, 2), ('SS', '@[S]@@[S]@', '@[a', 2, ']@', 1, 2)]
    if thorough:
        k3t += [('S', '@[S]@', '@[a]', 4, ']@', 1, 2), ('SS', '@[S]@@[S]@', '@[a]', 3, ']@', 2, 2),
                ('SxS', '@[S]@]@[S]@', '@[a_', 3, ']@', 1, 2)]
    for label, mid, palpha, plen, qalpha, qlen, vlen in k3t:
        obs.append(Ob(name='K3:text:%s:p%dq%d' % (label, plen, qlen), fn='k3_text',
                      case=dict(mid=mid, palpha=palpha, plen=plen, qalpha=qalpha, qlen=qlen, vlen=vlen), kernel='K3',
                      bound='soft-quoted string P%sQ with every P of <= %d characters over %r and every Q of <= %d characters over '
                            '%r (selectors), S defined with every value of <= %d characters (symbolic)' % (
                                mid, plen, palpha, qlen, qalpha, vlen),
                      timeout=600 if plen <= 3 and qlen <= 1 else 3000, real=real_k3t,
                      stubs=('the Token object is built by the harness (the tokenizer is C09)',),
                      entry='parse_string.parse_string_sdv_from_token -> validate_symbol_usages -> resolve',
                      outside=('characters outside the alphabets', 'tokenization and quoting (C09)')))
    obs.append(_refute(Ob(name='K3:text:seeded-oracle-error', fn='k3_text',
                          case=dict(mid='@[S]@', palpha='@[a', plen=2, qalpha=']', qlen=0, vlen=0, oracle_bug=True),
                          kernel='K3', bound='seeded: after an incomplete `@[` the oracle resumes reading two characters late',
                          timeout=600)))
    real_k3c = REAL_K3 + ('exactly_lib.cli.main_program.MainProgram.execute',
                          'exactly_lib.type_val_deps.types.string_.strings_ddvs.PathFragmentDdv',
                          'exactly_lib.type_val_deps.types.path.path_sdvs.reference',
                          'exactly_lib.impls.types.path.parse_path._Parser',
                          'exactly_lib.impls.instructions.multi_phase.define_symbol.parser.TheInstructionEmbryo.main',
                          'exactly_lib.cli_default.program_modes.test_case.builtin_symbols.test_case_dir_symbols.ALL')
    k3c = [(0, 2, (0, 4))]
    if thorough:
        k3c = [(q, len(K3C_L), (0, 5)) for q in range(len(K3C_PROBE))] + [(0, 2, (5, len(K3C_P)))]
    for q, nlists, (plo, phi) in k3c:
        obs.append(Ob(name='K3:cli:probe-in-%s%s' % (K3C_PROBE[q][0], ':builtin-dirs' if plo else ''), fn='k3_cli',
                      case=dict(only=q, lists=nlists, paths=(plo, phi)), kernel='K3', selector=True,
                      bound='def string S = one of %s; def list L = one of %s; def path P = one of %s; '
                            'def string T = "p @[L]@ q @[P]@"; def path P2 = @[P]@/sub; probe `%s%s` in phase %s' % (
                                [x[0] for x in K3C_S], [x[0] for x in K3C_L[:nlists]], [x[0] for x in K3C_P[plo:phi]],
                                K3C_PROBE[q][1], K3C_ARGS, K3C_PROBE[q][0]),
                      timeout=2400, real=real_k3c, stubs=_STUBS_CLI,
                      entry='MainProgram.execute([FILE]); observation: argv handed to subprocess.call',
                      outside=('path values other than the catalogued (C12)',)))
    obs.append(_refute(Ob(name='K3:cli:seeded-oracle-error', fn='k3_cli', case=dict(only=0, lists=1, paths=(0, 2), oracle_bug=True),
                          kernel='K3', selector=True, bound='seeded: the oracle joins list elements by commas', timeout=900)))
    obs.append(_refute(Ob(name='K3:seeded-oracle-error', fn='k3_substitution',
                          case=dict(program='list:a-L-b', maxlen=1, used='L', oracle_bug=True), kernel='K3',
                          bound='seeded: the oracle drops the last element', timeout=300)))
    # ------------------------------------------------------------------ K4
    k4 = [([5], [0, 4]), ([1, 3], [0, 4])]
    if thorough:
        k4 = [([f], list(range(len(K4_REFS)))) for f in range(len(K4_FAILURES))]
    for fs, rfs in k4:
        obs.append(Ob(name='K4:skipped-def:%s' % '+'.join(K4_FAILURES[f][0] for f in fs), fn='k4_cleanup_reference',
                      case=dict(failures=tuple(fs), refs=tuple(rfs)), kernel='K4', selector=True,
                      bound='failing instruction %s; `def string S = x` in any of %s, before or after the failing instruction '
                            'inside its phase; [cleanup] holds one of %s' % (
                                [K4_FAILURES[f][0] for f in fs], list(K4_DEF_PHASES), [K4_REFS[i] for i in rfs]),
                      timeout=2400, real=REAL_K4, stubs=_STUBS_CLI + ('the stub process named %s exits with 1' % lib.FAILING_PROGRAM,),
                      entry='MainProgram.execute([FILE])',
                      outside=('failures other than the catalogued', 'references from [cleanup] other than the catalogued')))
    obs.append(Ob(name='K4:act-option', fn='k4_act_option', case=dict(refs=tuple(range(len(K4_REFS))) if thorough else (0, 4)),
                  kernel='K4', selector=True,
                  bound='command line --act FILE; `def string S = x` in any of %s; [cleanup] holds one of %s' % (
                      list(K4_DEF_PHASES), [K4_REFS[i] for i in (range(len(K4_REFS)) if thorough else (0, 4))]),
                  timeout=1800, real=REAL_K4, stubs=_STUBS_CLI, entry='MainProgram.execute(["--act", FILE])',
                  outside=('references from [cleanup] other than the catalogued',)))
    obs.append(_refute(Ob(name='K4:act-option:seeded-oracle-error', fn='k4_act_option', case=dict(refs=(4,), oracle_bug=True),
                          kernel='K4', selector=True, bound='seeded: the oracle expects exit code 1 from an action that exits with 0',
                          timeout=900)))
    obs.append(_refute(Ob(name='K4:seeded-oracle-error', fn='k4_cleanup_reference', case=dict(failures=(5,), refs=(4,), oracle_bug=True),
                          kernel='K4', selector=True, bound='seeded: the oracle expects PASS although an assertion fails',
                          timeout=900)))
    # ------------------------------------------------------------------ K5: every step of every later instruction
    from harness import _C08_steps as steps
    all_t = list(range(len(steps.TYPES)))
    tl = {t[0]: i for i, t in enumerate(steps.TYPES)}
    k5 = [('direct', False, all_t)]
    if thorough:
        k5 += [('chain:%s' % steps.TYPES[t][0], True, [t]) for t in all_t]
    else:
        k5 += [('chain', True, [tl[x] for x in ('string', 'list', 'path', 'file-matcher', 'program')])]
    for label, chain, types in k5:
        obs.append(Ob(name='K5:steps:%s' % label, fn='k5_steps', case=dict(types=tuple(types), chain=chain), kernel='K5',
                      selector=True,
                      bound='real `def T X0 = constant` in any of the phases %s%s, T one of %s; a using stub instruction before and '
                            'after the definitions in every phase and a using stub action to check, each referring to the symbol '
                            'defined last before it and evaluating the reference in EVERY step it is given an environment: %s' % (
                                list(K5_PHASES),
                                '; real `def T X1 = value built from X0` in the same or any later phase' if chain else '',
                                [steps.TYPES[t][0] for t in types],
                                '; '.join('%s: %s' % (ph, ', '.join(K5_STEPS[ph])) for ph in lib.EXE_ORDER)),
                      timeout=900 if len(types) > 1 else 300, real=REAL_K5,
                      stubs=('using stub instructions / stub action to check (harness/_C08_steps.py on vsym.exeharness): declare a real '
                             'SymbolReference and call symbols.lookup(name).sdv.resolve(symbols) on the table of the environment of each step',
                             'deterministic sandbox resolver'),
                      entry='full_execution.execution.execute on real def instructions + using stubs',
                      outside=('the step act/validate-exe-input (it is given no environment)',
                               'value forms other than one constant and one built value per type')))
    obs.append(_refute(Ob(name='K5:steps:seeded-oracle-error', fn='k5_steps',
                          case=dict(types=(tl['string'], tl['file-matcher']), chain=False, oracle_bug=True), kernel='K5', selector=True,
                          bound='seeded: the oracle believes that the validation steps that precede the execution are handed the '
                                'builtin symbols only', timeout=300)))
    all_u = list(range(len(steps.CLI_USES)))
    for i, us in enumerate(_chunks(all_u, 6)):
        obs.append(Ob(name='K5:cli:%d' % i, fn='k5_cli', case=dict(uses=tuple(us)), kernel='K5', selector=True,
                      bound='[setup] %s; `def T X = V` at the end of any of the phases %s; [assert] one of the instructions %s, V being '
                            'a value with which the assertion holds / does not hold' % (
                                ' / '.join(steps.CLI_SETUP), list(steps.CLI_DEF_PHASES),
                                ['%s (T = %s; X resolved in step %s)' % (steps.CLI_USES[u][5], steps.CLI_USES[u][1], steps.CLI_USES[u][6])
                                 for u in us]),
                      timeout=900, real=REAL_K5_CLI, stubs=_STUBS_CLI + ('the stub process named %s exits with 1' % lib.FAILING_PROGRAM,),
                      entry='MainProgram.execute([FILE])',
                      outside=('using instructions other than the catalogued (`exists` is the only instruction of the default set that '
                               'resolves symbols in validate-post-setup of [before-assert] / [assert])',
                               'files-source symbols (no instruction resolves them outside main)')))
    obs.append(_refute(Ob(name='K5:cli:seeded-oracle-error', fn='k5_cli', case=dict(uses=(5,), oracle_bug=True), kernel='K5',
                          selector=True, bound='seeded: the oracle expects PASS whatever the defined value', timeout=300)))
    # ------------------------------------------------------------------ K6: references in the act phase, every actor
    from harness import _C08_act as act
    all_s = list(range(len(act.SITES)))
    all_k = list(range(len(act.CONSTS)))
    all_p = tuple(act.DEF_PHASES)
    kl = {c: i for i, c in enumerate(act.CONST_LABELS)}
    sl = {c: i for i, c in enumerate(act.SITE_LABELS)}
    lk = {c: i for i, c in enumerate(act.LINK_LABELS)}

    def k6_ob(name, sites, ways, phases, consts, links, timeout, **extra):
        return Ob(name=name, fn='k6_act',
                  case=dict(sites=tuple(sites), ways=tuple(ways), phases=tuple(phases), consts=tuple(consts), links=tuple(links),
                            **extra),
                  kernel='K6', selector=True,
                  bound='the actor named %s; [setup] %s; X0 := one of %s%s, defined in %s; the action to check refers to the '
                        'last defined symbol (the undefined name X0 if there is no definition) at one of the places %s; files %s '
                        'exist in the home directory' % (
                            ' / '.join({'case-conf': 'in [conf] of the test case', 'suite-conf': 'in [conf] of a suite the case belongs to',
                                        'no-conf': 'nowhere (command line actor) or by --actor (source interpreter)'}[w] for w in ways),
                            ' / '.join(act.SETUP_HELPERS), [act.CONST_LABELS[i] for i in consts],
                            '' if tuple(links) == (None,) else '; then %s' % ' | '.join(
                                'no further definition' if i is None else 'X1 := %s applied to X0' % act.LINK_LABELS[i] for i in links),
                            ' / '.join('no phase (no definition)' if ph is None else '[%s]' % ph for ph in phases),
                            ['%s: %s%s' % (act.SITES[i][0], '' if act.SITES[i][2] is None else 'actor = %s %s; [act] ' % (
                                act.SITES[i][1], act.SITES[i][2]), act.SITES[i][3]) for i in sites],
                            sorted(act.HOME_FILES)),
                  timeout=timeout, real=REAL_K6,
                  stubs=_STUBS_CLI[1:] + (
                      'subprocess module at process_executor / preprocessor: recording stub that starts nothing, records argv, stdin, '
                      'the files named by arguments and the result file stdout, and prints the line `out` (harness/_C08_act.py)',
                      'the selectors are made concrete, then the real program runs natively (ob.untraced)',
                      'sandbox_dir_resolving.mk_tmp_dir_with_prefix -> counter-named directories (suite)'),
                  entry='MainProgram.execute([FILE]) / MainProgram.execute(["--actor", INTERPRETER, FILE]) / '
                        'MainProgram.execute(["suite", FILE])',
                  outside=('places of a reference other than the catalogued; legal references that name a file that does not exist '
                           '(the outcome then depends on file validation: C10 / C12)',
                           'chains of more than two definitions at these places (K1:types covers the chains for the default actor)',
                           'the wording of the error message'))

    for i, ss in enumerate(_chunks(all_s, 6)):
        obs.append(k6_ob('K6:act:direct:%d' % i, ss, ('case-conf',), all_p, all_k, (None,), 900))
    chain_k = [kl[x] for x in ('string', 'list', 'path-home', 'text-source', 'text-transformer', 'program', 'builtin-TAB')]
    all_links = list(range(len(act.LINKS)))
    for i, ss in enumerate(_chunks(all_s, 6)):
        if thorough:
            obs.append(k6_ob('K6:act:chain:%d' % i, ss, ('case-conf',), all_p[1:], all_k, all_links, 3600))
        else:
            obs.append(k6_ob('K6:act:chain:%d' % i, ss, ('case-conf',), ('setup',), chain_k, all_links, 900))
    ways_k = all_k if thorough else [kl[x] for x in ('string', 'list', 'path-result', 'text-matcher', 'program')]
    for i, ss in enumerate(_chunks(all_s, 8)):
        obs.append(k6_ob('K6:act:ways:%d' % i, ss, ('suite-conf', 'no-conf'), all_p, ways_k, (None,), 900))
    obs.append(_refute(k6_ob('K6:act:seeded-oracle-error:late-definition-visible',
                             [sl['file:argument'], sl['source:line'], sl['command:stdin']], ('case-conf',), all_p,
                             [kl['string']], (None,), 300, oracle_bug='late-is-visible')))
    obs.append(_refute(k6_ob('K6:act:seeded-oracle-error:list-is-one-argument',
                             [sl['file:argument'], sl['command:argument']], ('case-conf', 'suite-conf'), ('setup',),
                             [kl['string'], kl['list']], (None, lk['list']), 300, oracle_bug='list-is-one-argument')))
    names = [o.name for o in obs]
    assert len(names) == len(set(names)), 'duplicate obligation names'
    return obs


def selftest(tier: str) -> int:
    """Concrete comparison, outside CrossHair: (a) the reference interpreter against the real validation on complete
    sweeps that are larger than what the symbolic obligations enumerate; (b) assembling a test case from statements
    parsed one by one against the real parse of the whole text (every file layout)."""
    n = 0
    for k in (1, 2):
        for ph in _phase_tuples(k):
            lays = _layouts(ph)
            for kinds in itertools.product(range(3), repeat=k):
                if any(ph[i] == 'act' and kinds[i] != R for i in range(k)):
                    continue
                for names in itertools.product(range(3), repeat=k):
                    for refs in itertools.product(range(3), repeat=k):
                        if any((kinds[i] == R and names[i]) or (kinds[i] == D and refs[i]) for i in range(k)):
                            continue
                        for perm in lays:
                            statements, expected = order_program(ph, kinds, names, refs, perm)
                            if not (_check_validation(statements, expected) and _check_validation(render(statements), expected)):
                                raise AssertionError('C08 selftest: order program %r: model expects %r' % (render(statements), expected))
                            n += 2
    link_sets = [()] + ([(l,) for l in LINKS] if tier == 'thorough' else [(LINKS[0],), (LINKS[3],), (LINKS[5],), (LINKS[14],)])
    for const in CONSTS:
        for links in link_sets:
            for ctx in CTXS:
                statements, expected = chain_program(const, links, ctx)
                if not (_check_validation(statements, expected) and _check_validation(render(statements), expected)):
                    raise AssertionError('C08 selftest: chain %r: model expects %r' % (render(statements), expected))
                n += 2
    # (c) K5: the using stubs' evaluation of a reference (`_C08_steps.look`) against the real tables: the validated table
    # gives the defined type and value; a table lacking the symbol the value is built from / the symbol itself is noticed
    from exactly_lib.util.symbol_table import SymbolTable
    from harness import _C08_steps as steps
    for type_, const, link, v_const, v_link in steps.TYPES:
        res = lib.validate([('setup', 'def %s X0 = %s' % (type_, const)), ('assert', 'def %s X1 = %s' % (type_, link.format(x='X0')))])
        if res[0] != 'OK':
            raise AssertionError('C08 selftest: K5 definitions of type %s are rejected' % type_)
        got = (steps.look(res[1], 'X0'), steps.look(res[1], 'X1'), steps.look(SymbolTable({'X1': res[1].lookup('X1')}), 'X1'),
               steps.look(lib.parsing()['builtins'](), 'X1'))
        if got != ((type_, v_const), (type_, v_link), (type_, 'unresolvable'), steps.MISSING):
            raise AssertionError('C08 selftest: K5 look() for type %s: %r' % (type_, got))
        n += 4
    # (d) K6: the table of act-phase sites (harness/_C08_act.py) against the real program, natively: every site, the three ways
    # of naming the actor, a handful of states of the referenced symbol (the obligations enumerate the full product)
    from harness import _C08_act as act
    kl = {c: i for i, c in enumerate(act.CONST_LABELS)}
    states = [(None, 'string', None), ('setup', 'string', None), ('setup', 'list', None), ('setup', 'path-home', None),
              ('setup', 'text-matcher', None), ('before-assert', 'string', None), ('cleanup', 'list', None),
              ('setup', 'string', 'list'), ('setup', 'list', 'string'), (None, 'builtin-TAB', None)]
    accepted = 0
    for site in act.SITES:
        for way in act.WAYS:
            if not act.way_applies(site, way):
                continue
            for dphase, c, l in states:
                const = act.CONSTS[kl[c]]
                link = None if l is None else act.LINKS[act.LINK_LABELS.index(l)]
                if not act.supported(site, way, dphase, const, link):
                    continue
                if act.check(site, way, dphase, const, link) is not True:
                    raise AssertionError('C08 selftest: K6 site %s, actor named %s, definition in %s: %s %s' % (
                        site[0], way, dphase, c, l))
                accepted += act.act_program(site, way, dphase, const, link)[4]
                n += 1
    if accepted < len(act.SITES):
        raise AssertionError('C08 selftest: K6 accepts too few programs: %d' % accepted)
    return n


ASSUMPTIONS = [
    'statements are parsed one by one by the real parsers (cached) and assembled into the test-case document in the K1:order / '
    'K1:types obligations; the equivalence with the real parse of the whole text is compared concretely by the self-test and '
    'covered symbolically, for every file layout, by the K1:layout and K1:cli obligations',
    'K3: the predefined symbols S, T, L carry symbolic VALUES inside real constant SDVs; the syntax of values is C09',
    'subprocess.call is the only way exactly_lib starts processes; it is replaced by a recording stub that starts nothing (K1:cli, K3:cli)',
    'K6: the recording stub process prints the line `out` and exits with 0; the processes run with the act directory as current '
    'directory (no `cd` in the generated cases), so ../result/stdout is the result file the stub of the [assert] probe reads',
]
OUTSIDE = [
    'programs longer than the stated number of statements / chains longer than stated (no induction over program length)',
    'reference contexts and value forms outside the catalogues CONSTS / LINKS / CTXS of the harness',
    'path values beyond "root of the relativity + suffix" for the catalogued forms (C12)',
    'the wording and source location of the VALIDATION_ERROR message',
]
