"""K8 of C07: the RENDERED location part of error reports names the files and lines the source came from.

Real code driven: the parser glue (processors._Parser.apply, as K4) on a real directory tree with a chain of
including files in sub directories, then the renderers the command line program uses for its reports:
  * ErrorInfoRenderer(error_info)            - syntax errors and file access errors (ProcessError / AccessorError)
  * FailureInfoRenderer(InstructionFailureInfo(step, <location of the parsed instruction>, details, description))
                                             - a failing instruction (the executor passes the element's
                                               source_location_info.source_location_path in the same way)
printed with print_.print_to_str (the layout of the program's stderr report).

The reference: every `PATH, line N` of the printed report, in order, is - relative to the current directory of the
run - the file of the corresponding link of the inclusion chain, N is the line of the `including` directive (resp. of
the erroneous / failing instruction in the last file) and the text displayed under it is that line of that file.
"""
import os
import pathlib
import re
import shutil

from harness import _C07_k4 as _k4

CASE = 'cases/a.case'
# path of the file of level i as written in the directive of level i-1 (relative to the including file)
LEVEL_PATHS = (
    ('b.xly', 'inc/b.xly'),
    ('c.xly', 'deep/c.xly', '../up/c.xly'),
    ('d.xly', 'sub/d.xly'),
)
FORMS = ('bare', 'rel-dir', 'abs')  # how the case file is named on the command line / what the cwd is
KINDS = ('syntax', 'failure', 'missing', 'non-utf8')
PADS = (0, 2)

ERR_LINE = 'act-src'  # unknown instruction in [setup]
OK_LINE = 'i x'
NON_UTF8 = b'\xff\xfe i x\n'
LOCATION_RE = re.compile(r'^\s*(\S.*), line (\d+)$')

_STATE = {}


def _root() -> str:
    if 'root' not in _STATE:
        from vsym import scratch
        _STATE['root'] = scratch.new_dir('c07k8-')
    return _STATE['root']


def build(depth: int, choice, kind: str, pad: int):
    """-> (files: rel path -> str | bytes | None(absent), expected chain [(rel path, line number, text)])"""
    import posixpath
    paths = [CASE]
    for i in range(depth):
        paths.append(posixpath.normpath(posixpath.join(posixpath.dirname(paths[-1]), LEVEL_PATHS[i][choice[i]])))
    files = {}
    chain = []
    for i, p in enumerate(paths):
        head = ['[setup]'] if i == 0 else []
        head += ['# c'] * pad
        last = i == depth
        if not last:
            line = 'including ' + LEVEL_PATHS[i][choice[i]]
            files[p] = '\n'.join(head + [line, OK_LINE]) + '\n'
            chain.append((p, len(head) + 1, line))
        elif kind == 'syntax':
            files[p] = '\n'.join(head + [OK_LINE, ERR_LINE, OK_LINE]) + '\n'
            chain.append((p, len(head) + 2, ERR_LINE))
        elif kind == 'failure':
            files[p] = '\n'.join(head + ['`why`', OK_LINE]) + '\n'
            chain.append((p, len(head) + 2, OK_LINE))
        elif kind == 'missing':
            files[p] = None
        else:
            files[p] = NON_UTF8
    return files, chain


def write_tree(files) -> str:
    root = os.path.join(_root(), 'tree')
    shutil.rmtree(root, ignore_errors=True)  # a fresh tree for every call: no file of another layout is left
    os.makedirs(os.path.join(root, 'elsewhere'))
    for rel, content in files.items():
        if content is None:
            continue
        p = os.path.join(root, rel)
        os.makedirs(os.path.dirname(p), exist_ok=True)
        with open(p, 'wb') as f:
            f.write(content if isinstance(content, bytes) else content.encode('utf-8'))
    return root


def run_and_render(root: str, form: str, kind: str, depth: int):
    """-> (cwd, outcome tag, printed report) ; outcome tag in 'syntax' | 'file-access' | 'ok' | 'ok-but-element-not-found'"""
    from exactly_lib.common.report_rendering import print_
    from exactly_lib.common.report_rendering.parts.error_info import ErrorInfoRenderer
    from exactly_lib.common.report_rendering.parts.failure_info import FailureInfoRenderer
    from exactly_lib.execution import phase_step
    from exactly_lib.execution.failure_info import InstructionFailureInfo
    from exactly_lib.processing.test_case_processing import TestCaseFileReference, ProcessError, AccessorError, \
        AccessErrorType
    from exactly_lib.section_document.model import ElementType
    from exactly_lib.test_case.result.failure_details import FailureDetails
    if form == 'bare':
        cwd, case_path = os.path.join(root, 'cases'), pathlib.Path('a.case')
    elif form == 'rel-dir':
        cwd, case_path = root, pathlib.Path(CASE)
    else:
        cwd, case_path = os.path.join(root, 'elsewhere'), pathlib.Path(root) / CASE
    with open(os.path.join(root, CASE)) as f:
        text = f.read()
    old = os.getcwd()
    os.chdir(cwd)
    try:
        try:
            tc = _k4._real_parser().apply(TestCaseFileReference(case_path, case_path.parent), text)
        except ProcessError as ex:
            return cwd, 'syntax', print_.print_to_str(ErrorInfoRenderer(ex.error_info).render_sequence())
        except AccessorError as ex:
            if ex.error is not AccessErrorType.FILE_ACCESS_ERROR:
                raise
            return cwd, 'file-access', print_.print_to_str(ErrorInfoRenderer(ex.error_info).render_sequence())
        # the instruction with the description, in the deepest file: rendered as a failing instruction
        for el in tc.setup_phase.elements:
            if el.element_type is ElementType.INSTRUCTION and el.instruction_info.description == 'why':
                info = InstructionFailureInfo(phase_step.SETUP__MAIN, el.source_location_info.source_location_path,
                                              FailureDetails.new_constant_message('it failed'),
                                              el.instruction_info.description)
                return cwd, 'ok', print_.print_to_str(FailureInfoRenderer(info).render_sequence())
        return cwd, 'ok-but-element-not-found', ''
    finally:
        os.chdir(old)


def reported_locations(report: str):
    """[(path as printed, line number, the text displayed under it)] in the order of the report"""
    lines = report.split('\n')
    out = []
    for i, line in enumerate(lines):
        m = LOCATION_RE.match(line)
        if m:
            j = i + 1
            while j < len(lines) and lines[j].strip() == '':
                j += 1
            out.append((m.group(1), int(m.group(2)), lines[j].strip() if j < len(lines) else None))
    return out


def report_is_right(root: str, cwd: str, report: str, expected_chain, files, bug=None) -> bool:
    locations = reported_locations(report)
    if bug == 'line-numbers-from-zero':
        expected_chain = [(p, n - 1, t) for (p, n, t) in expected_chain]
    if len(locations) != len(expected_chain):
        return False
    for (printed, n, shown), (rel, exp_n, exp_text) in zip(locations, expected_chain):
        abs_printed = os.path.normpath(os.path.join(cwd, printed))
        if abs_printed != os.path.normpath(os.path.join(root, rel)):
            return False
        if not os.path.isfile(abs_printed):
            return False
        if n != exp_n or shown != exp_text:
            return False
        if bug is None:
            with open(abs_printed) as f:
                on_disk = f.read().split('\n')
            if not (1 <= n <= len(on_disk) and on_disk[n - 1].strip() == shown):
                return False
    return 'In [setup]' in report
