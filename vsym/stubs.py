"""Pure-Python stand-ins for things on the far side of a C / OS boundary.

Each is constrained only by the documented contract of the thing it replaces, is written in
the plainest string operations (append-only / slice-read only: CrossHair models these
exactly), and is self-tested concretely against the real thing by `selftest_*` below.
"""


class SymStringIO:
    """io.StringIO(initial) restricted to what shlex and TokenStream use:
    read(n), readline(), tell(), seek(pos).  Character offsets; no newline translation
    (io.StringIO's default newline='\\n' does none either)."""

    def __init__(self, initial: str = ''):
        self._s = initial
        self._pos = 0

    def read(self, n: int = -1) -> str:
        if n is None or n < 0:
            r = self._s[self._pos:]
        else:
            r = self._s[self._pos:self._pos + n]
        self._pos += len(r)
        return r

    def readline(self) -> str:
        i = self._s.find('\n', self._pos)
        if i == -1:
            r = self._s[self._pos:]
        else:
            r = self._s[self._pos:i + 1]
        self._pos += len(r)
        return r

    def tell(self) -> int:
        return self._pos

    def seek(self, pos: int, whence: int = 0) -> int:
        if whence != 0:
            raise ValueError('SymStringIO: only absolute seek')
        self._pos = pos
        return pos

    def getvalue(self) -> str:
        return self._s

    def close(self):
        pass


class _IoModuleStub:
    """Stands in for the `io` module as seen by exactly_lib's token_stream."""
    StringIO = SymStringIO


def install_token_stream_io():
    """Rebinds `io` inside token_stream to the pure-Python StringIO so that shlex reads a
    (possibly symbolic) str through Python code."""
    from exactly_lib.section_document.element_parsers import token_stream
    token_stream.io = _IoModuleStub
    return token_stream


def uninstall_token_stream_io():
    import io
    from exactly_lib.section_document.element_parsers import token_stream
    token_stream.io = io


def selftest_sym_string_io() -> int:
    """Concrete differential test SymStringIO vs io.StringIO on scripted op sequences."""
    import io
    import itertools
    n = 0
    texts = ['', 'a', 'ab\ncd', '\n', 'a\n', '\n\nab', 'a b "c d"\n e']
    scripts = list(itertools.product(['r1', 'r2', 'rl', 'ra', 't', 's0', 's1', 's3'], repeat=3))
    for t in texts:
        for sc in scripts:
            a, b = io.StringIO(t), SymStringIO(t)
            for op in sc:
                if op == 'r1':
                    ra, rb = a.read(1), b.read(1)
                elif op == 'r2':
                    ra, rb = a.read(2), b.read(2)
                elif op == 'rl':
                    ra, rb = a.readline(), b.readline()
                elif op == 'ra':
                    ra, rb = a.read(), b.read()
                elif op == 't':
                    ra, rb = a.tell(), b.tell()
                else:
                    p = min(int(op[1]), len(t))
                    ra, rb = a.seek(p), b.seek(p)
                if ra != rb:
                    raise AssertionError('SymStringIO differs from io.StringIO on %r %r: %r vs %r' % (t, sc, ra, rb))
                n += 1
    return n
