"""Work-arounds for defects of the *tool* (CrossHair 0.0.110), applied in the worker process
only.  Nothing here touches the subject (/repo).

1. relib._match_pattern takes len() of a symbolic string while tracing is suspended and
   dies with CrossHairInternal whenever a regex matches the empty string on a string that
   is a lazily evaluated slice (e.g. a line obtained by str.split).  The copy below takes
   the length with tracing resumed.

2. LazyIntSymbolicStr.__eq__ compares the code-point containers of two symbolic strings with
   `==`; the containers come in list flavour and in tuple flavour and SymbolicList.__eq__
   answers False for a non-list, so two equal strings can compare unequal (for symbolic s,
   `(s + '\\n')[:-1] == s` is reported False with a counterexample that does not reproduce).
   Found independently by the C05 and C14 harness work.  The replacement compares the code
   points irrespective of the flavour of their containers.

3. CrossHair replaces builtin `hash` by a function whose docstring carries a PEP 316 contract;
   under analysis kind PEP316 every traced `hash(x)` (e.g. pathlib.PurePath.__hash__, hit by
   every dict / set keyed by paths) may then be "short-circuited" to a FREE symbolic int, which
   makes dict look-ups fork without bound (CANNOT_CONFIRM) or raise TypeError.  The
   work-around makes CrossHair never short-circuit `_hash`: the real hash is always computed -
   strictly more precise, nothing is assumed.  The same holds for `repr` (free symbolic strings in
   error messages).  Found by the C15 / C16 / C18 harness work.
"""
import operator


def apply():
    _fix_relib()
    _fix_str_eq()
    _fix_hash_shortcircuit()


def _fix_str_eq():
    from crosshair.libimpl import builtinslib as bl
    from crosshair.tracers import NoTracing, ResumedTracing
    if getattr(bl, '_c14_str_eq_fixed', False):
        return
    LazyIntSymbolicStr = bl.LazyIntSymbolicStr
    SymbolicBoundedIntTuple = bl.SymbolicBoundedIntTuple

    def _codepoints_eq(a, b):
        if a is b:
            return True
        if a.__len__() != b.__len__():
            return False
        for x, y in zip(a, b):
            if x is y:
                continue
            if x != y:
                return False
        return True

    def __eq__(self, other):
        with NoTracing():
            mypoints = self._codepoints
            if isinstance(other, LazyIntSymbolicStr):
                otherpoints = other._codepoints
            elif isinstance(other, str):
                otherpoints = [ord(ch) for ch in other]
            else:
                return NotImplemented
            mine_is_sbit = isinstance(mypoints, SymbolicBoundedIntTuple)
            other_is_sbit = isinstance(otherpoints, SymbolicBoundedIntTuple)
            with ResumedTracing():
                if mine_is_sbit:
                    return mypoints.__eq__(otherpoints)
                if other_is_sbit:
                    return otherpoints.__eq__(mypoints)
                return _codepoints_eq(mypoints, otherpoints)

    LazyIntSymbolicStr.__eq__ = __eq__
    bl._c14_str_eq_fixed = True


def _fix_hash_shortcircuit():
    import crosshair.core as core
    orig = core.consider_shortcircuit
    if getattr(orig, '_c15_patched', False):
        return

    def consider_shortcircuit(fn, *a, **kw):
        # any contract-carrying replacement of a builtin that CrossHair itself installs (_hash, _repr, ...)
        if (getattr(fn, '__module__', '') or '').startswith('crosshair.') and kw.get('allow_interpretation', True):
            return None
        return orig(fn, *a, **kw)

    consider_shortcircuit._c15_patched = True
    consider_shortcircuit._c18_patched = True
    core.consider_shortcircuit = consider_shortcircuit


def _fix_relib():
    from crosshair.libimpl import relib
    from crosshair.tracers import ResumedTracing, is_tracing

    if getattr(relib, '_vsym_fixed', False):
        return
    _Match = relib._Match
    _internal_match_patterns = relib._internal_match_patterns
    _traced_binop = relib._traced_binop
    parse = relib.parse

    def _match_pattern(compiled_regex, orig_str, pos, endpos=None, subpattern=None,
                       allow_empty=True, ord=ord, chr=chr):
        assert not is_tracing()
        if subpattern is None:
            subpattern = parse(compiled_regex.pattern, compiled_regex.flags)
        with ResumedTracing():
            trimmed_str = orig_str[:endpos]
        matchpart = _internal_match_patterns(
            subpattern, compiled_regex.flags, trimmed_str, pos, allow_empty, ord=ord, chr=chr)
        if matchpart is None:
            return None
        match_start, match_end = matchpart._fullspan()
        if _traced_binop(match_start, operator.eq, match_end):
            with ResumedTracing():
                n = len(orig_str)
            matchpart._clamp_all_spans(0, n)
        return _Match(matchpart._groups, pos, endpos, compiled_regex, orig_str)

    relib._match_pattern = _match_pattern
    relib._vsym_fixed = True
