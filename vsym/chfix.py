"""Work-arounds for defects of the *tool* (CrossHair 0.0.110), applied in the worker process
only.  Nothing here touches the subject (/repo).

1. relib._match_pattern takes len() of a symbolic string while tracing is suspended and
   dies with CrossHairInternal whenever a regex matches the empty string on a string that
   is a lazily evaluated slice (e.g. a line obtained by str.split).  The copy below takes
   the length with tracing resumed.
"""
import operator


def apply():
    from crosshair.libimpl import relib
    from crosshair.tracers import ResumedTracing, is_tracing

    if getattr(relib, '_vsym_fixed', False):
        return
    _Match = relib._Match
    _internal_match_patterns = relib._internal_match_patterns
    _traced_binop = relib._traced_binop
    parse = relib.parse

    def _match_pattern(compiled_regex, orig_str, pos, endpos=None, subpattern=None,
                       allow_empty=True, ord=ord, chr=chr):
        assert not is_tracing()
        if subpattern is None:
            subpattern = parse(compiled_regex.pattern, compiled_regex.flags)
        with ResumedTracing():
            trimmed_str = orig_str[:endpos]
        matchpart = _internal_match_patterns(
            subpattern, compiled_regex.flags, trimmed_str, pos, allow_empty, ord=ord, chr=chr)
        if matchpart is None:
            return None
        match_start, match_end = matchpart._fullspan()
        if _traced_binop(match_start, operator.eq, match_end):
            with ResumedTracing():
                n = len(orig_str)
            matchpart._clamp_all_spans(0, n)
        return _Match(matchpart._groups, pos, endpos, compiled_regex, orig_str)

    relib._match_pattern = _match_pattern
    relib._vsym_fixed = True
