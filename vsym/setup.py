"""setup_cmd: import self-test.  Nothing is compiled or installed."""
import os
import subprocess
import sys


def main():
    import crosshair  # noqa
    import z3  # noqa
    repo = os.environ.get('VSYM_REPO', '/repo')
    sys.path.insert(0, os.path.join(repo, 'src'))
    import warnings
    warnings.simplefilter('ignore')
    import exactly_lib  # noqa
    replay_py = os.environ.get('VSYM_REPLAY_PY', '/venv/bin/python')
    r = subprocess.run([replay_py, '-W', 'ignore', '-c', 'import exactly_lib'],
                       env=dict(os.environ, PYTHONPATH=os.path.join(repo, 'src'), PYTHONDONTWRITEBYTECODE='1'))
    if r.returncode != 0:
        raise SystemExit('replay interpreter cannot import exactly_lib')
    print('vsym setup ok: crosshair %s, z3 %s, python %s' % (crosshair.__version__, z3.get_version_string(), sys.version.split()[0]))


if __name__ == '__main__':
    main()
