"""Driver: decides one property by discharging all obligations of its harness.

usage (cwd=/verif):
    python3-vt -m vsym.check C13 --tier quick|thorough [--jobs N] [--only GLOB] [--no-twins]
    python3-vt -m vsym.check C13 --replay replays/C13-xxx.json

exit 0  every obligation of the tier Confirmed over all paths (vacuity guards refuted)
exit 1  a counterexample that reproduces on plain CPython (3.11 engine interpreter and the
        repository's own 3.12) and is not a listed known finding: VIOLATION line printed
exit 3  harness error / inconclusive (time-out, unknown, counterexample that does not
        reproduce, vacuous pre-condition, missing real function).  Never a VIOLATION line.
"""
import argparse
import concurrent.futures
import dataclasses
import fnmatch
import hashlib
import importlib
import inspect
import json
import os
import subprocess
import sys
import time

VERIF = os.path.dirname(os.path.dirname(os.path.abspath(__file__)))
REPO = os.environ.get('VSYM_REPO', '/repo')
ENGINE_PY = sys.executable
REPLAY_PY = os.environ.get('VSYM_REPLAY_PY', '/venv/bin/python')
MARK = '@@VSYM@@'
OUT = os.environ.get('VSYM_OUT_DIR') or VERIF  # evidence/ and replays/ go here (mutation trials redirect it)


def child_env():
    # a small environment: exactly_lib copies os.environ in several places and CrossHair models
    # dict(...) with linear-time structures, so a big environment only costs time
    keep = ('PATH', 'HOME', 'LANG', 'LC_ALL', 'TMPDIR', 'USER', 'LOGNAME', 'SHELL', 'TERM')
    env = {k: v for k, v in os.environ.items() if k in keep or k.startswith('VSYM_') or k.startswith('VERIF_')}
    env['PYTHONPATH'] = os.pathsep.join([os.path.join(REPO, 'src'), VERIF])
    env['PYTHONDONTWRITEBYTECODE'] = '1'
    env['PYTHONWARNINGS'] = 'ignore'
    env['PYTHONHASHSEED'] = '0'
    return env


def run_child(python, module, args, wall_timeout):
    cmd = [python, '-W', 'ignore', '-m', module] + list(args)
    t0 = time.time()
    try:
        p = subprocess.run(cmd, cwd=VERIF, env=child_env(), stdout=subprocess.PIPE,
                           stderr=subprocess.PIPE, timeout=wall_timeout)
    except subprocess.TimeoutExpired:
        return dict(verdict='unknown', error='wall-clock kill after %.0f s' % wall_timeout,
                    wall_s=round(time.time() - t0, 1))
    out = p.stdout.decode('utf-8', 'replace')
    for line in reversed(out.splitlines()):
        if line.startswith(MARK):
            return json.loads(line[len(MARK):])
    return dict(verdict='error', error='no result line; rc=%s; stderr tail: %s' % (
        p.returncode, p.stderr.decode('utf-8', 'replace')[-1500:]), wall_s=round(time.time() - t0, 1))


def run_worker(prop, o, tier, twin, excluded):
    args = [prop, o.name, tier]
    if twin:
        args.append('--twin')
    if excluded:
        args += ['--exclude', ','.join(sorted(excluded))]
    budget = min(o.timeout, 120.0) if twin else o.timeout
    args += ['--timeout', '%.1f' % budget]  # the (scaled) CPU budget; the worker would otherwise use the harness' own
    return run_child(ENGINE_PY, 'vsym.worker', args, budget * float(os.environ.get('VSYM_WALL_FACTOR', '3')) + 120)


def run_replay(python, prop, obname, tier, args_src, excluded=()):
    args = [prop, obname, tier, args_src]
    if excluded:
        args += ['--exclude', ','.join(sorted(excluded))]
    return run_child(python, 'vsym.replay', args, 600)


def resolve_qualified(name):
    parts = name.split('.')
    for i in range(len(parts), 0, -1):
        try:
            obj = importlib.import_module('.'.join(parts[:i]))
        except ImportError:
            continue
        for p in parts[i:]:
            obj = getattr(obj, p)
        return obj
    raise ImportError(name)


def source_hash(name):
    obj = resolve_qualified(name)
    if isinstance(obj, (staticmethod, classmethod)):
        obj = obj.__func__
    if isinstance(obj, property):
        obj = obj.fget
    try:
        src = inspect.getsource(obj)
    except TypeError:
        src = repr(obj)
    return hashlib.sha256(src.encode()).hexdigest()[:16]


def repo_state():
    def git(*a):
        try:
            return subprocess.run(['git', '-C', REPO] + list(a), stdout=subprocess.PIPE,
                                  stderr=subprocess.DEVNULL).stdout.decode().strip()
        except Exception:  # noqa
            return ''
    head = git('rev-parse', '--short', 'HEAD')
    diff = git('diff', 'HEAD', '--', 'src')
    return dict(repo_head=head, repo_dirty_sha=(hashlib.sha256(diff.encode()).hexdigest()[:12] if diff else None))


def load_findings(prop):
    path = os.path.join(VERIF, 'known_findings.json')
    if not os.path.exists(path):
        return []
    data = json.load(open(path))
    return [f for f in data.get('findings', []) if f.get('property') == prop]


def main(argv=None):
    ap = argparse.ArgumentParser()
    ap.add_argument('property')
    ap.add_argument('--tier', default=os.environ.get('VERIF_TIER', 'quick'), choices=['quick', 'thorough'])
    ap.add_argument('--jobs', type=int, default=int(os.environ.get('VSYM_JOBS', '0')) or (os.cpu_count() or 4))
    ap.add_argument('--only', default=None, help='glob on obligation names (debugging; evidence not written)')
    ap.add_argument('--no-twins', action='store_true')
    ap.add_argument('--replay', default=None)
    ap.add_argument('--list', action='store_true')
    ap.add_argument('--first', action='store_true', help='stop scheduling new obligations after the first reproduced counterexample (mutation trials; evidence not written)')
    ap.add_argument('--scale', type=float, default=float(os.environ.get('VSYM_SCALE', '2.5')),
                    help='multiply all CPU budgets of the harnesses (default 2.5: head-room for loaded machines; a budget is only an upper bound)')
    a = ap.parse_args(argv)
    prop = a.property
    os.chdir(VERIF)
    sys.path[:0] = [os.path.join(REPO, 'src'), VERIF]
    os.environ['PYTHONDONTWRITEBYTECODE'] = '1'
    sys.dont_write_bytecode = True
    import warnings
    warnings.simplefilter('ignore')

    if a.replay:
        return do_replay(prop, a.replay)

    t0 = time.time()
    seed = int(os.environ.get('VERIF_SEED', '0') or 0)
    mod = importlib.import_module('harness.' + prop)
    obs = list(mod.obligations(a.tier))
    if a.scale != 1.0:
        obs = [dataclasses.replace(o, timeout=o.timeout * a.scale) for o in obs]
    if a.only:
        obs = [o for o in obs if fnmatch.fnmatch(o.name, a.only)]
    if a.list:
        for o in obs:
            print(o.name, o.fn, o.expect, o.timeout, o.bound)
        return 0
    names = [o.name for o in obs]
    assert len(set(names)) == len(names), 'duplicate obligation names'

    harness_errors = []
    violations = []
    known_lines = []
    validated = 0

    # ---- real functions: must exist; hash of their current source
    functions = {}
    for o in obs:
        for q in o.real:
            if q not in functions:
                try:
                    functions[q] = source_hash(q)
                except Exception as e:  # noqa
                    functions[q] = None
                    harness_errors.append('real function %s cannot be resolved in %s/src: %s' % (q, REPO, e))

    # ---- known findings: replay the witness; region excluded only while it still fails
    excluded = set()
    findings = load_findings(prop)
    for f in findings:
        w = f['witness']
        r = run_replay(REPLAY_PY, prop, w['obligation'], w.get('tier', a.tier), w['args_src'])
        validated += 1
        exc_text = str(r.get('exception') or '')
        if r.get('holds') is False and exc_text.startswith('TypeError') and 'argument' in exc_text:
            # the harness function no longer takes the recorded arguments: the witness is stale, not "still failing"
            harness_errors.append('witness of finding %s does not fit the harness function any more: %s' % (f.get('id'), exc_text[:200]))
        elif r.get('holds') is False:
            known_lines.append('KNOWN-FINDING: property=%s %s' % (prop, f['what']))
            if f.get('region'):
                excluded.add(f['region'])
        elif r.get('holds') is True:
            print('note: listed finding %s no longer reproduces; its region is NOT excluded' % f.get('id'))
        else:
            harness_errors.append('witness replay of finding %s broke: %s' % (f.get('id'), r.get('error')))
    for line in known_lines:
        print(line)

    # ---- harness self-test (stubs and oracles against the real thing, concretely)
    selftest_n = 0
    if hasattr(mod, 'selftest') and not a.only:
        r = run_child(REPLAY_PY, 'vsym.selftest', [prop, a.tier], 900)
        if r.get('ok'):
            selftest_n = int(r.get('n', 0))
        else:
            harness_errors.append('self-test failed: %s' % (r.get('error'),))

    # ---- schedule: obligations + reachability twins
    jobs = []
    for o in obs:
        jobs.append((o, False))
    if not a.no_twins:
        seen = {}
        for o in obs:
            if o.expect == 'confirm':
                if o.fn not in seen or o.timeout < seen[o.fn].timeout:
                    seen[o.fn] = o
        for o in seen.values():
            jobs.append((o, True))
    jobs.sort(key=lambda j: -(min(j[0].timeout, 120) if j[1] else j[0].timeout))

    results = {}
    with concurrent.futures.ThreadPoolExecutor(max_workers=a.jobs) as ex:
        futs = {}
        for o, tw in jobs:
            futs[ex.submit(run_worker, prop, o, a.tier, tw, excluded)] = (o, tw)
        for fu in concurrent.futures.as_completed(futs):
            o, tw = futs[fu]
            if fu.cancelled():
                results[(o.name, tw)] = dict(verdict='skipped')
                continue
            try:
                r = fu.result()
            except Exception as e:  # noqa
                r = dict(verdict='error', error=repr(e))
            results[(o.name, tw)] = r
            if a.first and not tw and o.expect == 'confirm' and r.get('verdict') == 'refuted':
                rr = run_replay(REPLAY_PY, prop, o.name, a.tier, r['args_src'], excluded)
                if rr.get('holds') is False:
                    for f2 in futs:
                        f2.cancel()
            tag = o.name + ('#twin' if tw else '')
            print('  [%s] %-44s %-9s paths=%-5s q=%-6s cpu=%ss' % (
                prop, tag, r.get('verdict'), r.get('paths', '-'), r.get('solver_queries', '-'), r.get('cpu_s', '-')),
                  flush=True)

    # ---- judge
    discharged = 0
    samples = []
    tot = dict(paths=0, queries=0, solver_s=0.0, cpu_s=0.0, confirmed_paths=0)
    for o, tw in jobs:
        r = results[(o.name, tw)]
        tag = o.name + ('#twin' if tw else '')
        v = r.get('verdict')
        tot['paths'] += int(r.get('paths') or 0)
        tot['queries'] += int(r.get('solver_queries') or 0)
        tot['solver_s'] += float(r.get('solver_time_s') or 0)
        tot['cpu_s'] += float(r.get('cpu_s') or 0)
        tot['confirmed_paths'] += int(r.get('num_confirmed_paths') or 0)
        if v == 'skipped':
            continue
        if tw:
            if v == 'refuted':
                discharged += 1
            else:
                harness_errors.append('reachability twin %s not refuted (%s): the harness may be vacuous. %s' % (
                    tag, v, r.get('error') or r.get('messages')))
            continue
        if o.expect == 'refute':
            if v == 'refuted':
                rr = run_replay(ENGINE_PY, prop, o.name, a.tier, r['args_src'], excluded)
                validated += 1
                if rr.get('holds') is False:
                    discharged += 1
                else:
                    harness_errors.append('seeded error %s: counterexample does not reproduce: %s' % (tag, rr))
            else:
                harness_errors.append('seeded error %s was not refuted (%s)' % (tag, v))
            continue
        if v == 'confirmed':
            discharged += 1
            if len(samples) < 6:
                samples.append(dict(obligation=o.name, kernel=o.kernel, harness=o.fn, case=repr(o.case), bound=o.bound,
                                    verdict='confirmed over all paths', paths=r.get('paths'),
                                    solver_queries=r.get('solver_queries'), cpu_s=r.get('cpu_s')))
        elif v == 'refuted':
            r1 = run_replay(ENGINE_PY, prop, o.name, a.tier, r['args_src'], excluded)
            r2 = run_replay(REPLAY_PY, prop, o.name, a.tier, r['args_src'], excluded)
            validated += 2
            if r1.get('holds') is False and r2.get('holds') is False:
                os.makedirs(os.path.join(OUT, 'replays'), exist_ok=True)
                path = os.path.join('replays', '%s-%s.json' % (prop, o.name.replace('/', '_')))
                json.dump(dict(property=prop, obligation=o.name, tier=a.tier, harness=o.fn, case=repr(o.case),
                               args_src=r['args_src'], message=r.get('ce_message'), bound=o.bound,
                               entry=o.entry, excluded=sorted(excluded),
                               replay_engine=r1, replay_repo_python=r2, **repo_state()),
                          open(os.path.join(OUT, path), 'w'), indent=1)
                violations.append((o.name, path, r.get('ce_message')))
            else:
                harness_errors.append('counterexample of %s does not reproduce concretely (args: %s; 3.11: %s; 3.12: %s)' % (
                    tag, r.get('args_src'), r1, r2))
        elif v == 'skipped':
            pass
        else:
            harness_errors.append('%s inconclusive: %s %s' % (tag, v, r.get('error') or [m.get('message') for m in r.get('messages', [])]))

    for name, path, msg in violations:
        print('VIOLATION property=%s replay=%s' % (prop, path))
        print('    obligation %s: %s' % (name, (msg or '')[:400]))
    for h in harness_errors:
        print('HARNESS-ERROR: ' + h[:1500])

    wall = time.time() - t0
    n_ob = len(jobs)
    if not a.only and not a.first:
        ev = dict(
            property_id=prop, tier=a.tier, seed=seed, level='model_checking',
            coverage=dict(
                states=max(tot['paths'], 0), transitions=max(tot['queries'], 0),
                traces_validated_against_impl=validated + selftest_n,
                samples=samples or [dict(note='no obligation confirmed in this run')],
                obligations=n_ob, discharged=discharged,
                explanation='states = execution paths through harness + real code explored by CrossHair; '
                            'transitions = z3 check-sat queries that decided branch feasibility and negated post-conditions; '
                            'traces_validated = concrete replays of solver models / known-finding witnesses + stub and oracle self-test cases',
                paths_reaching_postcondition=tot['confirmed_paths'],
                solver_queries=tot['queries'], solver_time_s=round(tot['solver_s'], 2), cpu_s=round(tot['cpu_s'], 1),
                functions_encoded=functions,
                bounds=sorted({'%s: %s' % (o.kernel or o.fn, o.bound) for o in obs if o.bound}),
                stubs=sorted({s for o in obs for s in o.stubs}),
                outside_claim=sorted({s for o in obs for s in o.outside}) + list(getattr(mod, 'OUTSIDE', [])),
                selector_only_obligations=sum(1 for o in obs if o.selector),
                reachability_twins=sum(1 for _, tw in jobs if tw),
                seeded_oracle_errors=sum(1 for o in obs if o.expect == 'refute'),
                known_findings=[f.get('id') for f in findings],
                excluded_regions=sorted(excluded),
                inconclusive=len(harness_errors),
                python=dict(engine='%d.%d.%d' % sys.version_info[:3], replay=REPLAY_PY),
                engine='crosshair-tool 0.0.110 + z3 (python wheel)',
                exhaustive=False,
                **repo_state()),
            assumptions=list(getattr(mod, 'ASSUMPTIONS', [])) + [
                'CrossHair 0.0.110 byte-code interpreter and its str/int/list/dict/re models; z3',
                'engine interpreter 3.11.7 vs repository interpreter 3.12.1: same source, stdlib semantics assumed equal',
            ],
            wall_s=round(wall, 1), violations=len(violations))
        os.makedirs(os.path.join(OUT, 'evidence'), exist_ok=True)
        json.dump(ev, open(os.path.join(OUT, 'evidence', prop + '.json'), 'w'), indent=1)
    print('%s %s: %d/%d obligations discharged, %d paths, %d solver queries (%.1f s solver, %.0f s cpu), wall %.0f s' % (
        prop, a.tier, discharged, n_ob, tot['paths'], tot['queries'], tot['solver_s'], tot['cpu_s'], wall))
    if violations:
        return 1
    if harness_errors:
        return 3
    return 0


def do_replay(prop, path):
    d = json.load(open(path))
    r = run_replay(REPLAY_PY, prop, d['obligation'], d.get('tier', 'quick'), d['args_src'], d.get('excluded', ()))
    print(json.dumps(r)[:3000])
    if r.get('holds') is False:
        print('VIOLATION property=%s replay=%s' % (prop, path))
        return 1
    if r.get('holds') is True:
        print('replay: the property holds on this input now')
        return 0
    return 3


if __name__ == '__main__':
    sys.exit(main())
