"""vsym: bounded symbolic checking of emilkarlen/exactly with CrossHair + z3.

See /verif/DESIGN.md, section 2.
"""
