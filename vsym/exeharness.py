"""Shared execution harness (DESIGN.md section 4, "execution harness").

Builds a `test_case_doc.TestCase` from stub instructions that subclass the PUBLIC base
classes (SetupPhaseInstruction, BeforeAssertPhaseInstruction, AssertPhaseInstruction,
CleanupPhaseInstruction, ConfigurationPhaseInstruction, ActPhaseInstruction) and a stub
Actor / ActionToCheck, and runs it through the REAL `full_execution.execution.execute`
with the real OsServices, a real sandbox and a deterministic sandbox-directory resolver.

Every stub step reports to a `Plan` object: `plan.at(cell, env)` records the visit in
`plan.trace` and returns the fault kind to inject.  A cell is (phase, step, pos).

    phases : conf setup act ba assert cleanup
    steps  : sym pre main post        (instructions)
             parse sym pre post prepare execute   (act)

Fault kinds (ints, so they can be symbolic):
    0 ok   1 validation error returned (svh steps) / ParseException (act parse) /
             reference to an undefined symbol (sym steps)
    2 hard error returned   3 HardErrorException raised   4 arbitrary exception (ValueError)
    5 FAIL (assert main only)

Nothing here knows what the executor is supposed to do: the expectations live in the
property harnesses.
"""
import os
import pathlib
from typing import Callable, List, Optional, Sequence, Tuple

from exactly_lib.execution.configuration import ExecutionConfiguration
from exactly_lib.execution.full_execution import execution as full_execution
from exactly_lib.execution.predefined_properties import os_environ_getter
from exactly_lib.impls.os_services import os_services_access
from exactly_lib.section_document import model
from exactly_lib.section_document.source_location import SourceLocation, SourceLocationInfo, SourceLocationPath
from exactly_lib.symbol.sdv_structure import SymbolReference
from exactly_lib.test_case import test_case_doc
from exactly_lib.test_case.hard_error import HardErrorException
from exactly_lib.test_case.phases.act.actor import ActionToCheck, Actor, ParseException
from exactly_lib.test_case.phases.act.adv_w_validation import AdvWValidation
from exactly_lib.test_case.phases.act.instruction import ActPhaseInstruction
from exactly_lib.test_case.phases.assert_ import AssertPhaseInstruction
from exactly_lib.test_case.phases.before_assert import BeforeAssertPhaseInstruction
from exactly_lib.test_case.phases.cleanup import CleanupPhaseInstruction
from exactly_lib.test_case.phases.configuration import ConfigurationBuilder, ConfigurationPhaseInstruction
from exactly_lib.test_case.phases.setup.instruction import SetupPhaseInstruction
from exactly_lib.test_case.result import eh, pfh, sh, svh
from exactly_lib.test_case.result.failure_details import FailureDetails
from exactly_lib.test_case.test_case_status import TestCaseStatus
from exactly_lib.common.report_rendering import text_docs
from exactly_lib.util.line_source import LineSequence, single_line_sequence
from exactly_lib.util.name_and_value import NameAndValue
from exactly_lib.util.symbol_table import SymbolTable

from vsym import scratch

OK, VAL, HARD, HARD_EXC, EXC, FAIL = 0, 1, 2, 3, 4, 5

UNDEFINED_SYMBOL_NAME = 'vsym_undefined_symbol'

STATUSES = (TestCaseStatus.PASS, TestCaseStatus.FAIL, TestCaseStatus.SKIP)


class InjectedError(ValueError):
    pass


def _text(s: str):
    return text_docs.single_pre_formatted_line_object(s)


class Plan:
    """Decides the fault kind at every cell and records the visits."""

    def __init__(self, kind_of: Callable[[tuple], int], observer: Optional[Callable] = None):
        self._kind_of = kind_of
        self._observer = observer
        self.trace: List[tuple] = []
        self.previous_phases: List = []  # previous_phase argument of every cleanup main
        self.exit_code = 0
        self.atc_stdout = 'atc-out'
        self.atc_stderr = 'atc-err'
        self.extra = {}

    def at(self, cell: tuple, env=None, **ctx) -> int:
        self.trace.append(cell)
        if self._observer is not None:
            self._observer(cell, env, ctx)
        return self._kind_of(cell)


# ----------------------------------------------------------------------------- result translation

def _svh(kind: int):
    if kind == OK:
        return svh.new_svh_success()
    if kind == VAL:
        return svh.new_svh_validation_error__str('injected validation error')
    if kind == HARD:
        return svh.new_svh_hard_error__str('injected hard error')
    if kind == HARD_EXC:
        raise HardErrorException(_text('injected hard error exception'))
    raise InjectedError('injected exception')


def _sh(kind: int):
    if kind == OK:
        return sh.new_sh_success()
    if kind == HARD:
        return sh.new_sh_hard_error__str('injected hard error')
    if kind == HARD_EXC:
        raise HardErrorException(_text('injected hard error exception'))
    raise InjectedError('injected exception')


def _pfh(kind: int):
    if kind == OK:
        return pfh.new_pfh_pass()
    if kind == FAIL:
        return pfh.new_pfh_fail__str('injected assertion failure')
    if kind == HARD:
        return pfh.new_pfh_hard_error(_text('injected hard error'))
    if kind == HARD_EXC:
        raise HardErrorException(_text('injected hard error exception'))
    raise InjectedError('injected exception')


def _symbol_usages(kind: int) -> Sequence:
    if kind == OK:
        return ()
    if kind == VAL:
        from exactly_lib.type_val_deps.sym_ref.w_str_rend_restrictions import reference_restrictions
        return (SymbolReference(UNDEFINED_SYMBOL_NAME, reference_restrictions.is_any_type_w_str_rendering()),)
    if kind == HARD_EXC:
        raise HardErrorException(_text('injected hard error exception'))
    raise InjectedError('injected exception')


# ----------------------------------------------------------------------------- stub instructions

class ConfStub(ConfigurationPhaseInstruction):
    def __init__(self, plan: Plan, pos: int):
        self.plan, self.pos = plan, pos

    def main(self, configuration_builder: ConfigurationBuilder):
        return _svh(self.plan.at(('conf', 'main', self.pos), None, builder=configuration_builder))


class ConfSetStatus(ConfigurationPhaseInstruction):
    """The 'status = ...' of the stub world; consults no cell."""

    def __init__(self, status: TestCaseStatus):
        self.status = status

    def main(self, configuration_builder: ConfigurationBuilder):
        configuration_builder.set_test_case_status(self.status)
        return svh.new_svh_success()


class SetupStub(SetupPhaseInstruction):
    def __init__(self, plan: Plan, pos: int):
        self.plan, self.pos = plan, pos

    def symbol_usages(self):
        return _symbol_usages(self.plan.at(('setup', 'sym', self.pos)))

    def validate_pre_sds(self, environment):
        return _svh(self.plan.at(('setup', 'pre', self.pos), environment))

    def main(self, environment, settings, os_services, settings_builder):
        kind = self.plan.at(('setup', 'main', self.pos), environment, settings=settings,
                            settings_builder=settings_builder, os_services=os_services)
        if self.pos == 0 and kind == OK:
            settings_builder.stdin = StdinStub(self.plan, environment)
        return _sh(kind)

    def validate_post_setup(self, environment):
        return _svh(self.plan.at(('setup', 'post', self.pos), environment))


class StdinStub(AdvWValidation):
    """The stdin of the action to check, as stored in the settings by the first setup stub:
    its validation is the step act/validate-exe-input (cell ('act', 'exe-input', 0))."""

    def __init__(self, plan: Plan, environment=None):
        self.plan = plan
        self.environment = environment  # of the setup step that stored the object (validate() itself is given none)

    def validate(self):
        kind = self.plan.at(('act', 'exe-input', 0), self.environment)
        if kind == OK:
            return None
        if kind == HARD:
            return _text('injected hard error')
        if kind == HARD_EXC:
            raise HardErrorException(_text('injected hard error exception'))
        raise InjectedError('injected exception')

    def resolve(self, environment):
        return None  # the stub action to check reads no stdin


class BeforeAssertStub(BeforeAssertPhaseInstruction):
    def __init__(self, plan: Plan, pos: int):
        self.plan, self.pos = plan, pos

    def symbol_usages(self):
        return _symbol_usages(self.plan.at(('ba', 'sym', self.pos)))

    def validate_pre_sds(self, environment):
        return _svh(self.plan.at(('ba', 'pre', self.pos), environment))

    def validate_post_setup(self, environment):
        return _svh(self.plan.at(('ba', 'post', self.pos), environment))

    def main(self, environment, settings, os_services):
        return _sh(self.plan.at(('ba', 'main', self.pos), environment, settings=settings, os_services=os_services))


class AssertStub(AssertPhaseInstruction):
    def __init__(self, plan: Plan, pos: int):
        self.plan, self.pos = plan, pos

    def symbol_usages(self):
        return _symbol_usages(self.plan.at(('assert', 'sym', self.pos)))

    def validate_pre_sds(self, environment):
        return _svh(self.plan.at(('assert', 'pre', self.pos), environment))

    def validate_post_setup(self, environment):
        return _svh(self.plan.at(('assert', 'post', self.pos), environment))

    def main(self, environment, settings, os_services):
        return _pfh(self.plan.at(('assert', 'main', self.pos), environment, settings=settings, os_services=os_services))


class CleanupStub(CleanupPhaseInstruction):
    def __init__(self, plan: Plan, pos: int):
        self.plan, self.pos = plan, pos

    def symbol_usages(self):
        return _symbol_usages(self.plan.at(('cleanup', 'sym', self.pos)))

    def validate_pre_sds(self, environment):
        return _svh(self.plan.at(('cleanup', 'pre', self.pos), environment))

    def main(self, environment, settings, os_services, previous_phase):
        self.plan.previous_phases.append(previous_phase)
        return _sh(self.plan.at(('cleanup', 'main', self.pos), environment, settings=settings,
                                os_services=os_services, previous_phase=previous_phase))


class ActSourceStub(ActPhaseInstruction):
    def source_code(self) -> LineSequence:
        return single_line_sequence(1, 'stub-act-source')


class AtcStub(ActionToCheck):
    def __init__(self, plan: Plan):
        self.plan = plan

    def symbol_usages(self):
        return _symbol_usages(self.plan.at(('act', 'sym', 0)))

    def validate_pre_sds(self, environment):
        return _svh(self.plan.at(('act', 'pre', 0), environment))

    def validate_post_setup(self, environment):
        return _svh(self.plan.at(('act', 'post', 0), environment))

    def prepare(self, environment, os_services):
        return _sh(self.plan.at(('act', 'prepare', 0), environment, os_services=os_services))

    def execute(self, environment, os_services, atc_input, output_files):
        kind = self.plan.at(('act', 'execute', 0), environment, os_services=os_services, atc_input=atc_input)
        if kind == OK:
            output_files.out.write(self.plan.atc_stdout)
            output_files.err.write(self.plan.atc_stderr)
            return eh.new_eh_exit_code(self.plan.exit_code)
        if kind == HARD:
            return eh.new_eh_hard_error(FailureDetails.new_constant_message('injected hard error'))
        if kind == HARD_EXC:
            raise HardErrorException(_text('injected hard error exception'))
        raise InjectedError('injected exception')


class ActorStub(Actor):
    def __init__(self, plan: Plan):
        self.plan = plan

    def parse(self, instructions):
        kind = self.plan.at(('act', 'parse', 0), None, instructions=instructions)
        if kind == OK:
            return AtcStub(self.plan)
        if kind == VAL:
            raise ParseException.of_str('injected act-phase syntax error')
        if kind == HARD_EXC:
            raise HardErrorException(_text('injected hard error exception'))
        raise InjectedError('injected exception')


# ----------------------------------------------------------------------------- test case construction

_ROOT = pathlib.Path('/')


def element(instruction, line_number: int, text: str) -> model.SectionContentElement:
    return model.SectionContentElement(
        model.ElementType.INSTRUCTION,
        model.InstructionInfo(instruction),
        SourceLocationInfo(_ROOT, SourceLocationPath(
            SourceLocation(single_line_sequence(line_number, text), None), ())))


def section(instructions: Sequence, name: str) -> model.SectionContents:
    return model.SectionContents(tuple(
        element(ins, i + 1, '%s-%d' % (name, i)) for i, ins in enumerate(instructions)))


def stub_test_case(plan: Plan, n: Tuple[int, int, int, int, int],
                   status: Optional[TestCaseStatus]) -> test_case_doc.TestCase:
    """n = (conf, setup, before-assert, assert, cleanup) numbers of stub instructions."""
    nconf, nsetup, nba, nassert, ncleanup = n
    conf = [ConfStub(plan, i) for i in range(nconf)]
    if status is not None:
        conf = [ConfSetStatus(status)] + conf
    return test_case_doc.TestCase(
        section(conf, 'conf'),
        section([SetupStub(plan, i) for i in range(nsetup)], 'setup'),
        section([ActSourceStub()], 'act'),
        section([BeforeAssertStub(plan, i) for i in range(nba)], 'before-assert'),
        section([AssertStub(plan, i) for i in range(nassert)], 'assert'),
        section([CleanupStub(plan, i) for i in range(ncleanup)], 'cleanup'),
    )


# ----------------------------------------------------------------------------- running

class Run:
    """Everything observable about one execution."""

    def __init__(self):
        self.result = None  # FullExeResult
        self.exception = None  # exception that escaped execute() (must not happen)
        self.trace = []
        self.previous_phases = []
        self.sandbox_roots = []  # directories handed out by the resolver
        self.resolver_calls = 0
        self.cwd_before = self.cwd_after = None
        self.environ_before = self.environ_after = None
        self.sandbox_exists_after = []
        self.hds_dir = None


def execute(plan: Plan,
            test_case: test_case_doc.TestCase,
            is_keep_sandbox: bool = False,
            environ=None,
            timeout_in_seconds: Optional[int] = None,
            predefined_symbols: Optional[SymbolTable] = None,
            exe_atc_and_skip_assertions=None,
            actor: Optional[Actor] = None,
            mem_buff_size: int = 2 ** 10,
            default_environ_getter=os_environ_getter,
            remove_kept_sandbox: bool = True,
            after: Optional[Callable] = None,
            ) -> Run:
    run = Run()
    work = scratch.new_dir('exe')
    hds = pathlib.Path(work) / 'home'
    hds.mkdir()
    run.hds_dir = hds
    sandbox_base = pathlib.Path(work) / 'sandboxes'
    sandbox_base.mkdir()

    def resolver() -> str:
        run.resolver_calls += 1
        d = sandbox_base / ('sds-%d' % run.resolver_calls)
        d.mkdir()
        run.sandbox_roots.append(str(d))
        return str(d)

    exe_conf = ExecutionConfiguration(default_environ_getter, environ, timeout_in_seconds,
                                      os_services_access.new_for_current_os(), resolver, mem_buff_size,
                                      predefined_symbols if predefined_symbols is not None else SymbolTable(),
                                      exe_atc_and_skip_assertions)
    builder = ConfigurationBuilder(hds, hds, NameAndValue('stub-actor', actor if actor is not None else ActorStub(plan)))
    run.cwd_before = os.getcwd()
    run.environ_before = tuple(sorted(os.environ.items()))
    try:
        run.result = full_execution.execute(exe_conf, builder, is_keep_sandbox, test_case)
    except Exception as e:  # noqa  (an escaping exception is itself an observation)
        run.exception = e
    run.cwd_after = os.getcwd()
    run.environ_after = tuple(sorted(os.environ.items()))
    run.trace = list(plan.trace)
    run.previous_phases = list(plan.previous_phases)
    run.sandbox_exists_after = [os.path.isdir(d) and len(os.listdir(d)) > 0 for d in run.sandbox_roots]
    run.work_dir = work
    if after is not None:
        after(run)
    if remove_kept_sandbox:
        try:
            os.chdir(run.cwd_before)
        except OSError:
            pass
        _make_writable(work)
        scratch.remove(work)
    return run


def _make_writable(root: str):
    for d, dirs, files in os.walk(root):
        for f in files:
            try:
                os.chmod(os.path.join(d, f), 0o600)
            except OSError:
                pass
