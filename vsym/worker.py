"""Runs ONE obligation under CrossHair in this process and prints one JSON line.

usage: python3-vt -m vsym.worker PROPERTY OBLIGATION TIER [--twin] [--exclude r1,r2] [--timeout S]

The deciding step: CrossHair enumerates the feasible paths through harness + real code; on
each path z3 decides the path condition and the negated post-condition.  Verdicts:

  confirmed  the path tree was exhausted, no model of a violated post-condition exists
  refuted    z3 produced a model; args_src holds the concrete arguments
  unknown    budget exceeded / solver unknown / unexplored path  (inconclusive)
  pre_unsat  no path satisfied the pre-condition (vacuous)
  error      anything else
"""
import collections
import importlib
import json
import os
import re
import sys
import time
import traceback


def _load(prop, obname, tier):
    mod = importlib.import_module('harness.' + prop)
    for o in mod.obligations(tier):
        if o.name == obname:
            return mod, o
    raise SystemExit('no such obligation: %s %s %s' % (prop, obname, tier))


_CALL_RE = re.compile(r'when calling (\w+)\((.*)$', re.S)


def parse_call(message):
    m = _CALL_RE.search(message)
    if not m:
        return None
    rest = m.group(2).rstrip()
    i = rest.rfind(') (which returns ')
    if i >= 0:
        return rest[:i]
    if rest.endswith(')'):
        return rest[:-1]
    return None


def main(argv):
    prop, obname, tier = argv[:3]
    twin = '--twin' in argv
    excluded = ()
    timeout = None
    for i, a in enumerate(argv):
        if a == '--exclude':
            excluded = tuple(x for x in argv[i + 1].split(',') if x)
        if a == '--timeout':
            timeout = float(argv[i + 1])
    t0 = time.time()
    c0 = time.process_time()
    out = dict(property=prop, obligation=obname, tier=tier, twin=twin, excluded=list(excluded))
    try:
        import z3
        qstat = dict(n=0, t=0.0, unknown=0)
        _orig_check = z3.Solver.check

        def _check(self, *a):
            s = time.perf_counter()
            r = _orig_check(self, *a)
            qstat['t'] += time.perf_counter() - s
            qstat['n'] += 1
            if str(r) == 'unknown':
                qstat['unknown'] += 1
            return r

        z3.Solver.check = _check

        from crosshair.core_and_libs import analyze_function  # registers lib patches
        from crosshair.core import analyze_calltree
        from crosshair.condition_parser import condition_parser
        from crosshair.options import AnalysisOptionSet, AnalysisKind
        from crosshair.statespace import VerificationStatus, MessageType
        from vsym import chfix, ob as obmod
        chfix.apply()

        mod, o = _load(prop, obname, tier)
        obmod.set_context(o.case, excluded, twin)
        budget = float(timeout if timeout is not None else o.timeout)
        if twin:
            budget = min(budget, 120.0)
        ppt = o.per_path_timeout if o.per_path_timeout else max(20.0, budget ** 0.5)
        stats = collections.Counter()
        opts = AnalysisOptionSet(analysis_kind=[AnalysisKind.PEP316],
                                 per_condition_timeout=budget,
                                 per_path_timeout=ppt,
                                 max_uninteresting_iterations=sys.maxsize,
                                 report_all=True, stats=stats)
        fn = getattr(mod, o.fn)
        checkables = analyze_function(fn, opts)
        if len(checkables) != 1:
            raise RuntimeError('expected exactly one condition on %s, got %r' % (o.fn, checkables))
        chk = checkables[0]
        if not hasattr(chk, 'conditions'):
            raise RuntimeError('contract of %s could not be parsed: %r' % (o.fn, list(chk.analyze())))
        options = chk.options
        options.deadline = time.process_time() + options.per_condition_timeout
        with condition_parser(options.analysis_kind):
            analysis = analyze_calltree(options, chk.conditions)
        st = analysis.verification_status
        msgs = list(analysis.messages)
        out['messages'] = [dict(state=m.state.name, message=m.message, line=m.line,
                                traceback=(m.traceback or '')[-1500:]) for m in msgs]
        out['num_confirmed_paths'] = analysis.num_confirmed_paths
        out['paths'] = stats.get('num_paths', 0)
        verdict = 'unknown'
        if any(m.state == MessageType.PRE_UNSAT for m in msgs):
            verdict = 'pre_unsat'
        elif st == VerificationStatus.REFUTED:
            verdict = 'refuted'
            for m in msgs:
                src = parse_call(m.message)
                if src is not None:
                    out['args_src'] = src
                    out['ce_message'] = m.message[:2000]
                    break
            else:
                verdict = 'error'
                out['error'] = 'refuted without a parsable counterexample: %r' % (
                    [m.message for m in msgs],)
        elif st == VerificationStatus.CONFIRMED:
            verdict = 'confirmed' if analysis.num_confirmed_paths >= 1 else 'pre_unsat'
        out['verdict'] = verdict
        out['solver_queries'] = qstat['n']
        out['solver_unknown'] = qstat['unknown']
        out['solver_time_s'] = round(qstat['t'], 3)
        out['budget_s'] = budget
    except BaseException as e:  # noqa
        out['verdict'] = 'error'
        out['error'] = '%s: %s' % (type(e).__name__, e)
        out['traceback'] = traceback.format_exc()[-3000:]
    out['cpu_s'] = round(time.process_time() - c0, 2)
    out['wall_s'] = round(time.time() - t0, 2)
    sys.stdout.write('\n@@VSYM@@' + json.dumps(out) + '\n')
    sys.stdout.flush()
    try:
        from vsym import scratch
        scratch.cleanup()
    except Exception:  # noqa
        pass
    os._exit(0)


if __name__ == '__main__':
    main(sys.argv[1:])
