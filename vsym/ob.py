"""Obligation model shared by driver, worker, replay and the harness modules.

Importable under any Python (no CrossHair import here) so that harness modules can be
loaded by the replay interpreter (/venv/bin/python 3.12) too.
"""
import dataclasses
from typing import Any, List, Optional, Sequence

CONFIRM = 'confirm'  # the obligation must be Confirmed over all paths
REFUTE = 'refute'  # vacuity guard: reachability twin / seeded oracle error; must be refuted


@dataclasses.dataclass
class Ob:
    name: str  # unique within the property
    fn: str  # name of the harness function (module level, PEP 316 contract)
    case: Any = None  # concrete case parameters; visible to the harness as ob.case()
    kernel: str = ''  # K1, K2 ... of DESIGN.md section 4
    bound: str = ''  # human readable bound of this obligation
    timeout: float = 120.0  # CrossHair per_condition_timeout (CPU seconds of the worker)
    expect: str = CONFIRM
    real: Sequence[str] = ()  # qualified names of the real functions driven
    stubs: Sequence[str] = ()  # environment stubs installed
    outside: Sequence[str] = ()  # what lies outside the claim of this obligation
    selector: bool = False  # True: only catalogue selectors are symbolic
    per_path_timeout: Optional[float] = None
    entry: str = ''  # public entry point through which a counterexample is replayed


# ---- per-process state set by worker / replay before the harness function is run ----

_CASE: Any = None
_EXCLUDED: frozenset = frozenset()
_TWIN: bool = False


def set_context(case, excluded=(), twin=False):
    global _CASE, _EXCLUDED, _TWIN
    _CASE = case
    _EXCLUDED = frozenset(excluded)
    _TWIN = twin


def case():
    """Concrete case parameters of the obligation being analysed."""
    return _CASE


def excluded(region: str) -> bool:
    """True iff the named known-finding region is to be excluded by the pre-condition."""
    return region in _EXCLUDED


def twin() -> bool:
    """True in a reachability twin: the harness must return False where it would
    otherwise evaluate its real post-condition."""
    return _TWIN


def post(value) -> bool:
    """Wrap the final post-condition value of a harness: in a reachability twin the
    post-condition is replaced by False at exactly this point."""
    if _TWIN:
        return False
    return bool(value)


def concrete_int(x, lo: int, hi: int) -> int:
    """Returns x as a concrete Python int (lo <= x <= hi).  Under symbolic execution the
    comparisons fork the path, so the returned value is safe to hand to a C boundary
    (file.write, os.*, pathlib ...).  Plain identity on concrete ints."""
    for i in range(lo, hi + 1):
        if x == i:
            return i
    raise ValueError('concrete_int: %r not in [%d, %d]' % (x, lo, hi))


def pick(seq, idx):
    """seq[idx] with the index made concrete first (see concrete_int)."""
    return seq[concrete_int(idx, 0, len(seq) - 1)]


def concrete_bool(b) -> bool:
    if b:
        return True
    return False


def untraced():
    """Context manager: CrossHair's tracing suspended (plain CPython speed).  ONLY for code that handles concrete data:
    every symbolic selector must have been made concrete first (concrete_int / pick / concrete_bool).  No-op outside
    CrossHair (replay, self-test)."""
    import contextlib
    try:
        from crosshair.tracers import NoTracing, is_tracing
    except ImportError:
        return contextlib.nullcontext()
    return NoTracing() if is_tracing() else contextlib.nullcontext()
