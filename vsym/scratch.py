"""Scratch directories for harnesses that need a real file system.

CrossHair makes `random` symbolic, so `tempfile.mkdtemp` must not be used under analysis.
Directories are created with deterministic, counter-based names under a per-process root
(VSYM_SCRATCH or <system tmp>/vsym-scratch-<pid>), which is removed at process exit.
Nothing here is needed by a later command.
"""
import atexit
import os
import shutil

_ROOT = None
_N = 0


def root() -> str:
    global _ROOT
    if _ROOT is None:
        base = os.environ.get('VSYM_SCRATCH')
        if not base:
            shm = '/dev/shm'
            if os.path.isdir(shm) and os.access(shm, os.W_OK):
                base = os.path.join(shm, 'vsym-scratch')  # memory backed: directory operations are much cheaper
            else:
                base = os.path.join(os.environ.get('TMPDIR', '/tmp'), 'vsym-scratch')
        _ROOT = os.path.join(base, 'p%d' % os.getpid())
        # a killed worker with the same (reused) pid may have left its directory behind
        shutil.rmtree(_ROOT, ignore_errors=True)
        os.makedirs(_ROOT, exist_ok=True)
        atexit.register(cleanup)
    return _ROOT


def new_dir(prefix: str = 'd') -> str:
    global _N
    _N += 1
    p = os.path.join(root(), '%s%06d' % (prefix, _N))
    os.makedirs(p)
    return p


def remove(path: str):
    shutil.rmtree(path, ignore_errors=True)


def cleanup():
    global _ROOT
    if _ROOT is not None:
        shutil.rmtree(_ROOT, ignore_errors=True)
        _ROOT = None
