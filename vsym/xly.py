"""Helpers shared by the harness modules for building REAL exactly_lib objects.

Nothing here models exactly_lib: parsers, sdv->ddv->adv->primitive resolution, matchers and
transformers are the repository's own.  The only stand-ins are

* `install_int_placeholders`: `python_evaluate` (a C boundary: it calls eval) is rebound so
  that the integer literals written as placeholder names K0, K1, ... denote the integers in
  a table (symbolic ints under CrossHair); every other text is evaluated by the real
  function.  Contract assumed: an integer literal denotes its integer.
* stub matchers/transformers that subclass the public base classes: they are the "programs"
  the properties quantify over.
"""
from typing import Dict, List, Sequence

from exactly_lib.impls.types.integer import evaluate_integer, integer_ddv, integer_sdv
from exactly_lib.impls.types.matcher.impls import sdv_components
from exactly_lib.section_document.element_parsers.token_stream_parser import new_token_parser
from exactly_lib.symbol.sdv_structure import SymbolContainer
from exactly_lib.symbol.value_type import ValueType
from exactly_lib.type_val_prims.matcher.matcher_base_class import MatcherWTrace
from exactly_lib.type_val_prims.matcher.matching_result import MatchingResult
from exactly_lib.util.description_tree import renderers, tree
from exactly_lib.util.symbol_table import SymbolTable

_REAL_PYTHON_EVALUATE = evaluate_integer.python_evaluate
_INTS: Dict[str, int] = {}


def _python_evaluate_stub(s: str) -> int:
    key = s.strip()
    if key in _INTS:
        return _INTS[key]
    return _REAL_PYTHON_EVALUATE(s)


def install_int_placeholders(values: Sequence[int], prefix: str = 'K'):
    """K0, K1, ... written where an integer is expected denote values[0], values[1], ..."""
    _INTS.clear()
    for i, v in enumerate(values):
        _INTS['%s%d' % (prefix, i)] = v
    integer_sdv.python_evaluate = _python_evaluate_stub
    integer_ddv.python_evaluate = _python_evaluate_stub


def uninstall_int_placeholders():
    _INTS.clear()
    integer_sdv.python_evaluate = _REAL_PYTHON_EVALUATE
    integer_ddv.python_evaluate = _REAL_PYTHON_EVALUATE


class StubMatcher(MatcherWTrace):
    """A matcher of a class unknown to exactly_lib.  Its verdicts come from `verdict_of`
    (a callable model -> bool); every question asked is appended to `log`."""

    def __init__(self, name: str, verdict_of, log: List):
        self._name = name
        self._verdict_of = verdict_of
        self._log = log

    @property
    def name(self) -> str:
        return self._name

    def structure(self):
        return renderers.header_only(self._name)

    def matches_w_trace(self, model) -> MatchingResult:
        v = bool(self._verdict_of(model))
        self._log.append(self._name)
        return MatchingResult(v, renderers.Constant(tree.Node(self._name, v, (), ())))


def matcher_symbol(primitive: MatcherWTrace, value_type: ValueType) -> SymbolContainer:
    return SymbolContainer(sdv_components.matcher_sdv_from_constant_primitive(primitive), value_type, None)


def symbol_table(entries: Dict[str, SymbolContainer]) -> SymbolTable:
    return SymbolTable(dict(entries))


_PARSE_CACHE: Dict = {}


def parse_cached(kind: str, parser, source: str):
    """Parses `source` with `parser` (an exactly_lib ParserFromTokenParser); the SDV is cached
    per (kind, source) so that re-execution of a harness on another path does not re-parse
    concrete text.  The SDV is immutable; resolution happens per path."""
    key = (kind, source)
    if key not in _PARSE_CACHE:
        tp = new_token_parser(source)
        sdv = parser.parse_from_token_parser(tp)
        rest = tp.token_stream.remaining_source
        if rest.strip() != '':
            raise ValueError('harness error: parser left %r of %r unconsumed' % (rest, source))
        _PARSE_CACHE[key] = (sdv, rest)
    return _PARSE_CACHE[key][0]


def primitive_of_matcher_sdv(sdv, symbols: SymbolTable):
    return sdv.resolve(symbols).value_of_any_dependency(None).primitive(None)
