"""Concrete replay of one obligation on plain CPython (no CrossHair involved).

usage: PYTHON -m vsym.replay PROPERTY OBLIGATION TIER ARGS_SRC [--exclude r1,r2]

ARGS_SRC is the argument list of a call as Python source, e.g. "0, 1, x=3".
Prints one JSON line {"holds": bool, "exception": str|null, "python": "3.x.y"}.
`holds` is False iff the harness function returned a false value or raised.
"""
import importlib
import json
import sys
import traceback


def run(prop, obname, tier, args_src, excluded=()):
    from vsym import ob as obmod
    mod = importlib.import_module('harness.' + prop)
    o = None
    for cand in mod.obligations(tier):
        if cand.name == obname:
            o = cand
            break
    if o is None:
        # an obligation of the other tier (replay files name their tier; be lenient)
        for t in ('quick', 'thorough'):
            for cand in mod.obligations(t):
                if cand.name == obname:
                    o = cand
    if o is None:
        raise SystemExit('no such obligation %s/%s' % (prop, obname))
    obmod.set_context(o.case, excluded, False)
    fn = getattr(mod, o.fn)
    ns = dict(vars(mod))
    ns['_cap'] = lambda *a, **k: (a, k)
    a, k = eval('_cap(%s)' % args_src, ns)
    res = dict(holds=None, exception=None, python='%d.%d.%d' % sys.version_info[:3])
    try:
        r = fn(*a, **k)
        res['holds'] = bool(r)
    except Exception as e:  # noqa
        res['holds'] = False
        res['exception'] = '%s: %s' % (type(e).__name__, e)
        res['traceback'] = traceback.format_exc()[-2000:]
    return res


def main(argv):
    prop, obname, tier, args_src = argv[:4]
    excluded = ()
    for i, a in enumerate(argv):
        if a == '--exclude':
            excluded = tuple(x for x in argv[i + 1].split(',') if x)
    res = run(prop, obname, tier, args_src, excluded)
    sys.stdout.write('\n@@VSYM@@' + json.dumps(res) + '\n')


if __name__ == '__main__':
    main(sys.argv[1:])
