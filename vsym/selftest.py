"""Runs the concrete self-test of a harness module (stubs and reference oracles compared with
the real thing on concrete inputs) under the repository's interpreter.

usage: PYTHON -m vsym.selftest PROPERTY TIER
Prints {"ok": bool, "n": cases, "error": ...}.  Not part of the deciding step.
"""
import importlib
import json
import sys
import traceback


def main(argv):
    prop, tier = argv[:2]
    res = dict(ok=False, n=0)
    try:
        mod = importlib.import_module('harness.' + prop)
        n = mod.selftest(tier)
        res = dict(ok=True, n=int(n or 0))
    except BaseException as e:  # noqa
        res = dict(ok=False, n=0, error='%s: %s\n%s' % (type(e).__name__, e, traceback.format_exc()[-2500:]))
    sys.stdout.write('\n@@VSYM@@' + json.dumps(res) + '\n')


if __name__ == '__main__':
    main(sys.argv[1:])
