#!/usr/bin/env python3
"""usage: tools/rncollect.py N  -- fills seeded/detection.json and seeded/*/meta.json for round N (>= 4) from the run logs
(/tmp/wt/seedruns/<seed>.log = first run, .log2 = run after strengthening) and prints the tally.  The essentials of the
logs (exit code, obligations with a replayed counterexample) are copied into detection.json, so /tmp is not needed later."""
import glob
import json
import os
import re
import sys

H = os.path.dirname(os.path.dirname(os.path.abspath(__file__)))
LOGS = '/tmp/wt/seedruns'
N = sys.argv[1]
NOTES = {
    'C03-r4m2': 'first run: exit 3 with 35 of 36 obligations discharged and no counterexample (the harness was being edited while it '
                'ran: one obligation name no longer existed) - not a detection',
}
BY_CONSTRUCTION = {
    'C01-r5m2': 'the quick tier had no instruction-count vector with exactly one empty phase (the thorough tier had); the five '
                'vectors were added from the author\'s description while the first run was being started',
}
CAUGHT_BY_OTHER = {
    # the change is to `filter -line-nums` with several ranges (range_merge): the subject of C13 (C05 states it as outside
    # its claim and refers to C13), whose check catches it
    'C05-r6m1': ('C13', 'the change is to the merging of several ranges of `filter -line-nums`, which C05 states as outside its claim '
                        '(line selection is C13)'),
}
ALSO = {
    'C10-r7m1': ['C05 K9 (the same diff as C05-r4m1; caught by the check of C05 at once)'],
    'C02-r5m1': ['C17 K3:sub, K3:beside:*, K3:named (the check of C17 caught it before C02 got K7: the change is to the order '
                 'in which suite and case contents are merged)'],
    'C04-r4m2': ['C02 K3:chain:setup-main, K3:chain:post (the check of C02 caught it before C04 was strengthened)'],
}


def obligations_of(path):
    obs = []
    for line in open(path, errors='replace'):
        m = re.search(r'VIOLATION property=(C\d\d) replay=replays/C\d\d-(.*)\.json', line)
        if m and m.group(2) not in obs:
            obs.append(m.group(2))
    return obs


def exit_of(path):
    for line in open(path, errors='replace'):
        if line.startswith('exit='):
            return int(line.strip()[5:])
    return None


def main():
    det_p = os.path.join(H, 'seeded', 'detection.json')
    det = json.load(open(det_p))
    tally = dict(at_once=[], strengthened=[], open=[], not_run=[])
    for d in sorted(glob.glob(os.path.join(H, 'seeded', 'C??-r%sm?' % N))):
        seed = os.path.basename(d)
        prop = seed[:3]
        log1, log2 = os.path.join(LOGS, seed + '.log'), os.path.join(LOGS, seed + '.log2')
        rc1 = exit_of(log1) if os.path.exists(log1) else None
        rc2 = exit_of(log2) if os.path.exists(log2) else None
        entry = dict(det.get(seed, {}))
        if rc1 is None and rc2 is None and entry.get('caught_by'):
            continue      # collected earlier; logs gone
        note = []
        if seed in BY_CONSTRUCTION and (rc1 == 1 or rc2 == 1):
            entry.update(caught_by=prop, obligations=obligations_of(log1 if rc1 == 1 else log2))
            note.append('strengthened before the first run, from the author\'s description: ' + BY_CONSTRUCTION[seed])
            tally['strengthened'].append(seed)
        elif rc1 == 1:
            entry.update(caught_by=prop, obligations=obligations_of(log1))
            tally['at_once'].append(seed)
        elif rc2 == 1 and seed in CAUGHT_BY_OTHER:
            other, why = CAUGHT_BY_OTHER[seed]
            entry.update(caught_by=other, obligations=obligations_of(log2))
            note.append('not seen by the check of %s (quick exit %s): caught by the check of %s - %s' % (prop, rc1, other, why))
            tally['strengthened'].append(seed)
        elif rc2 == 1:
            entry.update(caught_by=prop, obligations=obligations_of(log2))
            note.append('missed at first (quick exit %s); caught after strengthening' % rc1)
            tally['strengthened'].append(seed)
        elif rc1 is None:
            tally['not_run'].append(seed)
            continue
        else:
            entry.update(caught_by=None, obligations=[])
            note.append('first run exit %s, after strengthening exit %s' % (rc1, rc2))
            tally['open'].append(seed)
        if seed in NOTES:
            note.append(NOTES[seed])
        if seed in ALSO:
            entry['also'] = ALSO[seed]
        if note:
            entry['note'] = '; '.join(note)
        entry['round'] = int(N)
        det[seed] = entry
        meta_p = os.path.join(d, 'meta.json')
        meta = json.load(open(meta_p))
        if entry.get('caught_by'):
            meta['detected_by'] = '%s: %s' % (entry['caught_by'], ', '.join(entry['obligations'][:4]))
        if note:
            meta['detection_note'] = entry['note']
        json.dump(meta, open(meta_p, 'w'), indent=1)
    json.dump(det, open(det_p, 'w'), indent=1, ensure_ascii=False)
    for k, v in tally.items():
        print(k, len(v), ' '.join(v))


if __name__ == '__main__':
    main()
