#!/bin/bash
# usage: tools/mut.sh PROPERTY PATCH.diff [extra vsym.check args...]
# Applies PATCH to a scratch copy of /repo (outside /repo and /verif), runs the check of
# PROPERTY against it (VSYM_REPO), prints the tail of the output and the exit code, removes the copy.
set -u
PROP=$1; PATCH=$(readlink -f "$2"); shift 2
S=$(mktemp -d /tmp/vsym-mut-XXXXXX)
cp -r /repo/src "$S/src"
( cd "$S" && git init -q . 2>/dev/null; git -C "$S" apply "$PATCH" ) || { echo "PATCH DOES NOT APPLY"; rm -rf "$S"; exit 9; }
cd /verif
VSYM_REPO="$S" VSYM_OUT_DIR="$S/out" python3-vt -m vsym.check "$PROP" --tier quick "$@" > "$S/out.txt" 2>&1
RC=$?
grep -E "VIOLATION|HARNESS-ERROR|obligations discharged" "$S/out.txt" | cut -c1-300 | head -${MUT_LINES:-8}
echo "exit=$RC"
rm -rf "$S"
exit $RC
