#!/bin/bash
# usage: tools/roundn.sh N PROP  -- confirm the round-N seeded changes of PROP (/tmp/seeded_outN/PROP/m1,m2) and run the check against each
R=$1; P=$2
mkdir -p /tmp/wt/seedruns
for K in m1 m2; do
  SRC=/tmp/seeded_out$R/$P/$K
  [ -d $SRC ] || continue
  N=r$R$K
  if [ ! -d /verif/seeded/$P-$N ]; then
    python3 /verif/tools/confirm_seed.py $SRC $P $N > /tmp/wt/seedruns/$P-$N.confirm.log 2>&1
  fi
  if [ -d /verif/seeded/$P-$N ] && [ ! -f /tmp/wt/seedruns/$P-$N.log ]; then
    MUT_LINES=4 /verif/tools/mut.sh $P /verif/seeded/$P-$N/patch.diff --jobs ${SEED_JOBS:-8} --no-twins --first > /tmp/wt/seedruns/$P-$N.log 2>&1
  fi
done
