#!/usr/bin/env python3
"""Assembles /verif/DESIGN.md from tools/DESIGN.base.md (plan, sections 1-4, 6-8) + as-built pieces."""
import json, os, re
H = os.path.dirname(os.path.dirname(os.path.abspath(__file__)))
T = os.path.join(H, 'tools')
base = open(os.path.join(T, 'DESIGN.base.md')).read()
def cost_table():
    rows = ['| check | obligations | paths | solver queries | solver s | cpu s | wall s |', '|---|---|---|---|---|---|---|']
    tot = [0, 0, 0, 0.0, 0.0, 0.0]
    for i in range(1, 20):
        pid = 'C%02d' % i
        fp = os.path.join(H, 'evidence', pid + '.json')
        if not os.path.exists(fp):
            continue
        e = json.load(open(fp))
        c = e['coverage']
        vals = [c.get('obligations', 0), c.get('states', 0), c.get('solver_queries', 0), c.get('solver_time_s', 0), c.get('cpu_s', 0), e.get('wall_s', 0)]
        rows.append('| %s | %d | %d | %d | %.0f | %.0f | %.0f |' % tuple([pid] + vals))
        tot = [a + b for a, b in zip(tot, vals)]
    rows.append('| total | %d | %d | %d | %.0f | %.0f | %.0f |' % tuple(tot))
    return '\n'.join(rows)


_thor_p = os.path.join(T, 'thorough_results.md')
_thor = open(_thor_p).read().strip() if os.path.exists(_thor_p) else '(not recorded)'
base = base.replace('@@AS_BUILT@@', open(os.path.join(T, 'as_built_0.md')).read().rstrip().replace('@@COST_TABLE@@', cost_table()).replace('@@THOROUGH@@', _thor))
# per-property as-built paragraphs
props = {}
cur = None
for line in open(os.path.join(T, 'as_built_props.md')):
    if line.startswith('@@C'):
        cur = line.strip()[2:]
        props[cur] = []
    elif cur:
        props[cur].append(line)
for pid, lines in props.items():
    m = re.search(r'^### %s .*$' % pid, base, re.M)
    assert m, pid
    nxt = re.search(r'^###? ', base[m.end():], re.M)
    at = m.end() + nxt.start()
    base = base[:at] + ''.join(lines).rstrip() + '\n\n' + base[at:]
# section 5
i = base.index('## 5. Defects already suspected')
j = base.index('## 6. Tiers and cost')
sec5 = open(os.path.join(T, 'design_sec5.md')).read()
more_fix = open(os.path.join(T, 'more_fixes.md')).read().rstrip() if os.path.exists(os.path.join(T, 'more_fixes.md')) else ''
more_find = open(os.path.join(T, 'more_findings.md')).read().rstrip() if os.path.exists(os.path.join(T, 'more_findings.md')) else ''
sec5 = sec5.replace('@@MORE_FIXES@@\n', (more_fix + '\n') if more_fix else '').replace('@@MORE_FINDINGS@@\n', (more_find + '\n') if more_find else '')
base = base[:i] + sec5.rstrip() + '\n\n\n' + base[j:]
# section 9
det = json.load(open(os.path.join(H, 'seeded', 'detection.json')))
rows = []
for k in sorted(x for x in det if not x.startswith('_')):
    v = det[k]
    meta_p = os.path.join(H, 'seeded', k, 'notes.md')
    caught = v.get('caught_by') or '— (see note)'
    obl = ', '.join('`%s`' % o for o in v.get('obligations', [])[:3])
    also = ('; also ' + ', '.join(v['also'])) if v.get('also') else ''
    note = v.get('note', '')
    rows.append('| %s | %s | %s%s | %s |' % (k, caught, obl, also, note))
open_ = [k for k in sorted(det) if not k.startswith('_') and not det[k].get('caught_by') and os.path.isdir(os.path.join(H, 'seeded', k))]
sec9 = open(os.path.join(T, 'design_sec9_head.md')).read().rstrip().replace('@@R2_OPEN@@', ('still missed: ' + ', '.join(open_) + ' (see the rows).') if open_ else 'none is missed now.') + '\n\n| seeded change | caught by | obligations (quick tier) | note |\n|---|---|---|---|\n' + '\n'.join(rows) + '\n'
base = base.rstrip() + '\n\n\n' + sec9
open(os.path.join(H, 'DESIGN.md'), 'w').write(base)
print('DESIGN.md written,', len(base), 'bytes')
