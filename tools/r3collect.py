#!/usr/bin/env python3
"""usage: tools/r3collect.py  -- fills seeded/detection.json and seeded/*/meta.json for the third round from the run
logs (/tmp/wt/seedruns/<seed>.log = first run, .log2 = run after strengthening) and prints the tally."""
import glob
import json
import os
import re

H = os.path.dirname(os.path.dirname(os.path.abspath(__file__)))
LOGS = '/tmp/wt/seedruns'

# strengthened on the basis of the author's report BEFORE the first run of the check: by construction of the harness as
# it was when the change was written, the change could not be seen
BY_CONSTRUCTION = {
    'C03-r3m1': 'the catalogue had only direct wrong-type references and single-reference definitions',
    'C03-r3m2': 'the harness ran standalone cases only; it manifests in a suite run (new kernel K4)',
    'C04-r3m1': 'the harness had stub actors only; it needs the real command-line actor with -transformed-by (new kernel K3)',
    'C04-r3m2': 'act/validate-exe-input was stated as outside the claim (new cell of the model)',
    'C13-r3m1': 'no transformer object was applied twice (K4:reapply)',
    'C19-r3m2': 'no file-creating instruction with program contents stood in [assert] (new sites)',
}
NOTES = {
    'C02-r3m1': 'confirmed on /repo at 663c9c0 (the head it was written against); fix 6de5e53 later removed the inputs its '
                'demonstration uses, the change itself is caught through the stub accessor raising an unexpected exception',
    'C05-r3m1': 'first run: exit 3 (counterexamples that did not replay: the change shares state between the paths of one '
                'worker) — inconclusive, not a detection; caught after kernel K8 (one object resolved twice within ONE path)',
}


def obligations_of(path):
    obs = []
    for line in open(path, errors='replace'):
        m = re.search(r'VIOLATION property=(C\d\d) replay=replays/C\d\d-(.*)\.json', line)
        if m and m.group(2) not in obs:
            obs.append(m.group(2))
    return obs


def exit_of(path):
    for line in open(path, errors='replace'):
        if line.startswith('exit='):
            return int(line.strip()[5:])
    return None


def main():
    det_p = os.path.join(H, 'seeded', 'detection.json')
    det = json.load(open(det_p))
    tally = dict(at_once=[], strengthened=[], open=[])
    for d in sorted(glob.glob(os.path.join(H, 'seeded', 'C??-r3m?'))):
        seed = os.path.basename(d)
        prop = seed[:3]
        log1, log2 = os.path.join(LOGS, seed + '.log'), os.path.join(LOGS, seed + '.log2')
        rc1 = exit_of(log1) if os.path.exists(log1) else None
        rc2 = exit_of(log2) if os.path.exists(log2) else None
        entry = dict(det.get(seed, {}))
        if seed == 'C02-r3m1':
            entry.update(caught_by='C02', obligations=['K3:chain:none'])
            rc1 = 1
        if seed == 'C09-r3m1':
            # measured by the harness author on the head the change was written against (before fix 294ad9a)
            entry.update(caught_by='C09', obligations=['K4:06-llE.xx.E.x', 'K4:07', 'K4:09-llEx.x.Exx', 'K5:text:02'],
                         round=3, note='missed at first (quick exit 0); caught after strengthening (continuation check after raw '
                                       'lines) on the head it was written against; since fix 294ad9a (fresh lexer whenever the '
                                       'position is moved past raw lines) the change no longer alters behaviour: its '
                                       'demonstration PASSES with the change applied, and the check rightly exits 0')
            det[seed] = entry
            tally['strengthened'].append(seed)
            meta_p = os.path.join(d, 'meta.json')
            meta = json.load(open(meta_p))
            meta['detected_by'] = 'C09: K4:06, K4:07, K4:09, K5:text:02 (before fix 294ad9a)'
            meta['detection_note'] = entry['note']
            json.dump(meta, open(meta_p, 'w'), indent=1)
            continue
        note = []
        if seed in BY_CONSTRUCTION:
            obs = obligations_of(log2) if rc2 == 1 else obligations_of(log1)
            entry.update(caught_by=prop, obligations=obs)
            note.append('strengthened before the first run, from the author\'s description: ' + BY_CONSTRUCTION[seed])
            tally['strengthened'].append(seed)
        elif rc1 == 1 and seed != 'C02-r3m1':
            entry.update(caught_by=prop, obligations=obligations_of(log1))
            tally['at_once'].append(seed)
        elif seed == 'C02-r3m1':
            tally['at_once'].append(seed)
        elif rc2 == 1:
            entry.update(caught_by=prop, obligations=obligations_of(log2))
            note.append('missed at first (quick exit %s); caught after strengthening' % rc1)
            tally['strengthened'].append(seed)
        else:
            entry.update(caught_by=None, obligations=[])
            note.append('first run exit %s, after strengthening exit %s' % (rc1, rc2))
            tally['open'].append(seed)
        if seed in NOTES:
            note.append(NOTES[seed])
        if note:
            entry['note'] = '; '.join(note)
        entry['round'] = 3
        det[seed] = entry
        meta_p = os.path.join(d, 'meta.json')
        meta = json.load(open(meta_p))
        if entry.get('caught_by'):
            meta['detected_by'] = '%s: %s' % (entry['caught_by'], ', '.join(entry['obligations'][:4]))
        if note:
            meta['detection_note'] = entry['note']
        json.dump(meta, open(meta_p, 'w'), indent=1)
    json.dump(det, open(det_p, 'w'), indent=1, ensure_ascii=False)
    for k, v in tally.items():
        print(k, len(v), ' '.join(v))


if __name__ == '__main__':
    main()
