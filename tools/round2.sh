#!/bin/bash
# usage: tools/round2.sh PROP  -- confirm the round-2 seeded changes of PROP and run the check of PROP against each
P=$1
mkdir -p /tmp/wt/seedruns
for K in m1 m2; do
  SRC=/tmp/seeded_out2/$P/$K
  [ -d $SRC ] || continue
  N=r2$K
  if [ ! -d /verif/seeded/$P-$N ]; then
    python3 /verif/tools/confirm_seed.py $SRC $P $N > /tmp/wt/seedruns/$P-$N.confirm.log 2>&1
  fi
  if [ -d /verif/seeded/$P-$N ] && [ ! -f /tmp/wt/seedruns/$P-$N.log ]; then
    MUT_LINES=4 /verif/tools/mut.sh $P /verif/seeded/$P-$N/patch.diff --jobs ${SEED_JOBS:-8} --no-twins --first > /tmp/wt/seedruns/$P-$N.log 2>&1
  fi
done
