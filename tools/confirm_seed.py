#!/usr/bin/env python3
"""usage: tools/confirm_seed.py SRC_DIR PROPERTY NAME
Confirms a candidate seeded change (SRC_DIR holds patch.diff, demo.py|demo.sh, notes.md) in a scratch
git worktree of /repo (outside /repo and /verif):
  1. patch applies to HEAD; 2. pinned baseline (155 tests) still passes with it; 3. demo FAILS with it;
  4. demo PASSES without it.
On success copies it to /verif/seeded/<PROPERTY>-<NAME>/ and writes meta.json.  Removes the worktree.
"""
import json
import os
import shutil
import subprocess
import sys
import tempfile
import xml.etree.ElementTree as ET

REPO = '/repo'
VERIF = os.path.dirname(os.path.dirname(os.path.abspath(__file__)))


def sh(cmd, **kw):
    return subprocess.run(cmd, stdout=subprocess.PIPE, stderr=subprocess.STDOUT, **kw)


def baseline(wt):
    xml = tempfile.mktemp(suffix='.xml')
    env = dict(os.environ, PYTHONPATH=os.path.join(wt, 'src'))
    sh(['/venv/bin/python', '-m', 'pytest', '-q', '-p', 'no:cacheprovider', '--timeout=900',
        '--continue-on-collection-errors', '--junitxml=' + xml], cwd=wt, env=env)
    passed = set()
    for tc in ET.parse(xml).iter('testcase'):
        if not any(c.tag in ('failure', 'error', 'skipped') for c in tc):
            passed.add(tc.get('classname') + '::' + tc.get('name'))
    os.unlink(xml)
    base = set(json.load(open('/root/.vp/BASELINE.json'))['stable_pass'])
    return len(base & passed), len(base)


def demo(src, wt):
    tmp = tempfile.mkdtemp(prefix='seed-demo-')
    env = dict(os.environ, TMPDIR=tmp, PYTHONPATH=os.path.join(wt, 'src'))
    if os.path.exists(os.path.join(src, 'demo.py')):
        cmd = ['/venv/bin/python', '-W', 'ignore', os.path.join(src, 'demo.py'), wt]
    else:
        cmd = ['bash', os.path.join(src, 'demo.sh'), wt]
    try:
        r = subprocess.run(cmd, stdout=subprocess.PIPE, stderr=subprocess.STDOUT, env=env, timeout=1200, cwd=tmp)
        out, rc = r.stdout.decode('utf-8', 'replace'), r.returncode
    except subprocess.TimeoutExpired:
        out, rc = 'TIMEOUT', 124
    shutil.rmtree(tmp, ignore_errors=True)
    return rc, out


def main():
    src, prop, name = os.path.abspath(sys.argv[1]), sys.argv[2], sys.argv[3]
    wt = tempfile.mkdtemp(prefix='seed-wt-')
    os.rmdir(wt)
    r = sh(['git', '-C', REPO, 'worktree', 'add', '-q', '--detach', wt, 'HEAD'])
    if r.returncode != 0:
        print(r.stdout.decode())
        return 2
    ok = False
    report = {}
    try:
        r = sh(['git', '-C', wt, 'apply', os.path.join(src, 'patch.diff')])
        report['applies'] = (r.returncode == 0)
        if r.returncode != 0:
            print('patch does not apply:', r.stdout.decode()[:500])
            return 1
        n, tot = baseline(wt)
        report['baseline_with_change'] = '%d/%d' % (n, tot)
        rc1, out1 = demo(src, wt)
        report['demo_with_change'] = dict(rc=rc1, tail=out1[-300:])
        sh(['git', '-C', wt, 'checkout', '--', '.'])
        rc0, out0 = demo(src, wt)
        report['demo_without_change'] = dict(rc=rc0, tail=out0[-300:])
        ok = (n == tot) and rc1 != 0 and 'FAIL' in out1 and rc0 == 0 and 'PASS' in out0
        report['confirmed'] = ok
    finally:
        sh(['git', '-C', REPO, 'worktree', 'remove', '--force', wt])
        shutil.rmtree(wt, ignore_errors=True)
    print(json.dumps(report, indent=1)[:1500])
    if ok:
        dst = os.path.join(VERIF, 'seeded', '%s-%s' % (prop, name))
        os.makedirs(dst, exist_ok=True)
        for f in os.listdir(src):
            if f in ('patch.diff', 'demo.py', 'demo.sh', 'notes.md'):
                shutil.copy(os.path.join(src, f), os.path.join(dst, f))
        head = sh(['git', '-C', REPO, 'rev-parse', '--short', 'HEAD']).stdout.decode().strip()
        notes = open(os.path.join(src, 'notes.md')).read() if os.path.exists(os.path.join(src, 'notes.md')) else ''
        meta = dict(property=prop, name=name, breaks=prop,
                    needs_to_manifest='see notes.md',
                    notes_head=notes[:600],
                    confirmed_on_repo_head=head,
                    what_i_ran=['git worktree add <scratch> HEAD; git apply patch.diff',
                                'pinned suite in the worktree with the change: %s baseline tests pass' % report['baseline_with_change'],
                                'demo with the change: exit %d (FAIL)' % rc1,
                                'git checkout -- . ; demo without the change: exit %d (PASS)' % rc0,
                                'git worktree remove --force <scratch>'],
                    detected_by=None)
        json.dump(meta, open(os.path.join(dst, 'meta.json'), 'w'), indent=1)
        print('kept as', dst)
    return 0 if ok else 1


if __name__ == '__main__':
    sys.exit(main())
