#!/bin/bash
# usage: tools/recheck_seed.sh Cxx-rNmK [extra vsym.check args]  -- re-run the check of Cxx against the seeded change after strengthening
S=$1; shift
P=${S%%-*}
MUT_LINES=6 /verif/tools/mut.sh $P /verif/seeded/$S/patch.diff --jobs ${SEED_JOBS:-8} --no-twins --first "$@" > /tmp/wt/seedruns/$S.log2 2>&1
tail -3 /tmp/wt/seedruns/$S.log2
