#!/usr/bin/env python3
"""usage: tools/seed_prompts.py ROUND  -- writes /tmp/wt<ROUND>/prompts/Cxx.txt: the brief given to the author of the
round's seeded changes for each property (property text + own worktree only; nothing from /verif except the one-line
summaries of the earlier rounds' changes, as "already taken")."""
import glob, json, os, sys
R = sys.argv[1]
V = os.path.dirname(os.path.dirname(os.path.abspath(__file__)))
T = '''You are helping evaluate a verification framework by playing the role of a careful adversary ("mutation author"). You work ONLY inside your own scratch git worktree of the open-source project emilkarlen/exactly (a CLI program tester written in pure Python, sources under src/exactly_lib):

    WORKTREE = /tmp/wt{R}/{id}

Do not read or touch /repo, /verif, or any other /tmp/wt* directory. Never commit anything. Work only in WORKTREE and write your deliverables to /tmp/seeded_out{R}/{id}/ (create it).

## The property you must break

{title}

Statement: {statement}

Quantifier: {qtext}

Code the property is anchored in (relative to WORKTREE): {files}

## Your task

Produce TWO *independent, different* source changes to files under WORKTREE/src/exactly_lib, each of which makes the program violate the property above, while:

1. The code still imports/compiles and the pinned test suite still passes. Check with:
       python3 /tmp/wt{R}/baseline_check.py /tmp/wt{R}/{id}
   (exit 0 and "still passing: 155" required; takes ~15 s).
2. The change is *realistic* (an off-by-one, a wrong comparison operator, a swapped argument, a missing case in a dispatch, a dropped `finally`, wrong default, an "optimisation" that is wrong in a corner, a refactoring slip, two cooperating sites that each look fine alone) — NOT a deliberate backdoor keyed on a magic string.
3. The change is *subtle*: it must need something specific to manifest — a particular unusual input, a boundary value, a multi-step sequence of operations, a fault at a particular point, a specific combination of features, or two cooperating sites that each look fine alone — rather than breaking ordinary everyday use at once. A change that makes every test case fail is useless. Put your two mutations in different functions/files, on different aspects of the property.
4. Each change is small (1-15 lines of diff).
5. It is DIFFERENT from the changes other authors already made for this property in earlier rounds (same site with the same idea is not acceptable; prefer code and aspects of the property none of them touches):
{taken}

For each mutation k = 1, 2 deliver in /tmp/seeded_out{R}/{id}/m<k>/ :
  * patch.diff   - output of `git -C /tmp/wt{R}/{id} diff` with ONLY that mutation applied (must apply cleanly to a pristine checkout with `git apply`)
  * demo.py (or demo.sh) - a small self-contained demonstration program that exercises the real code (through public API or the CLI - run the CLI in-process e.g. with
        /venv/bin/python -W ignore -c "import sys; from exactly_lib.cli_default.default_main_program_setup import main; sys.argv=['exactly', FILE]; sys.exit(main())"
    with PYTHONPATH=<tree>/src) that takes the source tree root as its first argument (default: the worktree), exits 0 and prints PASS when the property holds, exits 1 and prints FAIL when it is violated. It must print FAIL with your mutation applied and PASS on the pristine tree. Write temp files only under a fresh tempfile.mkdtemp() and remove them.
  * notes.md - first line: a one-line summary `# {id} / m<k> - ...`; then what the mutation is, which part of the property it breaks, and exactly what is needed for it to manifest (input / sequence / fault point).

Procedure for each mutation: edit -> run baseline_check -> run demo (must FAIL) -> save `git diff` to patch.diff -> `git -C /tmp/wt{R}/{id} checkout -- .` -> run demo again on the pristine tree (must PASS) -> next mutation. Leave the worktree pristine (`git status` clean) when you finish.

Use `PYTHONPATH=/tmp/wt{R}/{id}/src /venv/bin/python -W ignore` (Python 3.12) to run code from the worktree. There is no network. Helpful: the reference manual sources are under WORKTREE/doc and the built-in help is available via the CLI (`help` sub-command); the project's own (large) unittest suite is under WORKTREE/test/exactly_lib_test and shows how to drive internals.

If, while reading, you find that the UNCHANGED tree already violates the property for some input, say so at the end of your report under the heading "Defects of the unchanged tree" (input, observed, expected) - that is valuable; but your two mutations must be new breakage.

Finish with a short report: for each mutation one paragraph (file/function changed, what it breaks, what is needed to manifest), and confirmation that baseline_check passed with it and the demo behaves as required.
'''
os.makedirs('/tmp/wt%s/prompts' % R, exist_ok=True)
for l in open(os.path.join(V, 'properties.jsonl')):
    p = json.loads(l)
    taken = []
    for d in sorted(glob.glob(os.path.join(V, 'seeded', p['id'] + '-*'))):
        try:
            head = open(os.path.join(d, 'notes.md')).read().strip().splitlines()[0].lstrip('# ').strip()
        except Exception:
            continue
        files = sorted({ln[6:].strip() for ln in open(os.path.join(d, 'patch.diff')) if ln.startswith('+++ b/')})
        taken.append('   - %s  [%s]' % (head[:220], ', '.join(f.replace('src/exactly_lib/', '') for f in files)))
    open('/tmp/wt%s/prompts/%s.txt' % (R, p['id']), 'w').write(
        T.format(R=R, id=p['id'], title=p['title'], statement=p['statement'], qtext=p['quantifier']['text'],
                 files=', '.join(p['anchors']['files']), taken='\n'.join(taken) or '   (none)'))
