#!/bin/bash
# usage: tools/run_seeds.sh PROP [PROP...]   -- runs the quick check of PROP against each of its seeded changes
# (scratch copy, stops at the first reproduced counterexample), logs to /tmp/wt/seedruns/
mkdir -p /tmp/wt/seedruns
for P in "$@"; do
  for D in /verif/seeded/$P-*; do
    N=$(basename $D)
    [ -f /tmp/wt/seedruns/$N.log ] && continue
    MUT_LINES=4 /verif/tools/mut.sh $P $D/patch.diff --jobs ${SEED_JOBS:-6} --no-twins --first > /tmp/wt/seedruns/$N.log 2>&1
  done
done
