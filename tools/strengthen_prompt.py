#!/usr/bin/env python3
"""usage: tools/strengthen_prompt.py Cxx SEED [SEED...]  -> prints the brief for a sub-agent that strengthens harness/Cxx.py
against seeded changes the quick tier missed."""
import sys
P = sys.argv[1]
seeds = sys.argv[2:]
print('''You maintain ONE harness module of a verification framework: /verif/harness/{P}.py (and its helpers /verif/harness/_{P}_*.py).
The framework decides semantic properties of the Python project emilkarlen/exactly (sources in /repo/src/exactly_lib) by
solver-based checking: CrossHair 0.0.110 symbolically executes the REAL code from small harness functions whose parameters
are symbolic; z3 decides every branch; a check passes only if every obligation is "Confirmed over all paths".

Read first, in this order:
  1. /verif/HARNESS_GUIDE.md            (how harness modules work, how to run them, pitfalls - essential)
  2. the entry of property {P} in /verif/properties.jsonl (the property text; it is fixed)
  3. /verif/DESIGN.md: section 0, and in section 4 the entry "### {P}" with its "As built" paragraph
  4. /verif/harness/{P}.py and its helpers

## The problem

Independent authors wrote small realistic changes to /repo that BREAK property {P} but pass the project's pinned tests.
The quick tier of the {P} check (`python3-vt -m vsym.check {P} --tier quick`) does NOT detect the following one(s) - it
exits 0 against a copy of the source with the patch applied:
{seedlist}
Each directory holds patch.diff (the change), notes.md (what it breaks and what is needed for it to manifest) and a demo.

## Your task

Strengthen harness/{P}.py so that the quick tier detects each of these changes (exit 1, a `VIOLATION` line, i.e. a solver
counterexample that replays on plain CPython), while still exiting 0 on the unchanged tree.

Rules:
* GENERALISE.  Work out which dimension of the input space the harness does not reach (a form of input missing from a
  catalogue, a bound too small, an object used only once, a collaborator that is stubbed, an observation the oracle does
  not make) and add that DIMENSION - the whole family the change belongs to - not the author's one witness.  Prefer
  making data symbolic (integers, short strings, booleans, fault kinds) over adding catalogue rows; where only a
  catalogue is possible, add the whole class of rows.
* The oracle must stay an independent statement of what the documentation / the property says; never copy the
  implementation's logic into it.
* Never loosen an existing obligation.  New obligations must be Confirmed on the unchanged tree.  If a new obligation is
  REFUTED on the unchanged tree, work out (HARNESS_GUIDE.md, last section) whether your harness is wrong (fix it) or
  /repo really violates the property (reproduce through the public entry point; do NOT edit /repo; give the obligation a
  region exclusion as the guide describes and REPORT the defect to me: input, observed, expected).
* Keep the cost small: the new quick-tier obligations together <= about 300 CPU-seconds; give each a `timeout` >= 3x its
  measured CPU time.  Add the same (or larger bounds) to the thorough tier.
* Each new kernel family needs a seeded-oracle-error obligation (expect=ob.REFUTE) unless the family already has one.
* Edit ONLY /verif/harness/{P}.py and /verif/harness/_{P}_*.py (new helper files with that prefix are fine).  Do not edit
  /repo, /verif/vsym, other harness modules, MANIFEST.json, DESIGN.md, known_findings.json.  Do not git commit.  Nothing
  the check needs may live under /tmp.

How to run (cwd /verif; the machine is shared with other jobs, so use at most 4 jobs and restrict runs with --only):
  python3-vt -m vsym.check {P} --list | cut -c1-150
  python3-vt -m vsym.check {P} --tier quick --only 'GLOB' --jobs 4            # unchanged tree; must print all confirmed, exit 0
  tools/mut.sh {P} seeded/<dir>/patch.diff --jobs 4 --no-twins --first --only 'GLOB'   # against the change; must print VIOLATION, exit=1
  (exit 3 / HARNESS-ERROR = inconclusive or a counterexample that does not reproduce: that is NOT a detection - fix it)
When you are done run the new and the modified obligations once more on the unchanged tree (with their reachability
twins, i.e. without --no-twins) and also `python3-vt -m vsym.check {P} --tier thorough --list` to see that the thorough
tier still builds.  Do not run the whole quick tier; I will.

Final report (short): per seeded change - the dimension that was missing, what you added (obligation names, what is
symbolic, bounds), the obligation(s) that now catch it, measured CPU cost on the unchanged tree; any defect of the
unchanged tree you found; and a 3-6 line "As built" addition for DESIGN.md describing the new dimension.
'''.format(P=P, seedlist='\n'.join('    /verif/seeded/%s/' % s for s in seeds)))
