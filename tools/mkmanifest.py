#!/usr/bin/env python3
"""Regenerates /verif/MANIFEST.json from the table below (run from /verif).

A property is claimed iff harness/<id>.py exists and it has an entry in CLAIMED.
Everything else is listed under not_applicable with its reason.
"""
import json
import os

HERE = os.path.dirname(os.path.dirname(os.path.abspath(__file__)))

TECH = ('bounded symbolic execution of the real exactly_lib code (CrossHair 0.0.110, one path at a time) with z3 '
        'deciding every branch condition and the negated post-condition; verdict = "Confirmed over all paths" '
        'for every obligation, counterexamples replayed on plain CPython 3.11 and 3.12')

NOTE = ('Trusted: CrossHair byte-code interpreter and its str/int/list/dict/re models, z3; environment stubs listed in the '
        'evidence file (each a documented-contract stand-in for a C/OS boundary); bounds as stated per obligation; '
        'engine runs on 3.11.7, repository on 3.12.1 (counterexamples reproduced on both).')

# id -> (level text, design ref)
CLAIMED = {
    'C03': ('Stub-level: a defect of every kind at every pre-sandbox step leaves no main/post-setup/act step executed and no sandbox; '
            'the accessor stages never reach the executor on failure; and the real MainProgram.execute on generated test cases with '
            'one defective instruction out of a catalogue of 26+5 defects at every phase/position starts no process and creates no '
            'sandbox (recording subprocess stub, counting resolver), also for the symbol command. Selector-level enumeration, '
            'exhaustive over the catalogue.', '4/C03'),
    'C04': ('The real full_execution.execute on stub test cases with a real sandbox: for every step family as the site where execution '
            'ends with every kind of ending, with and without --keep, with a misbehaving instruction (chdir, read-only files, '
            'environment changes, removed cwd), the layout seen from inside the first step, tmp/ staying empty, result/ after act, '
            'removal/preservation of the sandbox and restoration of cwd and os.environ are as documented.', '4/C04'),
    'C02': ('translate_status against the manual table; the three real result reporters on every kind of result with a symbolic '
            'exit code 0..255 of the action to check; and the chain stub case + symbolic fault plan -> real executor -> real '
            'standalone Processor.process -> real reporter, whose (exit code, stdout, stderr) must equal the documented table applied '
            'to the verdict of the documented protocol, in all three output modes; invalid command lines give 64 without identifier.',
            '4/C02'),
    'C01': ('The real full_execution.execute on test cases of stub instructions + stub actor: for every instruction-count vector in '
            'the catalogue, every step as the site of the first fault with every applicable kind, followed by every later step '
            'failing or a failing cleanup instruction at every position, under every status, the recorded call trace, the '
            'previous-phase argument of cleanup, the reported status and failing step equal an independent model of the '
            'documented protocol. Bounded: instruction counts <= 2 (quick) / <= 3 (thorough).', '4/C01'),
    'C13': ('Every line-matcher expression template in the catalogue (shape, negations, connectives concrete; comparison '
            'operators, integer operands in Z, verdicts of unknown matchers, line number symbolic) parsed by the real parser: '
            'the interval analysis covers every accepted line; filter / -line-nums output equals per-line evaluation for all '
            'symbolic range bounds and texts up to N lines. Bounded model checking: exhaustive within the bounds, nothing outside.',
            '4/C13'),
}

NOT_APPLICABLE = {
    'C20': 'finite catalogue constructed by the program itself (instruction tables, entity lists, href/id sets): no input, '
           'schedule or history to make symbolic; deciding it is plain enumeration, which this technique family excludes '
           '(DESIGN.md section 7)',
}

NOT_YET = 'check not built yet in this round (planned, see DESIGN.md section 4); not claimed until its harness is committed'


def main():
    props = [json.loads(l) for l in open(os.path.join(HERE, 'properties.jsonl'))]
    checks = []
    na = []
    for p in props:
        pid = p['id']
        if pid in CLAIMED and os.path.exists(os.path.join(HERE, 'harness', pid + '.py')):
            text, ref = CLAIMED[pid]
            checks.append(dict(
                property_id=pid,
                quick_cmd='python3-vt -m vsym.check %s --tier quick' % pid,
                thorough_cmd='python3-vt -m vsym.check %s --tier thorough' % pid,
                evidence_file='evidence/%s.json' % pid,
                replay_cmd_template='python3-vt -m vsym.check %s --replay {path}' % pid,
                engine='vsym',
                level_claimed=dict(category='model_checking', text=text, design_ref='DESIGN.md section ' + ref),
                level_note=NOTE,
                technique=TECH,
            ))
        else:
            na.append(dict(property_id=pid, reason=NOT_APPLICABLE.get(pid, NOT_YET)))
    m = dict(
        version=1,
        setup_cmd='python3-vt -m vsym.setup',
        hooks=dict(guard='EXACTLY_VERIF', enable='none: no hooks are compiled into /repo; stubs are installed by rebinding '
                                                 'module attributes inside the check processes',
                   baseline_off_cmd='cd /repo && /venv/bin/python -m pytest -ra -q -p no:cacheprovider --timeout=900 '
                                    '--continue-on-collection-errors',
                   source_commits=[], add_only=True),
        engines=[dict(name='vsym', path='vsym/', serves_properties=[c['property_id'] for c in checks],
                      kind_free_text='driver around CrossHair (symbolic execution of CPython byte code) + z3; one obligation '
                                     'per process, 16 in parallel; concrete replay of every counterexample')],
        checks=checks,
        notes='Solver-based checking of the real code.  exit 0 = all obligations confirmed over all paths; exit 1 + VIOLATION = '
              'replayed counterexample; exit 3 = harness error / inconclusive (never reported as success or as violation). '
              'Known findings: known_findings.json.',
        not_applicable=na,
    )
    json.dump(m, open(os.path.join(HERE, 'MANIFEST.json'), 'w'), indent=1)
    print('claimed:', [c['property_id'] for c in checks])
    print('not claimed:', [x['property_id'] for x in na])


if __name__ == '__main__':
    main()
