#!/usr/bin/env python3
"""Regenerates /verif/MANIFEST.json from the table below (run from /verif).

A property is claimed iff harness/<id>.py exists and it has an entry in CLAIMED.
Everything else is listed under not_applicable with its reason.
"""
import json
import os

HERE = os.path.dirname(os.path.dirname(os.path.abspath(__file__)))

TECH = ('bounded symbolic execution of the real exactly_lib code (CrossHair 0.0.110, one path at a time) with z3 '
        'deciding every branch condition and the negated post-condition; verdict = "Confirmed over all paths" '
        'for every obligation, counterexamples replayed on plain CPython 3.11 and 3.12')

NOTE = ('Trusted: CrossHair byte-code interpreter and its str/int/list/dict/re models, z3; environment stubs listed in the '
        'evidence file (each a documented-contract stand-in for a C/OS boundary); bounds as stated per obligation; '
        'engine runs on 3.11.7, repository on 3.12.1 (counterexamples reproduced on both).')

# id -> (level text, design ref)
CLAIMED = {
    'C07': ('ParseSource bookkeeping, line syntax, act un-escaping and the document parser on fully SYMBOLIC texts (<= 3-5 characters) '
            'against position-based reference readers; the real test-case parser (processors._Parser around test_case_parser.new_parser) '
            'on documents over 25 line kinds, every permutation of phase blocks, inclusion graphs incl. cycles and missing files, with '
            'source locations and inclusion chains; one instruction element with description / comments on symbolic text; header-delimited '
            'blocks with the real instruction set; rendered reports; the source lines of an instruction syntax error for a symbolic indentation and a symbolic number of consumed characters. One known finding (header swallowed by an instruction) excluded by region.', '4/C07'),
    'C17': ('Suite/case contents merging on labelled documents for every subset of phases; leakage between cases on one real executor '
            '(17 kinds of mutation by a misbehaving instruction, symbolic timeouts, fault kinds); the three ways of running a case (suite, '
            '--suite, beside exactly.suite) through the real MainProgram with an absolute oracle on started processes; histories of 2-3 '
            'real cases in one suite run vs each alone; suite-supplied instructions referring to case-defined symbols (36 forms). '
            'Selector-level for the program-level kernels. Round 5: hierarchies of 2-3 suites whose suite-level contents differ.', '4/C17'),
    'C18': ('Classification kernels: python_evaluate with eval stubbed to return a symbolic n / a non-integer / raise any of 64 exception '
            'classes or SystemExit, through the real integer parser and 14 instruction sites; the instruction-dictionary parser on symbolic '
            'source with a stub parser; regex validator with re.compile raising anything; the real replace transformer on a catalogue of bad '
            'templates; the last-resort nets of executor and processor; the real MainProgram on 331 (quick) / 6111 (thorough) mutants of a '
            'grammar of 106 valid instructions and on document-level catalogues; termination of the real program (child process under a wall-clock limit) on a catalogue of large integer expressions. Two known findings (NUL character in a file name; an integer expression evaluated without bound, `9**9**9**9`).', '4/C18'),
    'C08': ('Def/reference programs generated from selectors as test-case text, parsed by the real instruction parsers and default actor '
            'and validated by the real parse_atc_and_validate_symbols / validate_symbol_usages with the builtins predefined: accept iff an '
            'independent def/reference interpreter accepts (order, duplicates, builtins, 13 value types x 31 definition forms x 22 '
            'reference contexts, transitive through chains), rejects are VALIDATION_ERROR with nothing executed; visibility at execution '
            'time through the real executor; substitution with SYMBOLIC string / list values through the real parsers. Rounds 4-5: visibility of a definition in EVERY step of later instructions; references written in the act phase for every actor.', '4/C08'),
    'C11': ('_expand_vars on every value up to length 5/6 over {$,{,},A,_,x} with a symbolic value of A against a regex-free reference; '
            'one env / timeout instruction executed in a symbolic settings state; histories of k <= 2/3 cd / env / timeout instructions '
            'in every phase placement through the real MainProgram with probe processes recorded by a subprocess stand-in (env=, timeout=, '
            'cwd) against a reference state machine; symbolic timeout literals and initial environment values. Round 7: the program behind the stdin of the action to check as a probe (non-act set, timeout and directory as of the end of [setup]).', '4/C11'),
    'C12': ('Real parse_path with the configuration objects of 12 real path arguments x 11 relativities x 15 file-name shapes; chains of '
            'def path / def string (depth <= 2 / 3) through the real def instruction and validate_symbol_usages; whole program (--keep) '
            'for file / dir / copy destinations in every phase with effects compared on disk and an unchanged home directory on rejection; '
            '-rel-cd resolved at time of use; reading arguments. Selector-level (paths are a C boundary), exhaustive over the catalogues. '
            'One known finding (absolute FILE-NAME) excluded by region.', '4/C12'),
    'C19': ('Time as a symbolic integer: ProcessExecutor.execute with symbolic duration/timeout/exit code against the contract of '
            'subprocess.call; and the plumbing of the timeout value to every process-starting site (act; $, %, run in every phase; programs as '
            'text sources of file and env; run as transformer and as matcher) through the real MainProgram on generated cases, with the '
            'timeout literal and the child duration symbolic (bounded 0..99 quick / 0..9999 thorough): the timeout= handed to the OS stub is '
            'the value in force, exceeding it gives HARD_ERROR in that phase, cleanup still runs, the sandbox is removed. Real '
            'termination / wall-clock bounds are outside the claim. Round 5: programs started in the act phase that are not the action to check; a cleanup process timing out after a failed assertion.', '4/C19'),
    'C14': ('Real string sources (str, file, transformed, concatenated, via writer / file descriptor) over a fake text-file layer with a '
            'SYMBOLIC text (<= 3-5 chars incl. CR, LF, FF, non-ASCII) and SYMBOLIC memory-buffer size m >= 1: every access sequence of '
            'as_str / as_lines / write_to / as_file / freeze yields the same characters and line division; equals across source kinds; '
            'M vs ( M && M ) vs -transformed-by identity M. One known finding (carriage return) is excluded by region. Rounds 4-5: transformers that change the number of lines (symbolic replacement string); degenerate white-space-only texts.', '4/C14'),
    'C05': ('Matchers and transformers obtained from the real parsers on concrete syntax (full sdv->ddv->adv->primitive chain) applied to '
            "exactly_lib's in-memory text source holding a SYMBOLIC string (|s| <= 4..5 over {a,b,A,space,tab,newline,.}), integer operands "
            'in Z, line-matcher verdicts symbolic per line, replacement results uninterpreted; compared with an independent interpreter of '
            'the manual (is-empty, equals, matches [-full], num-lines, every/any line, -transformed-by, replace [-at] [-preserve-new-lines], '
            'strip variants, char-case, filter, grep, identity, | composition). Round 4: compositions nested in compositions (parentheses, symbols, attached to programs) and the is-identity attribute.', '4/C05'),
    'C06': ('Expression grammar of all six host types: the catalogue of expression texts (generated trees with every layout; all token '
            'strings up to a length bound) is enumerated by the harness on concrete text against a reference recogniser; one representative '
            'of every distinct parse structure is then evaluated under CrossHair with SYMBOLIC leaf verdicts / integer operands and compared '
            '(value and asking order) with the generating tree. Shapes and layouts are concrete cases, leaf values are what the solver decides. Round 4: near-miss operator tokens at every operator position; the whole-text route through `def`.',
            '4/C06'),
    'C09': ('The real TokenStream/shlex (pure-Python StringIO stub) on a fully SYMBOLIC source (all strings up to length 3-5 over an 8-character '
            'alphabet) against an independent reader of the documented string syntax; reference splitting, fragment parsing, denotation '
            'with symbolic symbol values, here-documents, lists and text-until-end-of-line on masked texts with symbolic holes. Round 4: tokens that mix hard quotes with other forms outside the (narrowed) region of the known finding.', '4/C09'),
    'C10': ('Command -> OS call with symbolic program / argument strings, timeout, exit code; test-case text -> denotation through the real '
            'parser, def/stdin instructions, actors, program-symbol chains (depth <= 3/4) with symbolic symbol values; whole program with a '
            'recording stub at the single subprocess site; exit-code verdicts for all codes. Round 5: quoted option-like / reserved words at every argument position; output of the child that is not valid UTF-8.', '4/C10'),
    'C15': ('Real `exists PATH : FILE-MATCHER` and `dir` instructions on real directory fixtures: recursive walk with symbolic depth limits '
            'and symbolic per-file verdicts of selection/prune matchers vs the documented set; files-matchers with symbolic integer operands; '
            'FILE-LIST population (selector catalogue of specs x initial trees) vs a fold over an in-memory tree; file-name rules on a '
            'symbolic name.', '4/C15'),
    'C16': ('Real suite execution machinery (SuitesExecutor, DepthFirstEnumerator, both reporters, MainProgram suite command) on generated '
            'hierarchies and outcome assignments from the full set of 14 outcomes; selector-level, exhaustive over the stated catalogues; '
            'glob match order symbolic. Round 5: generated glob patterns (every construct, quoted / unquoted, relative / absolute) in reference lines.', '4/C16'),
    'C03': ('Stub-level: a defect of every kind at every pre-sandbox step leaves no main/post-setup/act step executed and no sandbox; '
            'the accessor stages never reach the executor on failure; and the real MainProgram.execute on generated test cases with '
            'one defective instruction out of a catalogue of 26+5 defects at every phase/position starts no process and creates no '
            'sandbox (recording subprocess stub, counting resolver), also for the symbol command. Selector-level enumeration, '
            'exhaustive over the catalogue. Rounds 4-5: validation accumulated through program-symbol references, an undefined symbol in every argument position, definitions that refer to themselves, every actor of the act phase, and four ways of running (plain, symbol, --act, --keep).', '4/C03'),
    'C04': ('The real full_execution.execute on stub test cases with a real sandbox: for every step family as the site where execution '
            'ends with every kind of ending, with and without --keep, with a misbehaving instruction (chdir, read-only files, '
            'environment changes, removed cwd), the layout seen from inside the first step, tmp/ staying empty, result/ after act, '
            'removal/preservation of the sandbox and restoration of cwd and os.environ are as documented. Round 4: every output mode through the real standalone processor (sandbox left and path printed iff --keep). Rounds 6-7: result files that exist before the act phase; entries created directly in the sandbox root.', '4/C04'),
    'C02': ('translate_status against the manual table; the three real result reporters on every kind of result with a symbolic '
            'exit code 0..255 of the action to check; and the chain stub case + symbolic fault plan -> real executor -> real '
            'standalone Processor.process -> real reporter, whose (exit code, stdout, stderr) must equal the documented table applied '
            'to the verdict of the documented protocol, in all three output modes; invalid command lines give 64 without identifier. Round 5: the status set by the suite in force vs the status set by the case (the case wins), through the real MainProgram.',
            '4/C02'),
    'C01': ('The real full_execution.execute on test cases of stub instructions + stub actor: for every instruction-count vector in '
            'the catalogue, every step as the site of the first fault with every applicable kind, followed by every later step '
            'failing or a failing cleanup instruction at every position, under every status, the recorded call trace, the '
            'previous-phase argument of cleanup, the reported status and failing step equal an independent model of the '
            'documented protocol. Bounded: instruction counts <= 2 (quick) / <= 3 (thorough). Round 5: instruction-count vectors with exactly one empty phase in the quick tier.', '4/C01'),
    'C13': ('Every line-matcher expression template in the catalogue (shape, negations, connectives concrete; comparison '
            'operators, integer operands in Z, verdicts of unknown matchers, line number symbolic) parsed by the real parser: '
            'the interval analysis covers every accepted line; filter / -line-nums output equals per-line evaluation for all '
            'symbolic range bounds and texts up to N lines. Bounded model checking: exhaustive within the bounds, nothing outside. Round 4: every ordered pair of range forms in the quick tier.',
            '4/C13'),
}

NOT_APPLICABLE = {
    'C20': 'finite catalogue constructed by the program itself (instruction tables, entity lists, href/id sets): no input, '
           'schedule or history to make symbolic; deciding it is plain enumeration, which this technique family excludes '
           '(DESIGN.md section 7)',
}

NOT_YET = 'check not built yet in this round (planned, see DESIGN.md section 4); not claimed until its harness is committed'


def main():
    props = [json.loads(l) for l in open(os.path.join(HERE, 'properties.jsonl'))]
    checks = []
    na = []
    for p in props:
        pid = p['id']
        if pid in CLAIMED and os.path.exists(os.path.join(HERE, 'harness', pid + '.py')):
            text, ref = CLAIMED[pid]
            checks.append(dict(
                property_id=pid,
                quick_cmd='python3-vt -m vsym.check %s --tier quick' % pid,
                thorough_cmd='python3-vt -m vsym.check %s --tier thorough' % pid,
                evidence_file='evidence/%s.json' % pid,
                replay_cmd_template='python3-vt -m vsym.check %s --replay {path}' % pid,
                engine='vsym',
                level_claimed=dict(category='model_checking', text=text, design_ref='DESIGN.md section ' + ref),
                level_note=NOTE,
                technique=TECH,
            ))
        else:
            na.append(dict(property_id=pid, reason=NOT_APPLICABLE.get(pid, NOT_YET)))
    m = dict(
        version=1,
        setup_cmd='python3-vt -m vsym.setup',
        hooks=dict(guard='EXACTLY_VERIF', enable='none: no hooks are compiled into /repo; stubs are installed by rebinding '
                                                 'module attributes inside the check processes',
                   baseline_off_cmd='cd /repo && /venv/bin/python -m pytest -ra -q -p no:cacheprovider --timeout=900 '
                                    '--continue-on-collection-errors',
                   source_commits=[], add_only=True),
        engines=[dict(name='vsym', path='vsym/', serves_properties=[c['property_id'] for c in checks],
                      kind_free_text='driver around CrossHair (symbolic execution of CPython byte code) + z3; one obligation '
                                     'per process, 16 in parallel; concrete replay of every counterexample')],
        checks=checks,
        notes='Solver-based checking of the real code.  exit 0 = all obligations confirmed over all paths; exit 1 + VIOLATION = '
              'replayed counterexample; exit 3 = harness error / inconclusive (never reported as success or as violation). '
              'Known findings: known_findings.json.',
        not_applicable=na,
    )
    json.dump(m, open(os.path.join(HERE, 'MANIFEST.json'), 'w'), indent=1)
    print('claimed:', [c['property_id'] for c in checks])
    print('not claimed:', [x['property_id'] for x in na])


if __name__ == '__main__':
    main()
