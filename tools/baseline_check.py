#!/usr/bin/env python3
"""usage: baseline_check.py WORKTREE  -- runs the pinned test suite in WORKTREE (with its own src on PYTHONPATH)
and reports whether all 155 baseline tests still pass. Exit 0 iff they do."""
import sys, os, subprocess, json, tempfile, xml.etree.ElementTree as ET
wt = os.path.abspath(sys.argv[1])
xml = tempfile.mktemp(suffix='.xml')
env = dict(os.environ, PYTHONPATH=os.path.join(wt, 'src'))
subprocess.run(['/venv/bin/python', '-m', 'pytest', '-q', '-p', 'no:cacheprovider', '--timeout=900',
                '--continue-on-collection-errors', '--junitxml=' + xml], cwd=wt, env=env,
               stdout=subprocess.DEVNULL, stderr=subprocess.DEVNULL)
passed = set()
for tc in ET.parse(xml).iter('testcase'):
    if not any(c.tag in ('failure', 'error', 'skipped') for c in tc):
        passed.add(tc.get('classname') + '::' + tc.get('name'))
os.unlink(xml)
base = set(json.load(open('/root/.vp/BASELINE.json'))['stable_pass'])
missing = sorted(base - passed)
print('baseline tests: %d, still passing: %d' % (len(base), len(base & passed)))
for m in missing:
    print('NOW FAILING:', m)
sys.exit(1 if missing else 0)
